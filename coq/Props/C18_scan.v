(* C18, control flow completed: the graph built from a trace with If, Loop (loop-carried values AND scan outputs)
   and Scan bodies (state variables + scan inputs; scan_input_axes / directions left default) built through
   builder.subgraph computes exactly the direct reading of the trace -- full equality, failure included.

   Evaluator: OV.Builder.SemX.eval_graph_x, a C18-private extension of the shared evaluator OV.Graph.Sem (which
   interprets only If and Loop without scan outputs and is not edited by this property) with two more abstract
   kernels, `stack` (rows of a scan output) and `unstack` (slices of a scan input).  A node's results are computed by
   SemX.ncore from the values of its operands and from how its graph-valued attributes are run; the reading
   TraceCFX.creplay_x applies the SAME function to the reading of the bodies, so the theorem is about the builder
   (names, scoping, operand resolution, order of nodes, outputs), not about two copies of the ONNX semantics.
   Not covered: scan_input_axes / scan_input_directions / scan_output_axes / scan_output_directions other than the
   defaults (the abstract `stack` / `unstack` do not take an axis); nodes spliced in by call_inline (CRaw; see
   Props/C18_inline.v for inline = call). *)
From Coq Require Import String List Bool ZArith.
Require Import OV.Graph.Syntax OV.Graph.Sem OV.Builder.Strings OV.Builder.Naming OV.Builder.Trace OV.Builder.TraceProofs
               OV.Builder.TraceCF OV.Builder.TraceCFProofs OV.Builder.SemX OV.Builder.TraceCFX OV.Builder.TraceCFXProofs.
Import ListNotations.

Theorem C18_build_computes_trace_cfx :
  forall V sem truth trip of_nat of_bool lim stack unstack lit_val cf fuel ins tr outs args,
  cfx_trace tr = true ->
  let sf := fst (build_state cf ins tr) in
  NoDup (all_defined sf) -> ~ In "?undefined"%string (all_defined sf) ->
  Forall (lit_ok V lit_val (b_cache sf)) (lits_calls tr) ->
  List.length args = List.length ins ->
  eval_graph_x V sem truth trip of_nat of_bool lim stack unstack (S fuel) (init_env V lit_val (b_cache sf)) (build cf ins tr outs) args =
  creplay_x V sem truth trip of_nat of_bool lim stack unstack lit_val fuel tr args outs.
Proof. exact build_computes_trace_cfx. Qed.
Print Assumptions C18_build_computes_trace_cfx.

(* the hypotheses as one boolean, evaluated by the harness on every generated trace *)
Theorem C18_build_computes_trace_cfx_checked :
  forall V sem truth trip of_nat of_bool lim stack unstack lit_val cf fuel ins tr outs args,
  cfx_hypsb cf ins tr = true ->
  List.length args = List.length ins ->
  eval_graph_x V sem truth trip of_nat of_bool lim stack unstack (S fuel)
               (init_env V lit_val (b_cache (fst (build_state cf ins tr)))) (build cf ins tr outs) args =
  creplay_x V sem truth trip of_nat of_bool lim stack unstack lit_val fuel tr args outs.
Proof. exact build_computes_trace_cfx_checked. Qed.
Print Assumptions C18_build_computes_trace_cfx_checked.

(* the hypotheses are satisfiable on a trace with a Loop scan output and a Scan with a literal state whose body
   captures a root value; the theorem then gives the value of the built graph; a Loop whose node declares a scan
   output that the body does not return fails on both sides *)
Example C18_build_computes_trace_cfx_hypotheses_satisfiable :
  cfx_hypsb bcfg_fixed ["x"%string] ex_scan_trace = true.
Proof. exact (proj1 ex_scan_hyps). Qed.

Example C18_build_computes_trace_cfx_instance :
  eval_graph_x Z zsem ztruth ztrip Z.of_nat zof_bool 100 zstack zunstack 2
               (init_env Z zlit (b_cache (fst (build_state bcfg_fixed ["x"%string] ex_scan_trace))))
               (build bcfg_fixed ["x"%string] ex_scan_trace [7; 8; 13; 14]) [5]%Z =
  Some [8; zstack [10; 10; 12]; 27; zstack [40; 45; 50]]%Z.
Proof. exact ex_scan_computes. Qed.

Example C18_build_computes_trace_cfx_failure_instance :
  cfx_hypsb bcfg_fixed ["x"%string] ex_scan_short = true /\
  eval_graph_x Z zsem ztruth ztrip Z.of_nat zof_bool 100 zstack zunstack 2
               (init_env Z zlit (b_cache (fst (build_state bcfg_fixed ["x"%string] ex_scan_short))))
               (build bcfg_fixed ["x"%string] ex_scan_short [6; 7]) [5]%Z = None.
Proof. exact ex_scan_short_fails. Qed.
