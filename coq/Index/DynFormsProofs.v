(* C11 -- session 6: result-level exact characterisation of the forms on which the front ends return NumPy's tensor,
   tensor-valued / attribute-valued slice bounds, and the forms outside the documented ones (models: DynForms.v). *)
From Coq Require Import ZArith List Bool Lia ZifyBool.
Import ListNotations.
Require Import OV.Index.NumpySpec OV.Index.OnnxSlice OV.Index.ConverterIdx OV.Index.EagerIdx OV.Index.SliceProofs
               OV.Index.ViewProofs OV.Index.AdvSpec OV.Index.AdvProofs OV.Index.AdvConvProofs OV.Index.EagerFix
               OV.Index.EagerFixProofs OV.Index.AdvEagerProofs OV.Index.AdvSummary OV.Index.Corr OV.Index.DynForms.
Open Scope Z_scope.

(* ================= 1. exact characterisation at the level of results ================= *)

Lemma akind_wit : forall k, akind (wit_acomp k) = k.
Proof.
  intros [|r]; [reflexivity|]. destruct r as [|r]; [reflexivity|].
  unfold akind, wit_acomp, tshape. rewrite repeat_length. reflexivity.
Qed.

Lemma wit_lengths : forall f, length (wit_shape f) = length f /\ length (wit_idx f) = length f.
Proof. intros f. unfold wit_shape, wit_idx. rewrite !map_length. split; reflexivity. Qed.

Lemma full_form_wit : forall f, full_form (wit_shape f) (wit_idx f) = f.
Proof.
  intros f. unfold full_form. destruct (wit_lengths f) as [H1 H2]. rewrite H1, H2, Nat.sub_diag. cbn [repeat].
  rewrite app_nil_r. clear H1 H2. unfold wit_idx. rewrite map_map. induction f as [|k f IH]; [reflexivity|].
  cbn [map]. rewrite akind_wit, IH. reflexivity.
Qed.

(* the flattened components of a witness expression: ':', the rank-0 tensor 0, or the one-element tensor [0] *)
Definition wit_comp (c : comp) : Prop := c = CSlice BNone BNone BNone \/ c = CT0 0 \/ c = CT1 [0].

Lemma wit_comps : forall f c, In c (map flat (wit_idx f)) -> wit_comp c.
Proof.
  intros f c H. unfold wit_idx in H. rewrite map_map in H. apply in_map_iff in H. destruct H as [k [<- _]].
  destruct k as [|r]; [left; reflexivity|]. destruct r as [|r]; [right; left; reflexivity|right; right; reflexivity].
Qed.

Lemma wit_eager_minus1_ok : forall f, eager_minus1_ok (map flat (wit_idx f)) = true.
Proof.
  intros f. unfold eager_minus1_ok. apply orb_true_iff. right. apply forallb_forall. intros c Hc.
  destruct (wit_comps f c Hc) as [->|[->| ->]]; reflexivity.
Qed.

Lemma wit_conv_minus1_ok : forall f, conv_minus1_ok (map flat (wit_idx f)) = true.
Proof.
  intros f. unfold conv_minus1_ok. apply orb_true_iff. right. apply forallb_forall. intros c Hc.
  destruct (wit_comps f c Hc) as [->|[->| ->]]; reflexivity.
Qed.

Lemma wit_conv_accepts : forall f, conv_accepts (map flat (wit_idx f)) = true.
Proof.
  intros f. unfold conv_accepts. apply forallb_forall. intros c Hc.
  destruct (wit_comps f c Hc) as [->|[->| ->]]; reflexivity.
Qed.

Lemma hazard_free_all : forall idx shape, (forall c, In c idx -> forall d, comp_hazard_free d c = true) -> hazard_free shape idx = true.
Proof.
  induction idx as [|c idx IH]; intros shape H; [reflexivity|]. destruct shape as [|d shape]; [reflexivity|].
  cbn [hazard_free]. rewrite (H c (or_introl eq_refl)). cbn [andb]. apply IH. intros c' Hc'. apply H. right. assumption.
Qed.

Lemma wit_hazard_free : forall f, hazard_free (wit_shape f) (map flat (wit_idx f)) = true.
Proof.
  intros f. apply hazard_free_all. intros c Hc d. destruct (wit_comps f c Hc) as [->|[->| ->]]; reflexivity.
Qed.

Lemma wit_dims_ok : forall f, dims_ok (wit_shape f).
Proof.
  intros f. unfold dims_ok, wit_shape. apply Forall_forall. intros d Hd. apply in_map_iff in Hd. destruct Hd as [k [<- _]].
  unfold MAXI. lia.
Qed.

Lemma dims_ok_nat : forall shape, dims_ok shape -> dims_nat shape.
Proof. intros shape H. unfold dims_nat, dims_ok in *. eapply Forall_impl; [|exact H]. cbn. intros; lia. Qed.

Lemma wit_outer : forall f, outer_nest (wit_shape f) (wit_idx f) = Some (outer_arr 0 (wit f)).
Proof.
  intros f. destruct (wit_realised f) as [v [Hv Hi]]. unfold outer_nest. rewrite Hv. cbn [option_map]. rewrite Hi. reflexivity.
Qed.

(* eager: a form is good iff on every instance of it whatever Tensor.__getitem__ returns is NumPy's result *)
Theorem eager_equals_numpy_iff_good_form : forall f,
  good_form f = true <->
  (forall shape aidx n, dims_nat shape -> (length aidx <= length shape)%nat -> full_form shape aidx = f ->
     eager_nest_c true shape aidx = Some n -> np_nest shape aidx = Some n).
Proof.
  intros f. split.
  - intros Hg shape aidx n Hd Hlen Hf H. apply eager_adv_good_sound; try assumption. rewrite Hf. assumption.
  - intros H. destruct (good_form f) eqn:Hg; [reflexivity|]. exfalso.
    destruct (wit_lengths f) as [L1 L2].
    assert (He : eager_nest_c true (wit_shape f) (wit_idx f) = Some (outer_arr 0 (wit f))).
    { rewrite eager_nest_is_outer_nest.
      - apply wit_outer.
      - apply dims_ok_nat. apply wit_dims_ok.
      - rewrite L1, L2. lia.
      - apply wit_eager_minus1_ok. }
    pose proof (H (wit_shape f) (wit_idx f) _ (dims_ok_nat _ (wit_dims_ok f)) ltac:(rewrite L1, L2; lia) (full_form_wit f) He) as Hn.
    exact (bad_form_witness f Hg _ _ Hn (wit_outer f) eq_refl).
Qed.

(* converter: the same (outside the negative-step corner, which is characterised separately) *)
Theorem conv_equals_numpy_iff_good_form : forall f,
  good_form f = true <->
  (forall shape aidx n, dims_ok shape -> (length aidx <= length shape)%nat -> hazard_free shape (map flat aidx) = true ->
     full_form shape aidx = f -> conv_nest shape aidx = Some n -> np_nest shape aidx = Some n).
Proof.
  intros f. split.
  - intros Hg shape aidx n Hd Hlen Hh Hf H. apply conv_adv_good_sound; try assumption. rewrite Hf. assumption.
  - intros H. destruct (good_form f) eqn:Hg; [reflexivity|]. exfalso.
    destruct (wit_lengths f) as [L1 L2].
    assert (Hc : conv_nest (wit_shape f) (wit_idx f) = Some (outer_arr 0 (wit f))).
    { rewrite conv_nest_is_outer_nest.
      - apply wit_outer.
      - apply wit_dims_ok.
      - rewrite L1, L2. lia.
      - apply wit_hazard_free.
      - apply wit_conv_accepts.
      - apply wit_conv_minus1_ok. }
    pose proof (H (wit_shape f) (wit_idx f) _ (wit_dims_ok f) ltac:(rewrite L1, L2; lia) (wit_hazard_free f) (full_form_wit f) Hc) as Hn.
    exact (bad_form_witness f Hg _ _ Hn (wit_outer f) eq_refl).
Qed.

(* good forms: eager outcome = NumPy's outcome, errors included (an index out of range is an error on both sides; the scalar -1
   through Slice(-1, 0) + squeeze is the one error NumPy does not raise) *)
Theorem eager_adv_good_eq : forall shape aidx,
  dims_nat shape -> (length aidx <= length shape)%nat -> eager_minus1_ok (map flat aidx) = true ->
  good_form (full_form shape aidx) = true ->
  eager_nest_c true shape aidx = np_nest shape aidx.
Proof.
  intros shape aidx Hd Hlen Hm Hg. destruct (np_nest shape aidx) as [n|] eqn:E.
  - apply eager_adv_good_complete; assumption.
  - destruct (eager_nest_c true shape aidx) as [n|] eqn:E'; [|reflexivity].
    rewrite (eager_adv_good_sound shape aidx n Hd Hlen Hg E') in E. discriminate.
Qed.

Theorem conv_adv_good_eq : forall shape aidx,
  dims_ok shape -> (length aidx <= length shape)%nat -> hazard_free shape (map flat aidx) = true ->
  conv_accepts (map flat aidx) = true -> conv_minus1_ok (map flat aidx) = true ->
  good_form (full_form shape aidx) = true ->
  conv_nest shape aidx = np_nest shape aidx.
Proof.
  intros shape aidx Hd Hlen Hh Ha Hm Hg. destruct (np_nest shape aidx) as [n|] eqn:E.
  - apply conv_adv_good_complete; assumption.
  - destruct (conv_nest shape aidx) as [n|] eqn:E'; [|reflexivity].
    rewrite (conv_adv_good_sound shape aidx n Hd Hlen Hh Hg E') in E. discriminate.
Qed.

(* an index out of range on a tensor-index axis: NumPy raises, and so does eager (whatever the form) *)
Theorem eager_out_of_range_is_error : forall shape aidx,
  dims_nat shape -> (length aidx <= length shape)%nat ->
  np_index shape (map flat aidx) = None -> eager_nest_c true shape aidx = None.
Proof.
  intros shape aidx Hd Hlen H. unfold eager_nest_c.
  destruct (run_eager_c true shape (map flat aidx)) as [v|] eqn:E; [|reflexivity].
  rewrite (eager_view_sound_all shape (map flat aidx) v Hd) in H; [discriminate|rewrite map_length; assumption|assumption].
Qed.

Example eager_rank2_index_instance :   (* eager X[:, I, -2] with I of shape (2,2) and negative entries: a good form, NumPy's tensor; one entry out of range: error on both sides *)
  let shape := [2; 3; 4] in
  let ok := [AB (CSlice BNone BNone BNone); ATN [2; 2] [0; -1; -3; 2]; AB (CInt (-2))] in
  let bad := [AB (CSlice BNone BNone BNone); ATN [2; 2] [0; -1; -4; 2]; AB (CInt (-2))] in
  good_form (full_form shape ok) = true /\ eager_minus1_ok (map flat ok) = true /\
  option_map fst (eager_nest_c true shape ok) = Some [2; 2; 2] /\ eager_nest_c true shape ok = np_nest shape ok /\
  np_nest shape bad = None /\ eager_nest_c true shape bad = None.
Proof. vm_compute. repeat split. Qed.

(* ================= 2. slice bounds that are values at run time ================= *)

(* the converter refuses a slice exactly when its step is a run-time value and a bound is omitted *)
Theorem conv_refuses_slice_iff : forall a b s,
  conv_bounds a b s = None <-> (exists st, s = BDyn st) /\ (a = BNone \/ b = BNone).
Proof.
  intros a b s. split.
  - intros H. unfold conv_bounds in H. destruct s as [|z|z].
    + cbn in H. discriminate.
    + destruct (0 <? dflt 1 (BConst z)); discriminate.
    + split; [exists z; reflexivity|]. destruct a as [|x|x]; [left; reflexivity| |]; destruct b as [|y|y];
        try (right; reflexivity); cbn in H; discriminate.
  - intros [[st ->] [-> | ->]]; cbn; [reflexivity|]. destruct (bval a); reflexivity.
Qed.

(* whether a bound is a literal or a run-time value makes no difference to what the emitted Slice selects *)
Theorem conv_slice_const_or_dynamic : forall d a b s a' b' s',
  bval a = bval a' -> bval b = bval b' -> bval s = bval s' ->
  conv_bounds a b s <> None -> conv_bounds a' b' s' <> None ->
  conv_slice d a b s = conv_slice d a' b' s'.
Proof.
  intros d a b s a' b' s' Ha Hb Hs H1 H2. unfold conv_slice.
  assert (E : conv_bounds a b s = conv_bounds a' b' s'); [|rewrite E; reflexivity].
  unfold conv_bounds, dflt in *.
  destruct s as [|z|z], s' as [|z'|z']; cbn [bval] in *; try discriminate; try (injection Hs as <-);
    rewrite <- ?Ha, <- ?Hb in *; try reflexivity;
    destruct (bval a), (bval b); try congruence; try reflexivity; destruct (0 <? z); reflexivity.
Qed.

(* all three components run-time values: Python's slice.indices for every value, both step signs, outside the corner *)
Theorem conv_dynamic_slice_eq_python : forall d x y st,
  0 <= d <= MAXI -> neg_start_hazard d (Some x) (Some y) (Some st) = false ->
  conv_slice d (BDyn x) (BDyn y) (BDyn st) = py_slice d (Some x) (Some y) (Some st).
Proof. intros d x y st Hd Hh. apply (conv_slice_eq_python d (BDyn x) (BDyn y) (BDyn st)); [assumption|discriminate|assumption]. Qed.

(* run-time start / stop beside a literal or omitted step (A[i:j], A[:n], A[n::-1]) *)
Theorem conv_dynamic_bounds_eq_python : forall d a b s,
  0 <= d <= MAXI -> (forall st, s <> BDyn st) ->
  neg_start_hazard d (bval a) (bval b) (bval s) = false ->
  conv_slice d a b s = py_slice d (bval a) (bval b) (bval s).
Proof.
  intros d a b s Hd Hs Hh. apply conv_slice_eq_python; try assumption.
  intros H. apply conv_refuses_slice_iff in H. destruct H as [[st ->] _]. exact (Hs st eq_refl).
Qed.

(* ---- attribute parameters: the graph reads them as run-time values, eager mode and NumPy as python ints ---- *)
Lemma bval_gbound : forall p, bval (gbound p) = bval (ebound p).
Proof. intros [b|z]; reflexivity. Qed.

Lemma sel_of_attr : forall d p, sel_of d (graph_comp p) = sel_of d (eager_comp p).
Proof. intros d [c|i|a b s]; cbn; try reflexivity. rewrite !bval_gbound. reflexivity. Qed.

Lemma np_index_attr : forall pidx shape, np_index shape (map graph_comp pidx) = np_index shape (map eager_comp pidx).
Proof.
  induction pidx as [|p pidx IH]; intros shape; [reflexivity|]. destruct shape as [|d shape]; [reflexivity|].
  cbn [map np_index]. rewrite sel_of_attr, IH. reflexivity.
Qed.

Lemma hazard_free_attr : forall pidx shape, hazard_free shape (map graph_comp pidx) = hazard_free shape (map eager_comp pidx).
Proof.
  induction pidx as [|p pidx IH]; intros shape; [reflexivity|]. destruct shape as [|d shape]; [reflexivity|].
  cbn [map hazard_free]. rewrite IH. f_equal. destruct p as [c|i|a b s]; cbn; try reflexivity. rewrite !bval_gbound. reflexivity.
Qed.

(* whatever the graph returns for an index expression with attribute parameters is the per-axis view NumPy selects for the
   python ints, and so is whatever eager mode returns *)
Theorem attr_param_graph_sound : forall shape pidx v,
  dims_ok shape -> (length pidx <= length shape)%nat -> hazard_free shape (map eager_comp pidx) = true ->
  run_conv true shape (map graph_comp pidx) = Some v -> np_index shape (map eager_comp pidx) = Some v.
Proof.
  intros shape pidx v Hd Hlen Hh H. rewrite <- np_index_attr. apply conv_view_sound_all; try assumption.
  - rewrite map_length. assumption.
  - rewrite hazard_free_attr. assumption.
Qed.

Theorem attr_param_eager_sound : forall shape pidx v,
  dims_nat shape -> (length pidx <= length shape)%nat ->
  run_eager_c true shape (map eager_comp pidx) = Some v -> np_index shape (map eager_comp pidx) = Some v.
Proof. intros shape pidx v Hd Hlen H. apply eager_view_sound_all; try assumption. rewrite map_length. assumption. Qed.

Example attr_param_instance :   (* X[1:, :n, m] with n = -1, m = 2 on shape (3,4,5): graph (Slice, then Gather with the run-time m) = eager (one Slice + squeeze) = NumPy *)
  let shape := [3; 4; 5] in
  let pidx := [PC (CSlice (BConst 1) BNone BNone); PSlice (PB BNone) (PAttr (-1)) (PB BNone); PAttrIdx 2] in
  hazard_free shape (map eager_comp pidx) = true /\
  run_conv true shape (map graph_comp pidx) = np_index shape (map eager_comp pidx) /\
  run_eager_c true shape (map eager_comp pidx) = np_index shape (map eager_comp pidx) /\
  option_map view_shape (np_index shape (map eager_comp pidx)) = Some [2; 3] /\
  conv_ops true (map graph_comp pidx) <> option_map (filter not_squeeze) (eager_ops_c true shape (map eager_comp pidx)).
Proof. vm_compute. repeat split; discriminate. Qed.

(* ================= 3. forms outside the documented ones ================= *)

Lemma existsb_map_XC (p : xcomp -> bool) : (forall c, p (XC c) = false) -> forall cidx, existsb p (map XC cidx) = false.
Proof. intros H. induction cidx as [|c t IH]; [reflexivity|]. cbn. rewrite H, IH. reflexivity. Qed.

Lemma map_read_XC : forall cidx, map conv_x_read (map XC cidx) = cidx /\ map eager_x_read (map XC cidx) = cidx.
Proof. intros cidx. rewrite !map_map. split; apply map_id. Qed.

(* the extended models are the basic ones on basic index expressions *)
Theorem conv_x_basic : forall bf cidx, conv_x_ops bf (map XC cidx) = conv_ops true cidx.
Proof.
  intros bf cidx. unfold conv_x_ops. rewrite !existsb_map_XC by reflexivity. cbn [orb andb].
  rewrite (proj1 (map_read_XC cidx)). reflexivity.
Qed.
Theorem eager_x_basic : forall ff shape cidx, eager_x_ops ff shape (map XC cidx) = eager_ops_c true shape cidx.
Proof.
  intros ff shape cidx. unfold eager_x_ops. rewrite !existsb_map_XC by reflexivity. cbn [orb andb].
  rewrite (proj2 (map_read_XC cidx)). reflexivity.
Qed.

Theorem x_models_conservative : forall bf ff shape cidx,
  conv_x_ops bf (map XC cidx) = conv_ops true cidx /\ eager_x_ops ff shape (map XC cidx) = eager_ops_c true shape cidx.
Proof. intros bf ff shape cidx. exact (conj (conv_x_basic bf cidx) (eager_x_basic ff shape cidx)). Qed.

(* with the two repairs every index expression that contains Ellipsis / None / a boolean / a float / a string is rejected *)
Theorem x_repaired_rejects : forall shape idx, existsb (fun x => negb (is_xc x)) idx = true ->
  run_conv_x true shape idx = None /\ run_eager_x true shape idx = None.
Proof.
  intros shape idx H. apply existsb_exists in H. destruct H as [x [Hin Hx]].
  assert (Hcase : existsb is_xalien idx = true \/ existsb is_xfloat idx = true \/ existsb is_xbool idx = true).
  { destruct x; try discriminate.
    - left. apply existsb_exists. exists XEllipsis. split; [assumption|reflexivity].
    - left. apply existsb_exists. exists XNewaxis. split; [assumption|reflexivity].
    - right. right. apply existsb_exists. exists (XBool b). split; [assumption|reflexivity].
    - right. left. apply existsb_exists. exists (XFloat t). split; [assumption|reflexivity].
    - left. apply existsb_exists. exists XStr. split; [assumption|reflexivity]. }
  unfold run_conv_x, run_eager_x, conv_x_ops, eager_x_ops.
  destruct (existsb is_xalien idx); [split; reflexivity|]. cbn [orb].
  destruct (existsb is_xfloat idx), (existsb is_xbool idx); cbn [orb andb]; try (split; reflexivity).
  destruct Hcase as [H|[H|H]]; discriminate.
Qed.

(* as read: a boolean literal on the Slice + Squeeze route -- the result has a smaller rank than NumPy's: always a different tensor *)
Definition x_plain (x : xcomp) : bool :=
  match x with XC (CT1 _) => false | XC _ => true | XBool _ => true | _ => false end.

Lemma view_shape_full : forall shape, length (view_shape (full shape)) = length shape.
Proof. induction shape as [|d t IH]; [reflexivity|]. cbn. f_equal. exact IH. Qed.

Lemma np_index_rank : forall cidx shape v, t1_free cidx = true -> np_index shape cidx = Some v ->
  (length (view_shape v) + length (filter is_escalar cidx) = length shape)%nat.
Proof.
  induction cidx as [|c cidx IH]; intros shape v Ht H.
  - cbn in H. injection H as <-. cbn. rewrite view_shape_full. lia.
  - destruct shape as [|d shape]; [discriminate|]. cbn [np_index] in H.
    destruct (sel_of d c) as [s|] eqn:Es; [|discriminate]. destruct (np_index shape cidx) as [v'|] eqn:E; [|discriminate].
    injection H as <-. unfold t1_free in Ht. cbn [forallb] in Ht. apply andb_true_iff in Ht. destruct Ht as [Hc Ht].
    specialize (IH shape v' Ht E).
    destruct c as [i|a b st|i|l]; cbn in Es; cbn [filter is_escalar].
    + destruct (py_int d i); [|discriminate]. injection Es as <-. cbn [view_shape length]. lia.
    + destruct (py_slice d (bval a) (bval b) (bval st)); [|discriminate]. injection Es as <-. cbn [view_shape length]. lia.
    + destruct (py_int d i); [|discriminate]. injection Es as <-. cbn [view_shape length]. lia.
    + discriminate.
Qed.

Lemma x_counts : forall idx, forallb x_plain idx = true ->
  (length (filter is_escalar (map conv_x_read idx)) + length (filter is_xslice idx) = length idx)%nat /\
  (length (filter is_xc idx) + length (filter is_xbool idx) = length idx)%nat /\
  t1_free (map conv_x_read idx) = true.
Proof.
  induction idx as [|x idx IH]; intros H; [repeat split|].
  cbn [forallb] in H. apply andb_true_iff in H. destruct H as [Hx H]. destruct (IH H) as [I1 [I2 I3]].
  unfold t1_free in *. destruct x as [c| | |b|t|]; try discriminate.
  - destruct c as [i|a b st|i|l]; try discriminate; cbn [map conv_x_read filter is_escalar is_xslice is_xc is_xbool length forallb is_t1 negb andb];
      repeat split; try lia; assumption.
  - cbn [map conv_x_read filter is_escalar is_xslice is_xc is_xbool length forallb is_t1 negb andb]. repeat split; try lia; assumption.
Qed.

Lemma adv_rank_bool : forall idx, existsb is_xbool idx = true -> (1 <= fold_right Nat.max O (flat_map x_adv_rank idx))%nat.
Proof.
  induction idx as [|x idx IH]; intros H; [discriminate|]. cbn [existsb] in H. cbn [flat_map]. rewrite fold_right_app.
  destruct x as [c| | |b|t|]; cbn [is_xbool orb] in H; try (cbn [x_adv_rank fold_right]; apply IH; assumption).
  - specialize (IH H). destruct c as [i|a b0 st|i|l]; cbn [x_adv_rank fold_right]; lia.
  - cbn [x_adv_rank fold_right]. lia.
Qed.

Lemma x_conv_slice_path_eq : forall idx, x_conv_slice_path idx = conv_slice_path idx.
Proof. reflexivity. Qed.

Theorem conv_x_bool_rank_differs : forall shape idx v,
  dims_ok shape -> (length idx <= length shape)%nat -> forallb x_plain idx = true -> existsb is_xbool idx = true ->
  hazard_free shape (map conv_x_read idx) = true ->
  run_conv_x false shape idx = Some v ->
  (length (view_shape v) < np_x_rank (length shape) idx)%nat.
Proof.
  intros shape idx v Hd Hlen Hp Hb Hh H. unfold run_conv_x, conv_x_ops in H.
  destruct (existsb is_xalien idx || existsb is_xfloat idx); [discriminate|]. rewrite Hb in H. cbn [andb orb] in H.
  destruct (negb (x_conv_slice_path (map conv_x_read idx)) || negb (false_cached idx)); [discriminate|].
  assert (Hr : run_conv true shape (map conv_x_read idx) = Some v) by exact H.
  apply conv_view_sound_all in Hr; try assumption; [|rewrite map_length; assumption].
  destruct (x_counts idx Hp) as [C1 [C2 C3]]. pose proof (np_index_rank _ _ _ C3 Hr) as R. pose proof (adv_rank_bool idx Hb) as A.
  assert (B : (1 <= length (filter is_xbool idx))%nat).
  { apply existsb_exists in Hb. destruct Hb as [x [Hin Hx]]. pose proof (proj2 (filter_In is_xbool x idx) (conj Hin Hx)) as Hf.
    destruct (filter is_xbool idx); [contradiction|cbn; lia]. }
  unfold np_x_rank. lia.
Qed.

Example conv_x_bool_instance :     (* X[1, True] on shape (2,3): as read X[1, 1] (a scalar), NumPy (1,3); repaired: refused.  X[True] alone: an error *)
  let idx := [XC (CInt 1); XBool true] in
  option_map view_shape (run_conv_x false [2; 3] idx) = Some [] /\ np_x_rank 2 idx = 2%nat /\
  run_conv_x true [2; 3] idx = None /\ run_conv_x false [2; 3] [XBool true] = None /\ run_eager_x false [2; 3] idx = None.
Proof. vm_compute. repeat split. Qed.

(* as read, eager: X[1.0, 0] is X[1, 0] although NumPy raises IndexError; repaired: TypeError *)
Example eager_x_float_instance :
  let idx := [XFloat 1; XC (CInt 0)] in
  option_map (fun v => offsets v [2; 3]) (run_eager_x false [2; 3] idx) = Some [3] /\ run_eager_x true [2; 3] idx = None /\
  run_eager_x false [2; 3] [XFloat 1] = None /\ run_conv_x false [2; 3] idx = None.
Proof. vm_compute. repeat split. Qed.

Definition unsupported_rejected (bf ff : bool) : Prop := forall shape idx,
  existsb (fun x => negb (is_xc x)) idx = true -> run_conv_x bf shape idx = None /\ run_eager_x ff shape idx = None.

Theorem unsupported_rejected_asread_refuted : ~ unsupported_rejected false true /\ ~ unsupported_rejected true false.
Proof.
  split; intros H.
  - destruct (H [2; 3] [XC (CInt 1); XBool true] eq_refl) as [H1 _]. vm_compute in H1. discriminate.
  - destruct (H [2; 3] [XFloat 1; XC (CInt 0)] eq_refl) as [_ H2]. vm_compute in H2. discriminate.
Qed.
