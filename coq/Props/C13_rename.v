(* C13 (session 6): the option `rename`.  Statements only.

   The soundness theorems (C13_export_straightline_sound_partial, C13_export_nested_ops_sound_partial,
   C13_export_skip_sound_partial) quantify over the renamer: rename=True is the instance rename := the short names.
   What they ask of it is injectivity on the names of the graph (conjunct `nodupb (map t NN)` of nested_okb).  For the
   exporter's OWN renamer -- its base renamer (the clean-up, or the short-name mapper) wrapped in
   _make_unique_name_mapper, Export/Unique.v uniq_fn, tied to the real function by correspondence -- that conjunct
   holds for every base and every graph whose names the wrapper has been handed and that are not remapped by a counted
   loop (C13_renamer_injectivity_discharged): renaming with rename=True or False can never merge two values.
   The other naming conjuncts (no name printed as `None`, parameters named as in the body, initializer names stable under
   a second translation) stay hypotheses; they are evaluated per compared program by the harness.
   Before the wrapper (tree before a4321d9) the statement is false: Props/C13_emit.v C13_export_collision_refuted. *)
From Coq Require Import List String Bool.
Import ListNotations.
Require Import OV.Export.Cleanup OV.Export.Unique OV.Script.Syntax OV.Export.Emit OV.Export.EmitCF OV.Export.RenameProofs.
Local Open Scope string_scope.

Theorem C13_unique_renamer_injective : forall base seq m, uniq_map base seq = Some m ->
  forall a b, In a seq -> In b seq -> uniq_fn base seq a = uniq_fn base seq b -> a = b.
Proof. exact uniq_fn_injective_on_seq. Qed.
Print Assumptions C13_unique_renamer_injective.

Theorem C13_renamer_injectivity_discharged : forall base seq m rm NN,
  uniq_map base seq = Some m -> nodupb NN = true -> (forall x, In x NN -> In x seq /\ ~ In x (map fst rm)) ->
  nodupb (map (tr (uniq_fn base seq) rm) NN) = true.
Proof. exact renamer_injectivity_discharged. Qed.
Print Assumptions C13_renamer_injectivity_discharged.
