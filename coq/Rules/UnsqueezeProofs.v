From Coq Require Import ZArith List Arith Bool Lia.
Require Import OV.Rules.Unsqueeze.
Import ListNotations.

Definition insert_at (k : nat) (sh : list Z) : list Z := firstn k sh ++ 1%Z :: skipn k sh.

Lemma existsb_eqb_false : forall i axes, (forall a, In a axes -> a <> i) -> existsb (Nat.eqb i) axes = false.
Proof.
  intros i axes H. destruct (existsb (Nat.eqb i) axes) eqn:E; [|reflexivity].
  apply existsb_exists in E as [a [Ha E]]. apply Nat.eqb_eq in E. subst. exfalso. eapply H; eauto.
Qed.

(* once every axis is behind the current position the remaining dims are copied *)
Lemma build_copy : forall sh n i axes, (forall a, In a axes -> a < i) -> length sh <= n -> build n i axes sh = sh.
Proof.
  induction sh as [|d sh IH]; intros n i axes H Hn.
  - destruct n; [reflexivity|]. cbn. rewrite existsb_eqb_false; [reflexivity|]. intros a Ha. specialize (H a Ha). lia.
  - destruct n; [cbn in Hn; lia|]. cbn. rewrite existsb_eqb_false.
    + f_equal. apply IH; [|cbn in Hn; lia]. intros a Ha. specialize (H a Ha). lia.
    + intros a Ha. specialize (H a Ha). lia.
Qed.

(* one axis: Unsqueeze(x, [a]) inserts a 1 at position a *)
Lemma build_one : forall a sh i n, a <= length sh -> S (length sh) <= n ->
  build n i [i + a] sh = insert_at a sh.
Proof.
  induction a as [|a IH]; intros sh i n Ha Hn.
  - destruct n; [lia|]. cbn [build existsb]. rewrite Nat.add_0_r, Nat.eqb_refl. cbn [orb].
    unfold insert_at. cbn [firstn skipn app]. f_equal. apply build_copy; [|lia].
    intros b [<-|[]]. lia.
  - destruct sh as [|d sh]; [cbn in Ha; lia|]. destruct n; [lia|].
    cbn [build existsb]. destruct (Nat.eqb i (i + S a)) eqn:E; [apply Nat.eqb_eq in E; lia|]. cbn [orb].
    unfold insert_at. cbn [firstn skipn app]. f_equal.
    replace (i + S a) with (S i + a) by lia. apply IH; cbn in *; lia.
Qed.

Lemma unsq_one : forall a sh, a <= length sh -> unsq [a] sh = insert_at a sh.
Proof. intros a sh H. unfold unsq. cbn [length]. apply (build_one a sh 0); lia. Qed.

(* two axes lo < hi *)
Lemma build_two : forall lo hi sh i n, lo < hi -> hi <= S (length sh) -> S (S (length sh)) <= n ->
  build n i [i + lo; i + hi] sh = insert_at hi (insert_at lo sh).
Proof.
  induction lo as [|lo IH]; intros hi sh i n Hlt Hhi Hn.
  - destruct n; [lia|]. cbn [build existsb]. rewrite Nat.add_0_r, Nat.eqb_refl. cbn [orb].
    destruct hi as [|hi]; [lia|]. unfold insert_at at 2. cbn [firstn skipn app].
    unfold insert_at at 1. cbn [firstn skipn app]. f_equal.
    (* the axis i is now behind: only i + S hi matters *)
    assert (Hdrop : forall m j s, i < j -> build m j [i; i + S hi] s = build m j [i + S hi] s).
    { induction m as [|m IHm]; intros j s Hj; [reflexivity|]. cbn [build existsb].
      destruct (Nat.eqb j i) eqn:E; [apply Nat.eqb_eq in E; lia|]. cbn [orb].
      destruct (Nat.eqb j (i + S hi) || false); [f_equal; apply IHm; lia|].
      destruct s; [reflexivity|]. f_equal. apply IHm. lia. }
    rewrite Hdrop by lia. replace (i + S hi) with (S i + hi) by lia.
    change (firstn hi sh ++ 1%Z :: skipn hi sh) with (insert_at hi sh). apply build_one; lia.
  - destruct hi as [|hi]; [lia|]. destruct sh as [|d sh]; [cbn in Hhi; lia|]. destruct n; [lia|].
    cbn [build existsb].
    destruct (Nat.eqb i (i + S lo)) eqn:E1; [apply Nat.eqb_eq in E1; lia|].
    destruct (Nat.eqb i (i + S hi)) eqn:E2; [apply Nat.eqb_eq in E2; lia|]. cbn [orb].
    unfold insert_at at 2. cbn [firstn skipn app]. unfold insert_at at 1. cbn [firstn skipn app]. f_equal.
    replace (i + S lo) with (S i + lo) by lia. replace (i + S hi) with (S i + hi) by lia.
    change (firstn lo sh ++ 1%Z :: skipn lo sh) with (insert_at lo sh).
    change (firstn hi (insert_at lo sh) ++ 1%Z :: skipn hi (insert_at lo sh)) with (insert_at hi (insert_at lo sh)).
    apply IH; cbn in *; lia.
Qed.

Lemma unsq_two : forall lo hi sh, lo < hi -> hi <= S (length sh) -> unsq [lo; hi] sh = insert_at hi (insert_at lo sh).
Proof. intros lo hi sh H1 H2. unfold unsq. cbn [length]. apply (build_two lo hi sh 0); lia. Qed.

Lemma insert_at_length : forall k sh, k <= length sh -> length (insert_at k sh) = S (length sh).
Proof.
  intros k sh H. unfold insert_at. rewrite app_length. cbn. rewrite firstn_length, skipn_length. lia.
Qed.

(* inserting at v2 <= v1 after inserting at v1 = inserting at v1 + 1 after inserting at v2 *)
Lemma insert_at_comm : forall v2 v1 sh, v2 <= v1 -> v1 <= length sh ->
  insert_at v2 (insert_at v1 sh) = insert_at (S v1) (insert_at v2 sh).
Proof.
  induction v2 as [|v2 IH]; intros v1 sh H1 H2.
  - unfold insert_at at 1 3. cbn [firstn skipn app]. unfold insert_at at 2. cbn [firstn skipn app]. reflexivity.
  - destruct v1 as [|v1]; [lia|]. destruct sh as [|d sh]; [cbn in H2; lia|].
    unfold insert_at at 2 4. cbn [firstn skipn app].
    unfold insert_at at 1 2. cbn [firstn skipn app]. f_equal.
    change (firstn v1 sh ++ 1%Z :: skipn v1 sh) with (insert_at v1 sh).
    change (firstn v2 sh ++ 1%Z :: skipn v2 sh) with (insert_at v2 sh).
    apply IH; cbn in *; lia.
Qed.

(* UnsqueezeUnsqueeze: for all shapes and all valid non-negative axes the merged axes list gives the same tensor *)
Theorem unsqueeze_unsqueeze_sound : forall t v1 v2,
  host_ok (fst t) v1 v2 -> unsqueeze [v2] (unsqueeze [v1] t) = unsqueeze (merged v1 v2) t.
Proof.
  intros [sh d] v1 v2 [H1 H2]. cbn [fst] in H1, H2. unfold unsqueeze. cbn [fst snd]. f_equal.
  rewrite (unsq_one v1 sh H1). rewrite unsq_one by (rewrite insert_at_length; lia).
  unfold merged. destruct (v1 <? v2) eqn:E.
  - apply Nat.ltb_lt in E. symmetry. apply unsq_two; lia.
  - apply Nat.ltb_ge in E. rewrite insert_at_comm by lia. symmetry. apply unsq_two; lia.
Qed.

Example unsq_example : unsq [0; 2] [2; 3]%Z = [1; 2; 1; 3]%Z /\ merged 1 0 = [0; 2] /\ unsq [0] (unsq [1] [2; 3]%Z) = [1; 2; 1; 3]%Z.
Proof. repeat split; reflexivity. Qed.
