"""C11 helper: generate script functions `return X[idx]`, run them as a graph / eagerly / in NumPy.

Index expressions are tuples of components (plain python data, JSON-able):

    ("int", i)                         constant python int
    ("slice", a, b, s)                 a, b, s are bounds:  None | int (literal) | ("t", int) (tensor-valued, 0-d)
    ("t0", i)                          tensor-valued index of rank 0 with runtime value i
    ("t1", [i, ...])                   tensor-valued index of rank 1
    ("tn", shape, [i, ...])            tensor-valued index of any rank: shape and row-major data

The *form* of an expression (what the converter sees) is the expression with the runtime values of
tensor-valued parts removed; one script function is generated per form and can be run on any shape of X
and any values of the tensor-valued parts.
"""
from __future__ import annotations

import importlib.util
import os
import sys

import numpy as np

MAXI = (1 << 63) - 1
MINI = -(1 << 63)


# ----------------------------------------------------------------------------- expression -> source

def is_dyn(b):
    return isinstance(b, (tuple, list))


def expr_source(idx):
    """-> (source text of the index, [runtime value (np array) of each tensor-valued part, in order a0, a1, ...])"""
    parts, vals = [], []

    def tv(v, rank1=False):
        vals.append(np.array(v, dtype=np.int64))
        return f"a{len(vals) - 1}"

    def bound(b):
        if b is None:
            return ""
        if is_dyn(b):
            return tv(int(b[1]))
        return str(int(b))

    for c in idx:
        k = c[0]
        if k == "int":
            parts.append(str(int(c[1])))
        elif k == "slice":
            a, b, s = c[1], c[2], c[3]
            txt = bound(a) + ":" + bound(b)
            if s is not None:
                txt += ":" + bound(s)
            parts.append(txt)
        elif k == "t0":
            parts.append(tv(int(c[1])))
        elif k == "t1":
            parts.append(tv([int(x) for x in c[1]]))
        elif k == "tn":                                   # ("tn", shape, row-major data): tensor index of any rank
            vals.append(np.array([int(x) for x in c[2]], dtype=np.int64).reshape(tuple(c[1])))
            parts.append(f"a{len(vals) - 1}")
        else:
            raise ValueError(c)
    return ", ".join(parts), vals


def form_of(idx):
    """Structure the converter sees: tensor-valued parts without their values."""
    out = []
    for c in idx:
        k = c[0]
        if k == "int":
            out.append(("int", int(c[1])))
        elif k == "slice":
            out.append(("slice",) + tuple(("t",) if is_dyn(b) else b for b in c[1:4]))
        else:
            out.append(("t",))        # the converter sees a tensor-valued index; neither its rank nor its value
    return tuple(out)


def module_text(forms_src):
    """forms_src: list of (index source, number of tensor-valued parts)."""
    lines = ["from onnxscript import script",
             "from onnxscript.onnx_opset import opset18 as op",
             "from onnxscript.onnx_types import INT64", "", ""]
    for n, (src, nt) in enumerate(forms_src):
        args = "".join(f", a{j}: INT64[...]" for j in range(nt))
        lines += [f"def f{n}(X: INT64[...]{args}) -> INT64[...]:",
                  f"    return X[{src}]", "", ""]
    return "\n".join(lines)


_mod_counter = [0]


def load_forms(forms_src, tmpdir):
    """Write one module with all the functions, import it, convert each separately (so that one rejected
    form does not hide the others). -> list of (OnnxFunction | None, error text | None)"""
    import onnxscript
    from onnxscript.onnx_opset import opset18 as op

    _mod_counter[0] += 1
    name = f"c11_gen_{os.getpid()}_{_mod_counter[0]}"
    path = os.path.join(tmpdir, name + ".py")
    with open(path, "w") as f:
        f.write(module_text(forms_src))
    spec = importlib.util.spec_from_file_location(name, path)
    mod = importlib.util.module_from_spec(spec)
    sys.modules[name] = mod
    spec.loader.exec_module(mod)
    res = []
    for n in range(len(forms_src)):
        pyf = getattr(mod, f"f{n}")
        try:
            res.append((onnxscript.script(default_opset=op)(pyf), None))
        except Exception as e:  # rejected at conversion
            res.append((None, f"{type(e).__name__}: {str(e)[:200]}"))
    return res


# ----------------------------------------------------------------------------- graph side

class Graph:
    """A converted form: its ModelProto, an ORT session (optimisations disabled) and the op skeleton."""

    def __init__(self, fn, inline=False):
        """inline: the function calls other script functions (attribute parameters); the local functions are inlined so that
        the skeleton (which reads Constant values) sees the attribute values the caller passed."""
        import onnxruntime as ort
        self.err = None
        self.sess = None
        self.proto = None
        try:
            self.proto = fn.to_model_proto()
            if inline:
                import onnx.inliner
                self.called = [(f.name, [n.op_type for n in f.node]) for f in self.proto.functions]
                self.proto = onnx.inliner.inline_local_functions(self.proto)
        except Exception as e:
            self.err = f"to_model_proto {type(e).__name__}: {str(e)[:200]}"
            self.proto = None
            return
        so = ort.SessionOptions()
        so.graph_optimization_level = ort.GraphOptimizationLevel.ORT_DISABLE_ALL
        so.log_severity_level = 4
        so.intra_op_num_threads = 1
        so.inter_op_num_threads = 1
        try:
            self.sess = ort.InferenceSession(self.proto.SerializeToString(), so, providers=["CPUExecutionProvider"])
        except Exception as e:
            self.err = f"session {type(e).__name__}: {str(e)[:200]}"
        self.in_names = [i.name for i in self.proto.graph.input]

    def run(self, X, vals):
        if self.sess is None:
            return ("err", self.err)
        try:
            r = self.sess.run(None, dict(zip(self.in_names, [X] + list(vals))))[0]
        except Exception as e:
            return ("err", f"run {type(e).__name__}: {str(e)[:160]}")
        return ("ok", r)

    def run_reference(self, X, vals):
        import onnx.reference
        try:
            r = onnx.reference.ReferenceEvaluator(self.proto).run(None, dict(zip(self.in_names, [X] + list(vals))))[0]
        except Exception as e:
            return ("err", f"ref {type(e).__name__}: {str(e)[:160]}")
        return ("ok", np.asarray(r))

    def skeleton(self, vals):
        """The indexing ops on the data path with the runtime values of their index operands.

        -> list of ("Identity",) | ("Slice", [(start, end, axis, step), ...]) | ("Squeeze", [axes]) |
                   ("Gather", axis, index value as nested list)
        Operand values are computed by a tiny interpreter for Constant / Concat(axis=0) / Reshape / graph input;
        any other producer, or a data path that is not a simple chain from X to the output, raises ValueError
        (fail-closed)."""
        from onnx import numpy_helper
        g = self.proto.graph
        env = {n: v for n, v in zip(self.in_names[1:], vals)}
        for init in g.initializer:
            env[init.name] = numpy_helper.to_array(init)
        producers = {o: n for n in g.node for o in n.output}

        def value(name):
            if name in env:
                return env[name]
            n = producers.get(name)
            if n is None:
                raise ValueError(f"operand {name} has no producer")
            if n.op_type == "Constant":
                a = [a for a in n.attribute if a.name == "value"]
                if len(a) == 1:
                    v = numpy_helper.to_array(a[0].t)
                else:
                    a = n.attribute[0]
                    if a.name == "value_int":
                        v = np.array(a.i, dtype=np.int64)
                    elif a.name == "value_ints":
                        v = np.array(list(a.ints), dtype=np.int64)
                    else:
                        raise ValueError(f"Constant attribute {a.name}")
            elif n.op_type == "Concat":
                ax = [a.i for a in n.attribute if a.name == "axis"]
                if ax != [0]:
                    raise ValueError("Concat axis")
                v = np.concatenate([np.asarray(value(i)) for i in n.input], axis=0)
            elif n.op_type == "Reshape":
                v = np.reshape(np.asarray(value(n.input[0])), tuple(int(x) for x in value(n.input[1])))
            elif n.op_type == "Identity":
                v = value(n.input[0])
            elif n.op_type in ("Add", "Sub", "Mul") and len(n.input) == 2:      # index arithmetic: A[i+1:i+2]
                a, b = (np.asarray(value(i)) for i in n.input)
                if a.dtype != np.int64 or b.dtype != np.int64:
                    raise ValueError(f"operand {name}: {n.op_type} on {a.dtype}/{b.dtype}")
                v = {"Add": np.add, "Sub": np.subtract, "Mul": np.multiply}[n.op_type](a, b)
            elif n.op_type == "Neg":
                v = -np.asarray(value(n.input[0]))
            elif n.op_type == "CastLike" and len(n.input) == 2:                 # the literal of i+1, cast to the type of i
                v = np.asarray(value(n.input[0])).astype(np.asarray(value(n.input[1])).dtype)
            else:
                raise ValueError(f"operand {name} produced by {n.op_type}")
            env[name] = v
            return v

        try:
            return self._skeleton(value)
        except ValueError:
            raise
        except Exception as e:      # malformed node (missing input/attribute, ...): still a disagreement, not a crash
            raise ValueError(f"{type(e).__name__}: {e}") from e

    def _skeleton(self, value):
        g = self.proto.graph
        chain = []
        cur = self.in_names[0]
        # walk the chain from X
        consumed = set()
        while True:
            nxt = [n for n in g.node if len(n.input) > 0 and n.input[0] == cur and id(n) not in consumed
                   and n.op_type in ("Slice", "Squeeze", "Gather", "Identity")]
            if not nxt:
                break
            if len(nxt) != 1:
                raise ValueError(f"data path forks at {cur}")
            n = nxt[0]
            consumed.add(id(n))
            if n.op_type == "Identity":
                chain.append(("Identity",))
            elif n.op_type == "Slice":
                if len(n.input) != 5:
                    raise ValueError("Slice without explicit axes/steps")
                cols = [[int(x) for x in np.asarray(value(i)).reshape(-1)] for i in n.input[1:5]]
                for i in n.input[1:5]:
                    a = np.asarray(value(i))
                    if a.ndim != 1 or a.dtype != np.int64:
                        raise ValueError(f"Slice operand {i}: shape {a.shape} dtype {a.dtype}")
                if len({len(c) for c in cols}) != 1:
                    raise ValueError("Slice operands of different lengths")
                chain.append(("Slice", [tuple(c[j] for c in cols) for j in range(len(cols[0]))]))
            elif n.op_type == "Squeeze":
                if len(n.input) != 2:
                    raise ValueError("Squeeze without axes")
                chain.append(("Squeeze", [int(x) for x in np.asarray(value(n.input[1])).reshape(-1)]))
            elif n.op_type == "Gather":
                ax = [a.i for a in n.attribute if a.name == "axis"]
                ixv = np.asarray(value(n.input[1]))
                chain.append(("Gather", ax[0] if ax else 0, ixv.tolist(), tuple(ixv.shape)))
            cur = n.output[0]
        if cur != g.output[0].name:
            raise ValueError(f"data path ends at {cur}, graph output is {g.output[0].name}")
        n_data = sum(1 for n in g.node if n.op_type in ("Slice", "Squeeze", "Gather", "Identity"))
        if n_data != len(chain):
            raise ValueError(f"{n_data} indexing nodes in the graph, {len(chain)} on the data path")
        other = sorted({n.op_type for n in g.node} - {"Slice", "Squeeze", "Gather", "Identity", "Constant", "Concat", "Reshape",
                                                      "Add", "Sub", "Mul", "Neg", "CastLike"})
        if other:
            raise ValueError(f"unexpected ops {other}")
        return chain


# ----------------------------------------------------------------------------- eager side

def make_recorder():
    """An evaluator that delegates to the default one and records the indexing ops it is asked to run."""
    from onnxscript._internal import evaluator as ev

    class Recorder(ev.ORTEvaluator):
        def __init__(self):
            super().__init__()
            self.log = []

        def _eval(self, schema, inputs, attributes, closure):
            self.log.append((schema.name, [None if i is None else np.asarray(getattr(i, "value", i)) for i in inputs],
                             dict(attributes)))
            return _call_ort_1thread(ev, schema, inputs, attributes, closure)

    return Recorder()


def _call_ort_1thread(ev, schema, args, kwargs, implicit_args):
    """evaluator._call_ort with a single-threaded session (creating a thread pool per op call dominates the cost of
    eager evaluation); same model construction (_prepare_model_and_inputs_for_eager), same result conversion."""
    import onnxruntime as ort
    model, session_run_input, _inputs = ev._prepare_model_and_inputs_for_eager(schema, args, kwargs, implicit_args)
    so = ort.SessionOptions()
    so.intra_op_num_threads = 1
    so.inter_op_num_threads = 1
    so.log_severity_level = 4
    try:
        session = ort.InferenceSession(model.SerializeToString(), so, providers=("CPUExecutionProvider",))
        result = session.run(None, session_run_input)
    except Exception as e:
        raise ev.EagerModeError(f"Unable to execute model operator {schema.name!r} due to {e!r}") from e
    return [ev._numpy_to_onnxscript_value(x) for x in result]


def eager_run(fn, X, vals):
    """-> (("ok", array) | ("err", text), recorded skeleton (Slice/Gather/Identity only; np.squeeze is not an op))"""
    from onnxscript._internal import evaluator as ev
    rec = make_recorder()
    try:
        with ev.default_as(rec):
            r = fn(X, *vals)
        out = ("ok", np.asarray(r))
    except Exception as e:
        out = ("err", f"{type(e).__name__}: {str(e)[:160]}")
    return out, _skeleton_of_log(rec.log)


def _skeleton_of_log(log):
    skel = []
    for name, ins, attrs in log:
        if name == "Slice":
            if len(ins) != 5 or any(i is None for i in ins[1:5]):
                skel.append(("Slice-without-explicit-axes-or-steps",))
                continue
            cols = [[int(x) for x in np.asarray(i).reshape(-1)] for i in ins[1:5]]
            if len({len(c) for c in cols}) != 1:
                skel.append(("Slice-operands-of-different-lengths",))
                continue
            skel.append(("Slice", [tuple(c[j] for c in cols) for j in range(len(cols[0]))]))
        elif name == "Gather":
            if len(ins) != 2 or ins[1] is None:
                skel.append(("Gather-without-indices",))
                continue
            skel.append(("Gather", int(attrs.get("axis", 0)), np.asarray(ins[1]).tolist(), tuple(np.asarray(ins[1]).shape)))
        elif name == "Identity":
            skel.append(("Identity",))
        elif name in ("Add", "Greater", "Less"):
            continue                      # s + 1 of a scalar index; step > 0 of a tensor-valued step; start < -dim (tensor-valued start)
        else:
            skel.append((name,))
    return skel


def eager_getitem(X, idx):
    """Tensor.__getitem__ called directly (used when the converter refused the form, so that no OnnxFunction exists)."""
    from onnxscript import tensor as ost
    from onnxscript._internal import evaluator as ev

    def T(v):
        return ost.Tensor(np.array(v, dtype=np.int64))

    def bound(b):
        return None if b is None else (T(int(b[1])) if is_dyn(b) else int(b))

    key = []
    for c in idx:
        if c[0] == "int":
            key.append(int(c[1]))
        elif c[0] == "slice":
            key.append(slice(bound(c[1]), bound(c[2]), bound(c[3])))
        elif c[0] == "t0":
            key.append(T(int(c[1])))
        elif c[0] == "tn":
            key.append(ost.Tensor(np.array([int(x) for x in c[2]], dtype=np.int64).reshape(tuple(c[1]))))
        else:
            key.append(T([int(x) for x in c[1]]))
    key = tuple(key) if len(key) != 1 else key[0]
    rec = make_recorder()
    try:
        with ev.default_as(rec):
            r = ost.Tensor(X)[key]
        out = ("ok", np.asarray(r.value))
    except Exception as e:
        out = ("err", f"{type(e).__name__}: {str(e)[:160]}")
    return out, _skeleton_of_log(rec.log)


# ----------------------------------------------------------------------------- NumPy side

def numpy_run(src, X, vals):
    env = {"X": X}
    for j, v in enumerate(vals):
        env[f"a{j}"] = v
    try:
        r = eval(f"X[{src}]", {"__builtins__": {}}, env)
    except Exception as e:
        return ("err", f"{type(e).__name__}: {str(e)[:120]}")
    return ("ok", np.asarray(r))
