(* C03 -- optimize() never changes what a model computes.  Statements only; proofs in Opt/*.v.

   Full statement (kept visible, NOT proved as a whole):
     for every valid model M, every input x and every option tuple, run(optimize(M, opts))(x) ~ run(M)(x).
   optimize_ir is the stage list  [Inline]; ([FoldConstants; Rewrite(default rules); DCE; unused functions; unused
   opsets])^n; DCE; LiftConstantsToInitializers; LiftSubgraphInitializers; DeduplicateInitializers; CSE; OutputFix;
   NameFix.  What is proved:
     * C03_optimize_preserves_partial: the pipeline preserves the outputs as soon as each stage does (any n, any prefix);
     * C03_fold_pass_sound_partial: the FoldConstants stage of the repo (Opt/Fold.v: the decision procedure of
       process_node in source order, input redirection, Constant values, reference-evaluator folding behind the
       graph-input / constness / black-list / size gates, If-branch inlining with renaming, revisiting of replacement
       nodes) preserves the outputs, for arbitrary kernel semantics, under the oracle hypotheses of `oracles`, for every
       table `pe` of op-specific partial evaluators whose replacements are locally sound (`pe_ok`; Cast->Identity,
       Reshape->Identity, Dropout, Shape/Size/Gather->Constant, Concat, sequence ops: NOT proved here, they need
       truthful type/shape annotations and kernel identities; covered differentially) and every visitor of nested
       graphs satisfying `subs_spec`;
     * C03_fold_graph_sound_partial: the same for visit_graph of the model as a whole - the recursion through nested
       graphs (visit_subs_d satisfies subs_spec) and the replacement of graph outputs with its renaming
       (C03_replace_outputs_sound) are proved, so that pe_ok is the only remaining hypothesis about the pass;
     * C03_fold_node_sound, C03_identity_subst_sound, C03_if_inline_sound, C03_dce_sound: the four generic
       transformations, each for all graphs / environments;
     * C03_dce_pass_sound: the model of onnx_ir's RemoveUnusedNodesPass (Opt/Dce.v: last-to-first walk, uses from nested
       graphs and graph outputs count, nested graphs of kept nodes swept, unused main-graph initializers dropped) preserves
       the outputs, for all graphs, environments and kernels, with no side condition (NOT covered: trimming of trailing
       omitted inputs / unused optional outputs, which the model does not describe);
     * C03_cse_merge_sound_partial / C03_cse_checked_sound_partial: one merge of onnx_ir's CommonSubexpressionEliminationPass
       (Opt/Cse.v) preserves the outputs when the twins have the same domain, op, inputs and ATTRIBUTE LIST, are not
       control flow, and the SSA side conditions of merge_guard hold (checked by the model; every merge of the checked
       iteration satisfies them).  NOT covered: a removed value that is a graph output (rename / Identity insertion), uses
       inside nested graphs, attribute lists that are equal as dictionaries only.  The pass itself keys on Python
       equality: C03_cse_python_key_refuted exhibits 0.0 == -0.0 (equal keys, different results for a kernel that reads
       the sign) - the reason why optimize_ir must lift every Constant before CSE (C03_source_pipeline_shape);
     * C03_optimize_ir_sound_partial: Sequential / PassManager(steps, early_stop) over sound stages is sound for every
       num_iterations, stop_if_no_change, inline; instantiated with the DCE and checked-CSE models, the other stages
       (Inline, Fold [theorem above], Rewrite [C05/C07], unused functions / opsets, lift constants, lift subgraph
       initializers, dedup initializers, OutputFix, NameFix) are Section hypotheses, covered per pass by the
       before/after oracle of harness/c03_passes.py;
     * C03_source_pipeline_shape: the pass list read from the current source has the shape this argument needs. *)
From Coq Require Import List String ZArith Bool.
Require OV.Shape.Extra OV.Shape.ExtraProofs.       (* C09's Concat shape lemmas, read-only; not imported: names clash with Opt/Fold.v *)
Require Import OV.Graph.Syntax OV.Graph.Sem OV.Graph.Names OV.Graph.SemProofs OV.Gen.FoldTables.
Require Import OV.Opt.Fold OV.Opt.SemLemmas OV.Opt.FoldProofs OV.Opt.FoldNested OV.Opt.FoldTheorems.
Require Import OV.Opt.Dce OV.Opt.DceProofs OV.Opt.Cse OV.Opt.CseProofs OV.Opt.Use OV.Opt.UseProofs OV.Opt.Inits OV.Opt.InitsProofs OV.Opt.CseMoreProofs.
Require Import OV.Opt.Pipeline OV.Opt.PipelineProofs OV.Gen.OptPipeline OV.Opt.PipelineShape OV.Gen.OptWiring OV.Opt.WiringShape.
Require OV.Opt.Stages OV.Opt.StagesProofs OV.Opt.RuleBridge OV.Opt.OptimizeIrProofs OV.Rewrite.Apply OV.Rewrite.NameFix.
Import ListNotations.
Local Open Scope list_scope.
Local Open Scope string_scope.

(* the order of the tests of process_node found in the source is the one the model implements *)
Theorem C03_process_node_order : process_node_order = modelled_order /\ process_node_returns = modelled_returns /\ process_node_raises = 1.
Proof. exact (conj process_node_order_is_modelled process_node_exits_are_modelled). Qed.
Print Assumptions C03_process_node_order.

Theorem C03_registry_is_modelled :
  forallb (fun e => let '(d, o, _, _) := e in String.eqb d "" && mem o modelled_evaluators) registry = true.
Proof. exact registry_is_modelled. Qed.
Print Assumptions C03_registry_is_modelled.

Theorem C03_fold_pass_sound_partial : forall V sem truth trip of_nat of_bool limit ref_eval const_val attr_of_val v_dtype v_dims v_ints v_tensor,
  oracles V sem truth ref_eval const_val attr_of_val v_dtype v_ints ->
  forall pe cfg, pe_ok V sem truth trip of_nat of_bool limit pe ->
  forall visit_subs, subs_spec V sem truth trip of_nat of_bool limit cfg visit_subs ->
  forall fuel bound st gi inits nodes outs st' ns' inits' news defd tr,
    visit_nodes V ref_eval const_val attr_of_val v_dtype v_dims v_ints v_tensor pe true cfg visit_subs fuel false (gi ++ bound) st inits nodes
      = OK (st', ns', inits', news, defd, tr) ->
    incl (s_guard V st) (c_graph_inputs cfg) ->
    forall F outer args r,
      (forall e0, bind gi args outer = Some e0 -> inv V st e0 /\ dom_ok V e0 (gi ++ bound)) ->
      eval_graph V sem truth trip of_nat of_bool limit (S F) outer (Graph gi inits nodes outs) args = Some r ->
      eval_graph V sem truth trip of_nat of_bool limit (S F) outer (Graph gi inits' ns' outs) args = Some r.
Proof. exact fold_pass_sound_b. Qed.
Print Assumptions C03_fold_pass_sound_partial.

(* visit_graph of the model as a whole: traversal with the recursion through nested graphs (visit_subs_d) and the
   replacement of graph outputs including its renaming; the only remaining hypothesis about the pass is pe_ok *)
Theorem C03_fold_graph_sound_partial : forall V sem truth trip of_nat of_bool limit ref_eval const_val attr_of_val v_dtype v_dims v_ints v_tensor,
  oracles V sem truth ref_eval const_val attr_of_val v_dtype v_ints ->
  forall pe cfg, pe_ok V sem truth trip of_nat of_bool limit pe ->
  forall depth fuel bound st g st' g' news tr,
    fold_graph V ref_eval const_val attr_of_val v_dtype v_dims v_ints v_tensor pe true cfg depth fuel bound st g = OK (st', g', news, tr) ->
    incl (s_guard V st) (c_graph_inputs cfg) ->
    forall F outer args r,
      (forall e0, bind (g_ins g) args outer = Some e0 -> inv V st e0 /\ dom_ok V e0 (g_ins g ++ bound)) ->
      eval_graph V sem truth trip of_nat of_bool limit (S F) outer g args = Some r ->
      eval_graph V sem truth trip of_nat of_bool limit (S F) outer g' args = Some r.
Proof. exact fold_graph_sound_b. Qed.
Print Assumptions C03_fold_graph_sound_partial.

Theorem C03_replace_outputs_sound : forall V sem truth trip of_nat of_bool limit cfg bound gi st nodes news outs scope st2 ns2 tr,
  replace_outputs V true cfg bound gi st nodes news outs scope = OK (st2, ns2, tr) ->
  ext V st st2 scope /\
  forall F e0 e1 r, dom_ok V e0 bound ->
    run V sem truth trip of_nat of_bool limit (eval_graph V sem truth trip of_nat of_bool limit F) e0 nodes = Some e1 ->
    inv V st e1 -> lookups e1 outs = Some r ->
    exists e2, run V sem truth trip of_nat of_bool limit (eval_graph V sem truth trip of_nat of_bool limit F) e0 ns2 = Some e2 /\ lookups e2 outs = Some r.
Proof. exact replace_outputs_sound. Qed.
Print Assumptions C03_replace_outputs_sound.

(* the node-list form with the invariants it maintains (what the induction proves) *)
Theorem C03_visit_nodes_sound : forall V sem truth trip of_nat of_bool limit ref_eval const_val attr_of_val v_dtype v_dims v_ints v_tensor,
  oracles V sem truth ref_eval const_val attr_of_val v_dtype v_ints ->
  forall pe cfg, pe_ok V sem truth trip of_nat of_bool limit pe ->
  forall visit_subs, subs_spec V sem truth trip of_nat of_bool limit cfg visit_subs ->
  forall fuel isf bound st inits work st' ns' inits' news defd tr,
    visit_nodes V ref_eval const_val attr_of_val v_dtype v_dims v_ints v_tensor pe true cfg visit_subs fuel isf bound st inits work
      = OK (st', ns', inits', news, defd, tr) ->
    ext V st st' defd /\
    forall F e e1, inv V st e -> dom_ok V e bound -> incl (s_guard V st) (c_graph_inputs cfg) ->
      run V sem truth trip of_nat of_bool limit (eval_graph V sem truth trip of_nat of_bool limit F) e work = Some e1 ->
      exists e1', run V sem truth trip of_nat of_bool limit (eval_graph V sem truth trip of_nat of_bool limit F) e ns' = Some e1' /\
                  sub_env V e1 e1' /\ inv V st' e1' /\ dom_ok V e1' (defd ++ bound).
Proof. exact visit_nodes_sound_b. Qed.
Print Assumptions C03_visit_nodes_sound.

(* replacing a node whose inputs are all constants by the constant the reference evaluator computed (as an
   initializer bound in the outer environment) *)
Theorem C03_fold_node_sound : forall V sem truth trip of_nat of_bool limit ref_eval,
  (forall dom op attrs xs ys, ref_eval dom op attrs xs = Some ys -> sem dom op attrs xs = Some ys) ->
  forall F outer gi gn pre n suf outs args y v xs r,
    n_outs n = [y] -> n_subs n = [] ->
    ref_eval (n_dom n) (n_op n) (n_attrs n) xs = Some [v] ->
    (forall e0 e1, bind gi args outer = Some e0 ->
       run V sem truth trip of_nat of_bool limit (eval_graph V sem truth trip of_nat of_bool limit F) e0 pre = Some e1 ->
       lookup_opts e1 (n_ins n) = Some xs) ->
    ~ In y gi -> ~ In y (names_nodes pre) ->
    eval_graph V sem truth trip of_nat of_bool limit (S F) outer (Graph gi gn (pre ++ n :: suf) outs) args = Some r ->
    eval_graph V sem truth trip of_nat of_bool limit (S F) ((y, v) :: outer) (Graph gi (y :: gn) (pre ++ suf) outs) args = Some r.
Proof. exact fold_node_sound. Qed.
Print Assumptions C03_fold_node_sound.

(* redirecting the inputs of a node along recorded equalities (outputs of Identity nodes) *)
Theorem C03_identity_subst_sound : forall V sem truth trip of_nat of_bool limit ev st e n a,
  inv V st e -> eval_node V sem truth trip of_nat of_bool limit ev e n = Some a ->
  eval_node V sem truth trip of_nat of_bool limit ev e (subst_node V st n) = Some a.
Proof. exact identity_subst_sound. Qed.
Print Assumptions C03_identity_subst_sound.

(* If with a known condition = the taken branch spliced in, its outputs renamed to the outputs of the If node *)
Theorem C03_if_inline_sound : forall V sem truth trip of_nat of_bool limit ref_eval const_val attr_of_val v_dtype v_dims v_ints,
  oracles V sem truth ref_eval const_val attr_of_val v_dtype v_ints ->
  forall F st bound n st2 R moved e a,
    pe_if V v_dtype v_dims v_ints st n = PInline V st2 R moved -> n_op n = "If" -> n_dom n = "" ->
    inline_ok V v_dtype v_dims v_ints st bound n = true -> inv V st e -> dom_ok V e bound ->
    eval_node V sem truth trip of_nat of_bool limit (eval_graph V sem truth trip of_nat of_bool limit F) e n = Some a ->
    facts_eq V st st2 /\
    exists b, run V sem truth trip of_nat of_bool limit (eval_graph V sem truth trip of_nat of_bool limit F) e R = Some b /\ sub_env V a b.
Proof. exact if_inline_sound_b. Qed.
Print Assumptions C03_if_inline_sound.

Theorem C03_dce_sound : forall V sem truth trip of_nat of_bool limit fuel outer gi gn pre M suf outs args v,
  disjoint (defs_nodes M) (names_nodes suf) -> disjoint (defs_nodes M) outs ->
  eval_graph V sem truth trip of_nat of_bool limit (S fuel) outer (Graph gi gn (pre ++ M ++ suf) outs) args = Some v ->
  eval_graph V sem truth trip of_nat of_bool limit (S fuel) outer (Graph gi gn (pre ++ suf) outs) args = Some v.
Proof. exact FoldProofs.dce_sound. Qed.
Print Assumptions C03_dce_sound.

(* evaluation is invariant under injective renaming of values (what NameFix and the renaming of replaced graph
   outputs rely on) and monotone in the environment *)
Theorem C03_renaming_invariance : forall V sem truth trip of_nat of_bool limit rho N,
  (forall x y, In x N -> In y N -> rho x = rho y -> x = y) ->
  forall F e e' g args, incl (names_graph g) N -> ren_rel V rho N e e' ->
    eval_graph V sem truth trip of_nat of_bool limit F e' (map_graph rho g) args = eval_graph V sem truth trip of_nat of_bool limit F e g args.
Proof. exact eval_graph_ren. Qed.
Print Assumptions C03_renaming_invariance.

Theorem C03_optimize_preserves_partial : forall V sem truth trip of_nat of_bool limit (pre loop post : list (stage)) (n : nat),
  Forall (stage_sound V sem truth trip of_nat of_bool limit) pre ->
  Forall (stage_sound V sem truth trip of_nat of_bool limit) loop ->
  Forall (stage_sound V sem truth trip of_nat of_bool limit) post ->
  forall g g1 g2 g3, run_stages pre g = Some g1 -> iterate n loop g1 = Some g2 -> run_stages post g2 = Some g3 ->
    refines V sem truth trip of_nat of_bool limit g g3.
Proof. exact optimize_pipeline_sound. Qed.
Print Assumptions C03_optimize_preserves_partial.

(* the hypotheses are satisfiable, and the pass does fold on a concrete instance *)
Theorem C03_oracles_satisfiable : oracles Z z_sem z_truth z_ref z_const AInt (fun _ => DT_BOOL) (fun z => Some [z]).
Proof. exact oracles_satisfiable. Qed.
Print Assumptions C03_oracles_satisfiable.

(* ---- the onnx_ir stages of the pipeline *)
Theorem C03_dce_pass_sound : forall V sem truth trip of_nat of_bool limit F outer g args r,
  eval_graph V sem truth trip of_nat of_bool limit F outer g args = Some r ->
  eval_graph V sem truth trip of_nat of_bool limit F outer (dce g) args = Some r.
Proof. exact DceProofs.dce_sound. Qed.
Print Assumptions C03_dce_pass_sound.

Theorem C03_cse_merge_sound_partial : forall V sem truth trip of_nat of_bool limit F outer gi gn p a mid b suf go args r,
  merge_guard go a mid b suf = true ->
  eval_graph V sem truth trip of_nat of_bool limit (S F) outer (Graph gi gn ((p ++ a :: mid) ++ b :: suf) go) args = Some r ->
  eval_graph V sem truth trip of_nat of_bool limit (S F) outer
             (Graph gi gn ((p ++ a :: mid) ++ map (use_top (ren (combine (n_outs b) (n_outs a)))) suf) go) args = Some r.
Proof. exact merge_sound. Qed.
Print Assumptions C03_cse_merge_sound_partial.

Theorem C03_cse_checked_sound_partial : forall V sem truth trip of_nat of_bool limit g g',
  cse_checked g = Some g' -> grefines V sem truth trip of_nat of_bool limit g g'.
Proof. exact cse_checked_sound. Qed.
Print Assumptions C03_cse_checked_sound_partial.

Theorem C03_cse_python_key_refuted :
  key_eqb (Node "" "K" [] ["u"] [("alpha", AFloat 0)] []) (Node "" "K" [] ["v"] [("alpha", AFloat 2147483648)] []) = true /\
  eval_graph Z k_sem (fun _ => None) (fun _ => None) Z.of_nat (fun b => if b then 1%Z else 0%Z) 0 2 [] zero_sign_graph [] = Some [0%Z; 2147483648%Z] /\
  eval_graph Z k_sem (fun _ => None) (fun _ => None) Z.of_nat (fun b => if b then 1%Z else 0%Z) 0 2 [] (cse zero_sign_graph) [] = Some [0%Z; 0%Z] /\
  cse_checked zero_sign_graph = None.
Proof. exact cse_python_key_refuted. Qed.
Print Assumptions C03_cse_python_key_refuted.

Theorem C03_optimize_ir_sound_partial : forall V sem truth trip of_nat of_bool limit
    inline_pass fold_pass rewrite_pass unused_functions unused_opsets lift_constants lift_subgraph_initializers dedup_initializers output_fix name_fix,
  mstage_sound V sem truth trip of_nat of_bool limit inline_pass -> mstage_sound V sem truth trip of_nat of_bool limit fold_pass ->
  mstage_sound V sem truth trip of_nat of_bool limit rewrite_pass -> mstage_sound V sem truth trip of_nat of_bool limit unused_functions ->
  mstage_sound V sem truth trip of_nat of_bool limit unused_opsets -> mstage_sound V sem truth trip of_nat of_bool limit lift_constants ->
  mstage_sound V sem truth trip of_nat of_bool limit lift_subgraph_initializers -> mstage_sound V sem truth trip of_nat of_bool limit dedup_initializers ->
  mstage_sound V sem truth trip of_nat of_bool limit output_fix -> mstage_sound V sem truth trip of_nat of_bool limit name_fix ->
  forall f1 f2 f3 inline num_iterations stop_if_no_change,
    mstage_sound V sem truth trip of_nat of_bool limit
      (optimize_ir_stages inline_pass fold_pass rewrite_pass unused_functions unused_opsets lift_constants lift_subgraph_initializers
                          dedup_initializers output_fix name_fix f1 f2 f3 inline num_iterations stop_if_no_change).
Proof. exact optimize_ir_sound. Qed.
Print Assumptions C03_optimize_ir_sound_partial.

Theorem C03_pass_manager_sound : forall V sem truth trip of_nat of_bool limit steps early_stop body,
  Forall (mstage_sound V sem truth trip of_nat of_bool limit) body ->
  mstage_sound V sem truth trip of_nat of_bool limit (run_manager steps early_stop body).
Proof. exact run_manager_sound. Qed.
Print Assumptions C03_pass_manager_sound.

Theorem C03_source_pipeline_shape :
  pipeline_ok src_prefix_guard src_prefix src_loop src_steps src_early_stop src_post = true.
Proof. exact source_pipeline_shape_ok. Qed.
Print Assumptions C03_source_pipeline_shape.

(* ---- the Concat evaluator and zero-length operands: as read (before fix 37f3956) / repaired.  Which variant the source is
   in is read by the translator (Gen/FoldTables.v: concat_drop_checks_other_dims); Opt/Fold.v: pe_concat follows it and the
   decision-trace correspondence compares it with the real evaluator.  In the theorems of the pass the evaluator enters
   through pe_ok for either variant (refinement is one-directional: dropping a run-time shape check is not a change of what
   a model computes on inputs it accepts, C03; it is what C09 objects to). *)
Theorem C03_concat_as_read_drops_unchecked_operand :
  match pe_concat_variant Z (fun _ => DT_INT64) (fun _ => []) (fun z => Some [z]) false (cc_state (DSym "N") (DSym "M")) cc_node with
  | PRepl _ _ [Node "" "Concat" [Some "y"] ["z"] [("axis", AInt 1)] []] => True
  | _ => False
  end.
Proof. exact concat_as_read_drops_unchecked_operand. Qed.
Print Assumptions C03_concat_as_read_drops_unchecked_operand.

(* ... and the replacement then accepts bindings the original rejects (x:[N,0], y:[M,2], axis 1 at N=2, M=3) *)
Theorem C03_concat_as_read_accepts_more_refuted : exists axis ops r,
  ExtraProofs.droppable 1 ops /\ Extra.concat_shape axis (map snd ops) = None /\ Extra.concat_shape axis (ExtraProofs.kept ops) = Some r.
Proof. exact ExtraProofs.concat_drop_accepts_exactly_refuted. Qed.
Print Assumptions C03_concat_as_read_accepts_more_refuted.

Theorem C03_concat_fixed_keeps_unchecked_drops_checked :
  match pe_concat_variant Z (fun _ => DT_INT64) (fun _ => []) (fun z => Some [z]) true (cc_state (DSym "N") (DSym "M")) cc_node with
  | PNone _ _ => True | _ => False end /\
  match pe_concat_variant Z (fun _ => DT_INT64) (fun _ => []) (fun z => Some [z]) true (cc_state (DSym "N") (DSym "N")) cc_node with
  | PRepl _ _ [Node "" "Identity" [Some "y"] ["z"] [] []] => True | _ => False end.
Proof. exact (conj concat_repaired_keeps_unchecked_operand concat_repaired_drops_checked_operand). Qed.
Print Assumptions C03_concat_fixed_keeps_unchecked_drops_checked.

(* the repaired drop condition makes the kept Concat accept exactly what the original accepts, with the same shape *)
Theorem C03_concat_fixed_accepts_exactly : forall axis ops ref ax,
  In (true, ref) ops -> Extra.norm_axis (Z.of_nat (List.length ref)) axis = Some ax -> ExtraProofs.droppable_ref ax ref ops ->
  Extra.concat_shape axis (ExtraProofs.kept ops) = Extra.concat_shape axis (map snd ops).
Proof. exact ExtraProofs.concat_drop_fixed_accepts_exactly. Qed.
Print Assumptions C03_concat_fixed_accepts_exactly.

(* ---- attributes given by reference to a function attribute (ir.Attr.is_ref(): no value inside the function body).
   As read, process_node treats them as absent: the faithful model folds Neg<k = @a>(2) (and Shape<start = @a>, LeakyRelu<alpha = @a>,
   Transpose<perm = @p> ... with the operator defaults: the known findings C03:fold:reference-attribute-read-as-absent:... ).
   Repaired (the translator reads which variant the source is in): every such node is kept. *)
Theorem C03_reference_attribute_as_read_folded_refuted :
  match decide_variant Z z_ref (fun _ => DT_BOOL) (fun _ => []) (fun z => Some [z]) (fun _ => true) (pe_none Z) ex_cfg false false ex_state ref_node with
  | DFoldInit _ _ "y" v => v = (-2)%Z
  | _ => False
  end.
Proof. exact reference_attribute_as_read_folded. Qed.
Print Assumptions C03_reference_attribute_as_read_folded_refuted.

Theorem C03_reference_attribute_nodes_kept_fixed : forall V ref_eval v_dtype v_dims v_ints v_tensor pe cfg isf (st : state V) n,
  has_ref_attr n = true -> decide_variant V ref_eval v_dtype v_dims v_ints v_tensor pe cfg true isf st n = DKeep V RRefAttr st.
Proof. exact decide_variant_keeps_reference_attributes. Qed.
Print Assumptions C03_reference_attribute_nodes_kept_fixed.

(* ---- graphs with their table of initializer values (Opt/Inits.v): the three initializer passes of optimize_ir.
   A model means eval_graph in the environment binding every table name to tok_val of its token; const_oracle ties the Constant
   kernel to tok_val.  Side conditions of the lift theorem (distinct table names, no lifted name bound inside the result, the
   caller's environment does not bind table names) are CHECKED by the stage i_lift of the pipeline theorem below.
   NOT covered: the renaming of a hoisted initializer on a name collision (hoist = None), de-duplication inside nested graphs
   (nothing is left there after hoisting), the side conditions of dedup_guard (the model leaves the graph alone when they fail). *)
Theorem C03_lift_constants_sound : forall V sem truth trip of_nat of_bool limit tok_val,
  const_oracle V sem tok_val -> forall g t g' t', lift g t = Some (g', t') ->
  nodupb (map fst t') = true -> (forall b, In b (binds_graph g') -> tab_get b (collect (depth_graph g) g) = None) ->
  forall F outer args r, (forall x k, tab_get x t' = Some k -> lookup outer x = None) ->
    eval_model V sem truth trip of_nat of_bool limit tok_val F outer g t args = Some r ->
    eval_model V sem truth trip of_nat of_bool limit tok_val F outer g' t' args = Some r.
Proof. exact lift_sound. Qed.
Print Assumptions C03_lift_constants_sound.

Theorem C03_lift_subgraph_initializers_sound : forall V sem truth trip of_nat of_bool limit g g', hoist g = Some g' ->
  forall F e args r, eval_graph V sem truth trip of_nat of_bool limit F e g args = Some r ->
                     eval_graph V sem truth trip of_nat of_bool limit F e g' args = Some r.
Proof. exact hoist_sound. Qed.
Print Assumptions C03_lift_subgraph_initializers_sound.

Theorem C03_dedup_initializers_sound : forall V sem truth trip of_nat of_bool limit tok_val g t g' t', dedup g t = (g', t') ->
  forall F outer args r, (forall x k, tab_get x t = Some k -> lookup outer x = None) ->
    eval_model V sem truth trip of_nat of_bool limit tok_val F outer g t args = Some r ->
    eval_model V sem truth trip of_nat of_bool limit tok_val F outer g' t' args = Some r.
Proof. exact dedup_sound. Qed.
Print Assumptions C03_dedup_initializers_sound.

(* the key of the de-duplication is the token itself: element type, dims and bytes (0.0 / -0.0, NaN payloads, equal bytes under
   another element type are different tokens) *)
Theorem C03_dedup_key_exact : forall a b, token_eqb a b = true -> a = b.
Proof. exact token_eqb_eq. Qed.
Print Assumptions C03_dedup_key_exact.

(* redirecting uses at every depth along a name map that touches no name bound inside the graph *)
Theorem C03_use_redirection_sound : forall V sem truth trip of_nat of_bool limit rho F e e' g args r,
  rel V rho e e' -> stable rho (binds_graph g) ->
  eval_graph V sem truth trip of_nat of_bool limit F e g args = Some r ->
  eval_graph V sem truth trip of_nat of_bool limit F e' (use_graph rho g) args = Some r.
Proof. exact use_graph_sound. Qed.
Print Assumptions C03_use_redirection_sound.

(* ---- CSE beyond merge_guard: uses in nested graphs and graph outputs (canonical form), Identity path, rename path *)
Theorem C03_cse_merge_sound_deep_partial : forall V sem truth trip of_nat of_bool limit F outer gi gn p a mid b suf go args r,
  merge_guard_deep a mid b suf = true ->
  eval_graph V sem truth trip of_nat of_bool limit (S F) outer (Graph gi gn ((p ++ a :: mid) ++ b :: suf) go) args = Some r ->
  eval_graph V sem truth trip of_nat of_bool limit (S F) outer
             (Graph gi gn ((p ++ a :: mid) ++ use_nodes (ren (combine (n_outs b) (n_outs a))) suf)
                    (map (ren (combine (n_outs b) (n_outs a))) go)) args = Some r.
Proof. exact merge_sound_deep. Qed.
Print Assumptions C03_cse_merge_sound_deep_partial.

Theorem C03_cse_identity_path_sound_partial : forall V sem truth trip of_nat of_bool limit,
  (forall attrs v, sem "" "Identity" attrs [Some v] = Some [v]) ->
  forall F outer gi gn p dom op ins attrs ya yb mid suf go args r,
  is_if dom op = false -> is_loop dom op = false -> ya <> yb ->
  disjoint [ya] (present ins) -> disjoint (defs_nodes mid) (present ins ++ [ya]) ->
  disjoint (binds_nodes suf) ([ya] ++ [yb]) ->
  eval_graph V sem truth trip of_nat of_bool limit (S F) outer
             (Graph gi gn ((p ++ Node dom op ins [ya] attrs [] :: mid) ++ Node dom op ins [yb] attrs [] :: suf) go) args = Some r ->
  eval_graph V sem truth trip of_nat of_bool limit (S F) outer
             (Graph gi gn ((p ++ Node dom op ins [ya] attrs [] :: mid) ++
                           Node "" "Identity" [Some ya] [yb] [] [] :: use_nodes (ren [(yb, ya)]) suf) go) args = Some r.
Proof. exact merge_sound_identity. Qed.
Print Assumptions C03_cse_identity_path_sound_partial.

Theorem C03_cse_rename_path_sound_partial : forall V sem truth trip of_nat of_bool limit sigma N,
  (forall x y, In x N -> In y N -> sigma x = sigma y -> x = y) ->
  forall F outer g_can args r, incl (names_graph g_can) N ->
  (forall x, In x N -> lookup outer (sigma x) = lookup outer x) ->
  eval_graph V sem truth trip of_nat of_bool limit F outer g_can args = Some r ->
  eval_graph V sem truth trip of_nat of_bool limit F outer (map_graph sigma g_can) args = Some r.
Proof. exact merge_sound_rename. Qed.
Print Assumptions C03_cse_rename_path_sound_partial.

(* ---- optimize_ir over graphs with initializer values: DCE, lift constants, lift subgraph initializers, dedup and checked CSE
   are the models; seven stages remain hypotheses *)
Theorem C03_optimize_ir_with_initializers_sound_partial : forall V sem truth trip of_nat of_bool limit tok_val,
  const_oracle V sem tok_val ->
  forall inline_pass fold_pass rewrite_pass unused_functions unused_opsets output_fix name_fix,
  istage_sound V sem truth trip of_nat of_bool limit tok_val inline_pass -> istage_sound V sem truth trip of_nat of_bool limit tok_val fold_pass ->
  istage_sound V sem truth trip of_nat of_bool limit tok_val rewrite_pass -> istage_sound V sem truth trip of_nat of_bool limit tok_val unused_functions ->
  istage_sound V sem truth trip of_nat of_bool limit tok_val unused_opsets -> istage_sound V sem truth trip of_nat of_bool limit tok_val output_fix ->
  istage_sound V sem truth trip of_nat of_bool limit tok_val name_fix ->
  forall f1 f2 f3 f4 f5 f6 inline num_iterations stop_if_no_change,
    istage_sound V sem truth trip of_nat of_bool limit tok_val
      (optimize_ir_istages inline_pass fold_pass rewrite_pass unused_functions unused_opsets output_fix name_fix
                           f1 f2 f3 f4 f5 f6 inline num_iterations stop_if_no_change).
Proof. exact optimize_ir_isound. Qed.
Print Assumptions C03_optimize_ir_with_initializers_sound_partial.

(* every option of optimize / optimize_ir / fold_constants reaches the pass it configures under the right keyword at every call
   site, optimize and optimize_ir agree on the defaults (read from the current source: Gen/OptWiring.v) *)
Theorem C03_source_option_wiring : forallb row_ok wiring && defaults_ok = true.
Proof. exact source_option_wiring_ok. Qed.
Print Assumptions C03_source_option_wiring.

(* ==== optimize_ir with the stages LINKED to the theorems of the properties that own them (Opt/StagesProofs.v, Opt/RuleBridge.v,
   Opt/OptimizeIrProofs.v).  Names are qualified: OV.Rewrite.Apply redefines `app`, `disjointb`, ... *)

(* FoldConstantsPass as a stage: Opt/Fold.v fold_graph started from the state that knows the table's values; the only hypotheses
   are the oracles (reference evaluator = runtime kernel ...) and pe_ok (op-specific partial evaluators) *)
Theorem C03_fold_stage_sound : forall V sem truth trip of_nat of_bool limit tok_val ref_eval const_val attr_of_val v_dtype v_dims v_ints v_tensor pe,
  oracles V sem truth ref_eval const_val attr_of_val v_dtype v_ints -> pe_ok V sem truth trip of_nat of_bool limit pe ->
  forall cfg depth fuel f,
    istage_sound V sem truth trip of_nat of_bool limit tok_val
      (StagesProofs.i_fold V tok_val ref_eval const_val attr_of_val v_dtype v_dims v_ints v_tensor pe cfg depth fuel f).
Proof. exact StagesProofs.i_fold_sound. Qed.
Print Assumptions C03_fold_stage_sound.

(* RewritePass as a stage: C07's node iteration over the rule list, every proposal guarded by C07's executable side conditions;
   the only hypothesis is rule_sound for every rule = the matched segment is interchangeable with its replacement *)
Theorem C03_rewrite_stage_sound : forall V sem truth trip of_nat of_bool limit tok_val fuel rules f,
  Forall (StagesProofs.rule_sound V sem truth trip of_nat of_bool limit) rules ->
  istage_sound V sem truth trip of_nat of_bool limit tok_val (StagesProofs.i_rewrite fuel rules f).
Proof. exact StagesProofs.i_rewrite_sound. Qed.
Print Assumptions C03_rewrite_stage_sound.

(* the bridge C05 -> rule_sound, three families (kernels = the family's element semantics on flat integer tensors) *)
Theorem C03_rule_bridge_relu_relu : forall sem truth trip of_nat of_bool limit,
  (forall attrs v, sem "" "Relu" attrs [Some v] = Some [map OV.Rules.Clip.relu v]) ->
  StagesProofs.rule_sound (list Z) sem truth trip of_nat of_bool limit (RuleBridge.two_rule RuleBridge.relurelu).
Proof. exact RuleBridge.relurelu_rule_sound. Qed.
Print Assumptions C03_rule_bridge_relu_relu.

Theorem C03_rule_bridge_dropout_inference : forall sem truth trip of_nat of_bool limit zero mul scale_of ratio0 mask0,
  (forall attrs v, sem "" "Dropout" attrs [Some v] = Some [OV.Rules.Dropout.dropout Z zero mul scale_of false ratio0 mask0 v]) ->
  (forall attrs v, sem "" "Identity" attrs [Some v] = Some [v]) ->
  StagesProofs.rule_sound (list Z) sem truth trip of_nat of_bool limit (RuleBridge.one_rule RuleBridge.dropout_inference).
Proof. exact RuleBridge.dropout_inference_rule_sound. Qed.
Print Assumptions C03_rule_bridge_dropout_inference.

Theorem C03_rule_bridge_mul_by_constant_one : forall sem truth trip of_nat of_bool limit,
  (forall attrs v, sem "" "Identity" attrs [Some v] = Some [v]) ->
  (forall c vs, sem "" "Constant" [("value_int", AInt c)] vs = Some [[c]]) ->
  (forall attrs v c, sem "" "Mul" attrs [Some v; Some [c]] = Some [map (fun x => OV.Rules.NoOp.lhs_int OV.Rules.NoOp.MulR c x) v]) ->
  StagesProofs.rule_sound (list Z) sem truth trip of_nat of_bool limit (RuleBridge.two_rule RuleBridge.mul_by_const_one).
Proof. exact RuleBridge.mul_by_const_one_rule_sound. Qed.
Print Assumptions C03_rule_bridge_mul_by_constant_one.

(* NameFixPass as a stage = C07_namefix_sound *)
Theorem C03_namefix_stage_sound : forall V sem truth trip of_nat of_bool limit tok_val rn vis f,
  istage_sound V sem truth trip of_nat of_bool limit tok_val (StagesProofs.i_namefix rn vis f).
Proof. exact StagesProofs.i_namefix_sound. Qed.
Print Assumptions C03_namefix_stage_sound.

(* OutputFixPass on the main graph, outputs listed again: each repeat gets  x_alias_i = Identity(x)  appended.  NOT modelled: a graph
   input listed as an output (the real pass renames the input to x_orig and appends x = Identity(x_orig)), nested graphs, functions *)
Theorem C03_output_fix_sound_partial : forall V sem truth trip of_nat of_bool limit,
  (forall attrs v, sem "" "Identity" attrs [Some v] = Some [v]) ->
  forall g g', Stages.output_fix g = Some g' -> forall F e args r,
    (forall y, In y (g_outs g') -> ~ In y (g_outs g) -> lookup e y = None) ->
    eval_graph V sem truth trip of_nat of_bool limit F e g args = Some r ->
    eval_graph V sem truth trip of_nat of_bool limit F e g' args = Some r.
Proof. exact StagesProofs.output_fix_sound. Qed.
Print Assumptions C03_output_fix_sound_partial.

(* RemoveUnusedFunctionsPass: whatever is still called (from the main graph or from a kept function) and was in the table, stays *)
Theorem C03_remove_unused_functions_closed : forall g ft c,
  In c (Stages.calls_graph g ++ flat_map (fun e => Stages.calls_graph (snd e)) (StagesProofs.remove_unused_functions_checked g ft)) ->
  existsb (fun e => Stages.fid_eqb (fst e) c) ft = true ->
  existsb (fun e => Stages.fid_eqb (fst e) c) (StagesProofs.remove_unused_functions_checked g ft) = true.
Proof. exact StagesProofs.remove_unused_functions_closed. Qed.
Print Assumptions C03_remove_unused_functions_closed.

(* optimize_ir, every option tuple: the hypotheses left are the Constant / reference-evaluator / Identity oracles, pe_ok, rule_sound
   per rewrite rule, and InlinePass *)
Theorem C03_optimize_ir_sound : forall V sem truth trip of_nat of_bool limit tok_val ref_eval const_val attr_of_val v_dtype v_dims v_ints v_tensor pe rules inline_pass,
  const_oracle V sem tok_val ->
  oracles V sem truth ref_eval const_val attr_of_val v_dtype v_ints ->
  pe_ok V sem truth trip of_nat of_bool limit pe ->
  Forall (StagesProofs.rule_sound V sem truth trip of_nat of_bool limit) rules ->
  istage_sound V sem truth trip of_nat of_bool limit tok_val inline_pass ->
  forall cfg depth fuel rn vis f inline num_iterations stop_if_no_change,
    istage_sound V sem truth trip of_nat of_bool limit tok_val
      (OptimizeIrProofs.optimize_ir_linked V tok_val ref_eval const_val attr_of_val v_dtype v_dims v_ints v_tensor pe rules inline_pass
         cfg depth fuel rn vis f inline num_iterations stop_if_no_change).
Proof. exact OptimizeIrProofs.optimize_ir_linked_sound. Qed.
Print Assumptions C03_optimize_ir_sound.
