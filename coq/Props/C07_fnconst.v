(* C07 property theorems, fifth file: as_function extraction WITH COPIED CONSTANTS
   (onnxscript/rewriter/_rewrite_rule.py::_copy_for_function + the extraction block of _apply_to_graph_or_function).
   Model: OV.Rewrite.FnConst / State.fn_body: formals = the call node's inputs (the pattern inputs in order), body = one
   Constant node per copied value followed by the matched nodes in graph order reading the Constant outputs instead,
   outputs = the pattern outputs, imports = the parent's entries for the domains of the whole body.
   Tie: State.fn_okb / Multi.fn_okb_m compare the body of every extracted function with fn_body (also with copied constants)
   and the functions table with add_function; harness/c07.py evaluates extract_const_okb on every traced as_function splice
   with copied constants and compares the copied tensors with the values the caller reads.
   Statements only, each closed by `exact`; Print Assumptions beneath.

   Not covered: that the invariant of C07_as_function_with_constants_sound (the environment reaching the match binds every
   copied value to what its Constant node produces) holds when the copied value is the output of a Constant NODE before the
   match (proved for copied initializers: C07_copied_initializers_bound); matches whose nodes are not contiguous (commute
   first: C07_commutation). *)
From Coq Require Import List String ZArith Bool.
Require Import OV.Graph.Syntax OV.Graph.Sem OV.Graph.Names OV.Graph.SemProofs.
Require Import OV.Rewrite.Apply OV.Rewrite.FnCall OV.Rewrite.State OV.Rewrite.FnConst OV.Rewrite.FnConstSemProofs.
Import ListNotations.

(* for every environment that binds each copied value to what its Constant node produces, for every input of the call:
   the call of the extracted function evaluates like the matched nodes in place (extends call_eq_matched of C07_fn.v).
   Kernel hypothesis: the call is interpreted by the body of the function *)
Theorem C07_call_with_constants_eq_matched :
  forall V sem truth trip of_nat of_bool limit cmap ev f dom op attrs ins cattrs M outs couts e vs cvs,
    (forall ws, sem dom op attrs (map Some ws)
                = eval_graph V sem truth trip of_nat of_bool limit (S f) [] (fn_graph ins (fn_body cmap cattrs M) outs) ws) ->
    extract_const_okb dom op ins cmap cattrs M outs = true ->
    Forall2 (fun ca v => sem ""%string "Constant"%string (snd ca) [] = Some [v]) (combine cmap cattrs) cvs ->
    Forall2 (fun ca v => lookup e (fst (fst ca)) = Some v) (combine cmap cattrs) cvs ->
    lookups e ins = Some vs ->
    eval_node V sem truth trip of_nat of_bool limit ev e (call_of dom op attrs ins couts) =
    match run V sem truth trip of_nat of_bool limit ev e M with
    | Some e1 => match lookups e1 outs with Some rs => bind couts rs e | None => None end
    | None => None
    end.
Proof. exact call_const_eq_matched. Qed.
Print Assumptions C07_call_with_constants_eq_matched.

(* imports of the extracted function: every domain of the body that the parent imports (fix 8f809b5: the Constant nodes'
   default domain is a domain of the body), nothing else *)
Theorem C07_extracted_imports_cover : forall parent body d,
  In d (map n_dom body) -> In d (map fst parent) -> In d (map fst (fn_imports parent body)).
Proof. exact fn_imports_cover. Qed.
Print Assumptions C07_extracted_imports_cover.

Theorem C07_extracted_imports_only_used : forall parent body e,
  In e (fn_imports parent body) -> In e parent /\ In (fst e) (map n_dom body).
Proof. exact fn_imports_only_used. Qed.
Print Assumptions C07_extracted_imports_only_used.

Theorem C07_copied_constants_use_default_domain : forall cmap cattrs M, combine cmap cattrs <> [] ->
  In ""%string (map n_dom (fn_body cmap cattrs M)).
Proof. exact fn_body_uses_default_domain. Qed.
Print Assumptions C07_copied_constants_use_default_domain.

(* a match inside an If/Loop body of the main graph: the parent whose imports are filtered is the model graph (fix 480b533) *)
Theorem C07_extraction_in_subgraph_uses_model_imports : forall site i, parent_imports site false i = parent_imports 0 false i.
Proof. exact parent_imports_of_subgraph. Qed.
Print Assumptions C07_extraction_in_subgraph_uses_model_imports.

(* the entry written to model.functions: signature, body and imports as modelled *)
Theorem C07_extracted_function_entry : forall site isfn i q fs ov fs' fd,
  add_function site isfn i q fs = Some (ov, fs') -> fq_used q = map n_dom (fq_body q) ->
  dget fkey_eqb (fq_dom q, fq_name q, ov) fs' = Some fd ->
  fd_imports fd = fn_imports (parent_imports site isfn i) (fq_body q) /\ fd_ins fd = fq_ins q /\ fd_outs fd = fq_outs q /\
  fd_body fd = fq_body q.
Proof. exact add_function_imports_body. Qed.
Print Assumptions C07_extracted_function_entry.

(* the whole graph, every input: the graph with the call of the extracted function in place of the matched segment evaluates
   like the original (extends C07_as_function_app_sound to copied constants).  Besides the executable conditions
   (extract_const_okb, every call input read, pattern outputs defined by the match, X unused afterwards) and the kernel
   hypotheses (the call is interpreted by the function body; what each Constant produces): the environment reaching the
   match binds the copied values to those constants *)
Theorem C07_as_function_with_constants_sound :
  forall V sem truth trip of_nat of_bool limit cmap fuel f dom op attrs ins cattrs M outs X cvs outer gi gn pre suf gouts args,
    (forall ws, sem dom op attrs (map Some ws)
                = eval_graph V sem truth trip of_nat of_bool limit (S f) [] (fn_graph ins (fn_body cmap cattrs M) outs) ws) ->
    extract_const_okb dom op ins cmap cattrs M outs = true ->
    subset ins (free_reads [] M) = true -> subset outs (defs_nodes M) = true ->
    Forall2 (fun ca v => sem ""%string "Constant"%string (snd ca) [] = Some [v]) (combine cmap cattrs) cvs ->
    (forall e0 e1, bind gi args outer = Some e0 ->
                   run V sem truth trip of_nat of_bool limit (eval_graph V sem truth trip of_nat of_bool limit fuel) e0 pre = Some e1 ->
                   consts_bound V cmap cattrs cvs e1) ->
    (forall x, In x (defs_nodes M) -> ~ In x outs -> In x X) ->
    disjoint X (names_nodes suf) -> disjoint X gouts ->
    eval_graph V sem truth trip of_nat of_bool limit (S fuel) outer (Graph gi gn (pre ++ M ++ suf) gouts) args
    = eval_graph V sem truth trip of_nat of_bool limit (S fuel) outer
                 (Graph gi gn (pre ++ [call_of dom op attrs ins outs] ++ suf) gouts) args.
Proof. exact as_function_const_graph_sound. Qed.
Print Assumptions C07_as_function_with_constants_sound.

(* the invariant holds for copied initializers (values of the enclosing environment no graph input / earlier node rebinds) *)
Theorem C07_copied_initializers_bound :
  forall V sem truth trip of_nat of_bool limit cmap cattrs cvs ev (outer e0 e1 : list (vname * V)) gi args pre,
    consts_bound V cmap cattrs cvs outer ->
    (forall t, In t (map fst cmap) -> ~ In t gi /\ ~ In t (defs_nodes pre)) ->
    List.length cmap = List.length cattrs ->
    bind gi args outer = Some e0 -> run V sem truth trip of_nat of_bool limit ev e0 pre = Some e1 ->
    consts_bound V cmap cattrs cvs e1.
Proof. exact consts_bound_from_outer. Qed.
Print Assumptions C07_copied_initializers_bound.
