(* C13: in the reserved-placeholder variant no generic node has an omitted output left, so the hypothesis
   `placeholders_freeb` of the straight-line soundness theorem holds by construction. *)
From Coq Require Import List String Ascii Bool Arith.
Require Import OV.Export.Cleanup OV.Graph.Syntax OV.Script.Syntax OV.Export.Emit OV.Export.Placeholders.
Import ListNotations.
Local Open Scope string_scope.

Lemma ph_name_nonempty : forall i, is_empty (ph_name i) = false.
Proof. intros i. reflexivity. Qed.

Lemma ph_names_ph_outs : forall outs i, ph_names i (ph_outs i outs) = [].
Proof.
  induction outs as [|o t IH]; intros i; [reflexivity|]. cbn [ph_outs ph_names].
  destruct (is_empty o) eqn:E; [rewrite ph_name_nonempty | rewrite E]; cbn [app]; apply IH.
Qed.

Definition plain_node (n : node) : bool := negb (String.eqb (n_op n) "If" || String.eqb (n_op n) "Loop").

Theorem reserved_placeholders_free : forall rename g,
  forallb plain_node (g_nodes g) = true -> placeholders_freeb rename (ph_graph g) = true.
Proof.
  intros rename [ins inits nodes outs] H. unfold placeholders_freeb. cbn [ph_graph g_nodes] in *.
  set (NS := gnames _). clearbody NS.
  induction nodes as [|n t IH]; [reflexivity|]. cbn [forallb] in *. apply andb_true_iff in H. destruct H as [Hn Ht].
  apply andb_true_iff. split; [|exact (IH Ht)].
  destruct n as [d o i u a subs]. unfold plain_node in Hn. cbn [n_op] in Hn. cbn [ph_node n_outs].
  destruct (String.eqb o "If" || String.eqb o "Loop"); [discriminate Hn|]. rewrite ph_names_ph_outs. reflexivity.
Qed.

(* the two orders of the probe, through the unique-name model: see Props/C13_findings.v *)
Require Import OV.Gen.ExportTables OV.Export.Unique.

Definition g_ph_value_first : graph :=
  Graph ["x"] [] [Node "" "Neg" [Some "x"] ["_1"] [] []; Node "" "Dropout" [Some "x"] ["d"; ""] [] []; Node "" "Add" [Some "_1"; Some "d"] ["y"] [] []] ["y"].
Definition g_ph_placeholder_first : graph :=
  Graph ["x"] [] [Node "" "Dropout" [Some "x"] ["d"; ""] [] []; Node "" "Neg" [Some "x"] ["_1"] [] []; Node "" "Add" [Some "_1"; Some "d"] ["y"] [] []] ["y"].
Definition ren_value_first := uniq_fn (ph_base (cleanup kwlist)) ["_1"; "x"; "d"; ph_name 1; "y"].
Definition ren_placeholder_first := uniq_fn (ph_base (cleanup kwlist)) ["d"; ph_name 1; "x"; "_1"; "y"].

Theorem reserved_placeholder_example :
  option_map f_body (export_graph kwlist ren_value_first ren_value_first "g" [] (ph_graph g_ph_value_first)) =
    Some [SAssign "_1" (ECall (COp "Neg") [Some (EVar "x")] []); STuple ["d"; "_1_0"] (ECall (COp "Dropout") [Some (EVar "x")] []);
          SAssign "y" (ECall (COp "Add") [Some (EVar "_1"); Some (EVar "d")] []); SReturn [EVar "y"]] /\
  emit_okb kwlist ren_value_first ren_value_first [] (ph_graph g_ph_value_first) = true /\
  option_map f_body (export_graph kwlist ren_placeholder_first ren_placeholder_first "g" [] (ph_graph g_ph_placeholder_first)) =
    Some [STuple ["d"; "_1"] (ECall (COp "Dropout") [Some (EVar "x")] []); SAssign "_1_0" (ECall (COp "Neg") [Some (EVar "x")] []);
          SAssign "y" (ECall (COp "Add") [Some (EVar "_1_0"); Some (EVar "d")] []); SReturn [EVar "y"]] /\
  emit_okb kwlist ren_placeholder_first ren_placeholder_first [] (ph_graph g_ph_placeholder_first) = true /\
  (* as read: the placeholder hypothesis fails on the same graph *)
  placeholders_freeb (cleanup kwlist) g_ph_value_first = false.
Proof. repeat split; vm_compute; reflexivity. Qed.
