(* C10 -- proofs about the adapter models of Adapters.v *)
From Coq Require Import ZArith List Bool String Lia Arith PeanoNat.
Import ListNotations.
Require Import OV.Version.Model OV.Version.Adapters.
Open Scope Z_scope.

(* ================================================================ GroupNormalization: list algebra *)
Section ListAlgebra.
  Context {A : Type}.

  Lemma expand_scale_eq : forall (d : nat) (s : list A),
    expand_scale d s = List.concat (map (fun x => repeat x d) s).
  Proof.
    intros d s. unfold expand_scale, flatten, expand_cols, reshape_col.
    rewrite map_map. reflexivity.
  Qed.

  Lemma expand_scale_cons : forall (d : nat) (x : A) (s : list A),
    expand_scale d (x :: s) = (repeat x d ++ expand_scale d s)%list.
  Proof. intros. rewrite !expand_scale_eq. reflexivity. Qed.

  Lemma expand_scale_length : forall (d : nat) (s : list A),
    List.length (expand_scale d s) = (List.length s * d)%nat.
  Proof.
    intros d s. induction s as [|x s IH].
    - reflexivity.
    - rewrite expand_scale_cons, app_length, repeat_length, IH. cbn [List.length]. lia.
  Qed.

  Lemma nth_repeat_lt : forall (x def : A) (d i : nat), (i < d)%nat -> nth i (repeat x d) def = x.
  Proof.
    intros x def d. induction d as [|d IH]; intros i H; [lia|].
    destruct i; cbn; [reflexivity|]. apply IH. lia.
  Qed.

  (* "repeat each of the g elements d times": element i of the expanded vector is element i/d *)
  Lemma expand_scale_nth : forall (d : nat) (s : list A) (def : A) (i : nat),
    (0 < d)%nat -> (i < List.length s * d)%nat ->
    nth i (expand_scale d s) def = nth (i / d) s def.
  Proof.
    intros d s def i Hd. revert i. induction s as [|x s IH]; intros i Hi.
    - cbn in Hi. lia.
    - rewrite expand_scale_cons. cbn [List.length] in Hi.
      destruct (Nat.lt_ge_cases i d) as [Hlt|Hge].
      + rewrite app_nth1 by (rewrite repeat_length; exact Hlt).
        rewrite nth_repeat_lt by exact Hlt.
        rewrite Nat.div_small by exact Hlt. reflexivity.
      + rewrite app_nth2 by (rewrite repeat_length; exact Hge).
        rewrite repeat_length.
        rewrite IH by lia.
        replace i with ((i - d) + 1 * d)%nat at 2 by lia.
        rewrite Nat.div_add by lia.
        replace ((i - d) / d + 1)%nat with (S ((i - d) / d)) by lia. reflexivity.
  Qed.
End ListAlgebra.

(* per-group scale/bias (opset 18-20) with the expanded vectors = per-channel scale/bias (opset 21) *)
Lemma gn_expand_sound : forall (xhat : Z -> nat -> nat -> Z) (g c : nat) (eps : Z) (scale bias : list Z) (ch pos : nat),
  (0 < g)%nat -> (0 < c)%nat -> (c mod g = 0)%nat ->
  List.length scale = g -> List.length bias = g -> (ch < c)%nat ->
  gn21 xhat eps (expand_scale (c / g) scale) (expand_scale (c / g) bias) ch pos
  = gn18 xhat g c eps scale bias ch pos.
Proof.
  intros xhat g c eps scale bias ch pos Hg Hc Hmod Hs Hb Hch.
  assert (Hcg : c = (g * (c / g))%nat) by (apply Nat.div_exact; lia).
  assert (Hd : (0 < c / g)%nat) by (destruct (c / g)%nat; [lia|lia]).
  unfold gn21, gn18.
  rewrite !expand_scale_nth by (first [exact Hd | rewrite ?Hs, ?Hb; lia]).
  reflexivity.
Qed.

(* what happens when the vectors are NOT expanded although g <> c (adapter returned None, or raised and
   was skipped): the opset-21 reading of the node differs from the opset-20 reading *)
Lemma gn_not_expanded_differs : exists (xhat : Z -> nat -> nat -> Z) g c eps scale bias ch pos,
  (0 < g)%nat /\ (c mod g = 0)%nat /\ List.length scale = g /\ List.length bias = g /\ (ch < c)%nat /\
  gn21 xhat eps scale bias ch pos <> gn18 xhat g c eps scale bias ch pos.
Proof.
  exists (fun _ _ _ => 1), 2%nat, 4%nat, 0, [1; 3], [10; 20], 1%nat, 0%nat.
  repeat split; try (cbn; lia); vm_compute; discriminate.
Qed.

(* ---------------------------------------------------------------- GroupNormalization: the adapter *)
Definition gn_last (fx : flags) (n : node) (g d : Z) : node := last (gn_new_nodes fx n g d) n.

Lemma gn_decide_expand_inv : forall n g d,
  gn_decide n = GnExpand g d ->
  exists c s0 b0, n_shp n = [DStatic c; s0; b0] /\ get_int n "num_groups" None = Some g /\
                  g <> c /\ g <> 0 /\ d = c / g /\ s0 = DStatic g /\ b0 = DStatic g.
Proof.
  intros n g d H. unfold gn_decide in H.
  destruct (negb (present 0 n && present 1 n && present 2 n)); [discriminate|].
  destruct (n_shp n) as [|xc [|s0 [|b0 [|? ?]]]]; try discriminate.
  destruct xc as [| |c]; try discriminate.
  destruct s0 as [| |sg]; try discriminate; destruct b0 as [| |bg]; try discriminate.
  destruct (get_int n "num_groups" None) as [g'|]; [|discriminate].
  destruct (negb (g' =? c) && (g' =? sg) && (g' =? bg)) eqn:E; [|discriminate].
  destruct (g' =? 0) eqn:E0; [discriminate|].
  injection H as Hg Hd. subst g'. symmetry in Hd.
  apply andb_true_iff in E as [E E3]. apply andb_true_iff in E as [E1 E2].
  apply negb_true_iff in E1. apply Z.eqb_neq in E1. apply Z.eqb_eq in E2. apply Z.eqb_eq in E3.
  apply Z.eqb_neq in E0. subst sg bg.
  exists c, (DStatic g), (DStatic g). repeat split; auto.
Qed.

Lemma lookup_app_notin : forall name (a b : list (string * attrv)),
  lookup name a = None -> lookup name (a ++ b) = lookup name b.
Proof.
  intros name a b. induction a as [|[k v] a IH]; cbn; [reflexivity|].
  destruct (String.eqb k name); [discriminate|]. exact IH.
Qed.

(* the replacement GroupNormalization node: num_groups kept; epsilon kept iff the repair is in *)
Lemma gn_new_attrs : forall fx n g d,
  get_int (gn_last fx n g d) "num_groups" None = Some g /\
  (fx_gn_eps fx = true -> eps_of (n_attrs (gn_last fx n g d)) = eps_of (n_attrs n)).
Proof.
  intros fx n g d. unfold gn_last, gn_new_nodes. cbn [last].
  unfold mk, get_int, eps_of; cbn [n_attrs]. split.
  - destruct (fx_gn_eps fx); [|reflexivity].
    destruct (lookup "epsilon" (n_attrs n)); reflexivity.
  - intro H; rewrite H.
    destruct (lookup "epsilon" (n_attrs n)) as [v|] eqn:E; cbn; [|reflexivity].
    reflexivity.
Qed.

(* with the epsilon repair the adapter is sound wherever it fires: the replacement at opset 21 computes
   what the node computed at opset 20 (same epsilon, vectors expanded by the Constant [1; c/g]) *)
Lemma gn_adapter_sound : forall fx (xhat : Z -> nat -> nat -> Z) n g d c s0 b0 (scale bias : list Z) (ch pos : nat),
  fx_gn_eps fx = true ->
  gn_decide n = GnExpand g d -> n_shp n = [DStatic c; s0; b0] ->
  0 < g -> 0 < c -> c mod g = 0 ->
  List.length scale = Z.to_nat g -> List.length bias = Z.to_nat g -> (ch < Z.to_nat c)%nat ->
  gn21 xhat (eps_of (n_attrs (gn_last fx n g d)))
       (expand_scale (Z.to_nat d) scale) (expand_scale (Z.to_nat d) bias) ch pos
  = gn18 xhat (Z.to_nat g) (Z.to_nat c) (eps_of (n_attrs n)) scale bias ch pos.
Proof.
  intros fx xhat n g d c s0 b0 scale bias ch pos Hfx Hdec Hshp Hg Hc Hmod Hs Hb Hch.
  destruct (gn_decide_expand_inv _ _ _ Hdec) as (c' & s0' & b0' & Hshp' & _ & _ & _ & Hd & _).
  rewrite Hshp in Hshp'. inversion Hshp'; subst c' s0' b0'. subst d.
  rewrite (proj2 (gn_new_attrs fx n g (c / g)) Hfx).
  replace (Z.to_nat (c / g)) with (Z.to_nat c / Z.to_nat g)%nat
    by (rewrite Z2Nat.inj_div by lia; reflexivity).
  apply gn_expand_sound; try assumption; try lia.
  rewrite <- Z2Nat.inj_mod by lia. rewrite Hmod. reflexivity.
Qed.

(* the code as it stands drops epsilon *)
Lemma gn_eps_dropped_refuted : exists n g d,
  gn_decide n = GnExpand g d /\
  eps_of (n_attrs (gn_last flags_current n g d)) <> eps_of (n_attrs n).
Proof.
  exists (Node "GroupNormalization" true None false
               [("epsilon"%string, AFlt 1056964608); ("num_groups"%string, AInt 2)]
               [true; true; true] [DStatic 4; DStatic 2; DStatic 2] []), 2, 2.
  split; vm_compute; [reflexivity|discriminate].
Qed.

(* a node whose channel dimension is symbolic is not adapted although at run time g <> c *)
Lemma gn_symbolic_not_adapted : forall fx, exists n,
  groupnormalization_20_21 fx n = ANone /\ get_int n "num_groups" None = Some 2 /\
  n_shp n = [DSym; DStatic 2; DStatic 2].
Proof.
  intro fx.
  exists (Node "GroupNormalization" true None false [("num_groups"%string, AInt 2)]
               [true; true; true] [DSym; DStatic 2; DStatic 2] []).
  repeat split.
Qed.
(* a node whose input has no shape makes the adapter raise (and the loop skips the node) *)
Lemma gn_missing_shape_raises : forall fx, exists n,
  groupnormalization_20_21 fx n = ARaiseVCE /\ n_shp n = [DMissing; DStatic 2; DStatic 2].
Proof.
  intro fx.
  exists (Node "GroupNormalization" true None false [("num_groups"%string, AInt 2)]
               [true; true; true] [DMissing; DStatic 2; DStatic 2] []).
  split; reflexivity.
Qed.

(* ================================================================ DFT *)
Lemma dft_adapter_sound_explicit : forall fx rank n a,
  n_ins n <> [] -> get_int n "axis" None = Some a ->
  dft20_axis rank (dft_19_20 fx n) n = dft19_axis rank n.
Proof.
  intros fx rank n a Hin Ha. unfold dft_19_20, dft19_axis.
  destruct (n_ins n) eqn:Ei; [congruence|].
  assert (H1 : forall dflt, dflt <> None -> get_int n "axis" dflt = Some a).
  { intros dflt _. unfold get_int in *. destruct (lookup "axis" (n_attrs n)) as [[]|]; try discriminate; auto. }
  rewrite (H1 (Some 1)) by discriminate.
  assert (H2 : get_int n "axis" (if fx_dft_axis fx then Some 1 else None) = Some a).
  { destruct (fx_dft_axis fx); [apply H1; discriminate| exact Ha]. }
  rewrite H2. reflexivity.
Qed.

(* repaired adapter: sound for every valid node (axis attribute absent or an int) *)
Lemma dft_adapter_sound : forall fx rank n a,
  fx_dft_axis fx = true -> n_ins n <> [] -> get_int n "axis" (Some 1) = Some a ->
  dft20_axis rank (dft_19_20 fx n) n = dft19_axis rank n.
Proof.
  intros fx rank n a Hfx Hin Ha. unfold dft_19_20, dft19_axis. rewrite Hfx, Ha.
  destruct (n_ins n); [congruence|]. reflexivity.
Qed.

(* the code as it stands: without the attribute the node is re-stamped; opset 19 reads axis 1,
   opset 20 reads axis -2; these agree exactly for rank-3 inputs *)
Lemma dft_default_axis_iff : forall rank n,
  n_ins n <> [] -> lookup "axis" (n_attrs n) = None ->
  (dft20_axis rank (dft_19_20 flags_current n) n = dft19_axis rank n <-> rank = 3).
Proof.
  intros rank n Hin Hl. unfold dft_19_20, dft19_axis, get_int. rewrite Hl. cbn [fx_dft_axis flags_current].
  destruct (n_ins n); [congruence|]. cbn [dft20_axis option_map]. unfold norm_axis.
  change (-2 <? 0) with true. change (1 <? 0) with false. cbv iota.
  split; intro H; [assert (-2 + rank = 1) by congruence; lia | f_equal; lia].
Qed.

Lemma dft_default_axis_refuted : exists rank n,
  n_ins n <> [] /\ dft20_axis rank (dft_19_20 flags_current n) n <> dft19_axis rank n.
Proof.
  exists 4, (Node "DFT" true None false [] [true] [] []).
  split; [discriminate|]. vm_compute. discriminate.
Qed.

(* ================================================================ GridSample *)
Lemma gs_rename_sound : forall m k,
  gs_mode16 m = Some k ->
  gs_mode20 (match gs_rename m with Some m' => m' | None => m end) = Some k.
Proof.
  intros m k. unfold gs_mode16, gs_rename.
  destruct (String.eqb m "bilinear") eqn:E1.
  - intro H; inversion H. reflexivity.
  - destruct (String.eqb m "nearest") eqn:E2.
    + apply String.eqb_eq in E2. subst. intro H; inversion H. reflexivity.
    + destruct (String.eqb m "bicubic") eqn:E3; [|discriminate].
      intro H; inversion H. reflexivity.
Qed.

Lemma lookup_opt_attr_other : forall {A} name k (mkv : A -> attrv) (v : option A) rest,
  String.eqb k name = false -> lookup name (opt_attr k mkv v ++ rest) = lookup name rest.
Proof. intros A name k mkv [x|] rest H; cbn; [rewrite H|]; reflexivity. Qed.

(* the node standing in place of a GridSample node after the 19->20 step interpolates as before *)
Lemma gridsample_adapter_sound : forall n m k,
  gs_after n = Some m -> gs_node_mode16 n = Some k -> gs_node_mode20 m = Some k.
Proof.
  intros n m k. unfold gs_after, gridsample_19_20, gs_node_mode16, gs_node_mode20, get_str.
  destruct (n_ins n) as [|i0 [|i1 r]]; try discriminate.
  destruct (lookup "mode" (n_attrs n)) as [[z|s|l|b|]|] eqn:El; try discriminate.
  - (* explicit mode string *)
    destruct (gs_rename s) as [s'|] eqn:Er.
    + intro H; inversion H; subst m; clear H. intro Hk.
      unfold mk; cbn [n_attrs].
      rewrite lookup_opt_attr_other by reflexivity. cbn.
      pose proof (gs_rename_sound s k Hk) as Hs. rewrite Er in Hs. exact Hs.
    + intro H; inversion H; subst m; clear H. rewrite El. intro Hk.
      pose proof (gs_rename_sound s k Hk) as Hs. rewrite Er in Hs. exact Hs.
  - (* no mode attribute: default "linear" is not renamed; node re-stamped; both defaults are linear *)
    cbn. intro H; inversion H; subst m. rewrite El. auto.
Qed.

(* the other two attributes are carried over *)
Lemma gridsample_adapter_keeps_attrs : forall n m a p,
  gridsample_19_20 n = AReplace [m] ->
  get_int n "align_corners" (Some 0) = Some a -> get_str n "padding_mode" (Some "zeros"%string) = Some p ->
  get_int m "align_corners" (Some 0) = Some a /\ get_str m "padding_mode" (Some "zeros"%string) = Some p.
Proof.
  intros n m a p. unfold gridsample_19_20.
  destruct (n_ins n) as [|i0 [|i1 r]]; try discriminate.
  destruct (get_str n "mode" (Some "linear"%string)) as [s|]; [|discriminate].
  destruct (gs_rename s) as [s'|]; [|discriminate].
  intro H; inversion H; subst m; clear H. intros Ha Hp. rewrite Ha, Hp.
  unfold mk, get_int, get_str; cbn. split; reflexivity.
Qed.

(* ================================================================ adapters build flat, default-domain nodes *)
Definition flat_new (r : aresult) : Prop :=
  match r with AReplace news => Forall (fun m => n_subs m = [] /\ n_ref m = false) news | _ => True end.

Lemma modelled_flat : forall fx op k f n, modelled fx op k = Some f -> flat_new (f n).
Proof.
  intros fx op k f n. unfold modelled.
  destruct (String.eqb op "DFT" && (k =? 19)).
  { intro H; inversion H; subst f. unfold dft_19_20.
    destruct (n_ins n); cbn; auto.
    destruct (get_int n "axis" _); cbn; auto; repeat constructor. }
  destruct (String.eqb op "GridSample" && (k =? 19)).
  { intro H; inversion H; subst f. unfold gridsample_19_20.
    destruct (n_ins n) as [|? [|? ?]]; cbn; auto.
    destruct (get_str n "mode" _) as [s|]; cbn; auto.
    destruct (gs_rename s); cbn; auto; repeat constructor. }
  destruct (String.eqb op "GroupNormalization" && (k =? 20)); [|discriminate].
  intro H; inversion H; subst f. unfold groupnormalization_20_21.
  destruct (gn_decide n); cbn; auto; repeat constructor.
Qed.

Lemma adapt_of_flat : forall keys fx op k n, flat_new (adapt_of keys fx op k n).
Proof.
  intros. unfold adapt_of. destruct (existsb (key_is op k) keys); [|exact I].
  destruct (modelled fx op k) as [f|] eqn:E; [|exact I].
  eapply modelled_flat; eauto.
Qed.
