(* C09 -- the comparison used at every shape-reading site (model file, no proofs).
   Gen/ShapeUsers.v `comparisons` is regenerated from the source on every run (harness/c09_users.py, Python ast,
   fail-closed): for every module-level function / class of the anchored files that reads shape information, every
   comparison of its body in source order.  The texts are read off the NORMAL FORM of the unit (harness/c09_norm.py, each step
   with its soundness argument): parameters p0, p1, .. and locals v0, v1, .. by first binding position (nested functions:
   p<i>_<depth>), single-assignment single-use temporaries substituted, annotations / docstrings / comments gone, `not a == b`
   written NotEq, operands of == / != / is / is not sorted, isinstance against a tuple or an `or` of isinstance calls written
   once with the types sorted -- so a renamed local, an introduced or removed temporary, `b == a`, a guard clause turned into
   a nested if, an expression moved into (or back out of) a one-line module-level helper that is not itself a unit do not change
   them.  `expected` was regenerated once from the unchanged source (/repo 0d32d2b).  This file holds
     - `expected`: the list the models were written against (a changed, added or removed comparison in any of these
       units -- e.g. same_dim -> ==, a dropped isinstance guard, < -> <= -- makes `comparisons_okb` false even when no
       generator reaches the site), and
     - `dim_sites`: the comparisons that are about dims / shapes / ranks, each with the kind of comparison the models
       assume there and the C09 theorem that models it (the harness checks the names against Props/C09*.v).
   Kinds:  KSameDim / KSameShape / KKnownEqual = the unknown-aware helpers;  K*Guard = a guard that makes the following
   Python comparison a comparison of ints (or refuses unknown dims);  KPyCmpInts = Python comparison whose operands are
   ints by a guard;  KPyEqDimsGuarded = SymbolicDim.__eq__ after an unknown-dim guard;  KPyEqDimsAgainstInts = dims
   compared with ints (a SymbolicDim never equals an int);  KPyEqDimsMergeOnly = `==` that only selects which dim to
   keep;  KNameEqGuarded = names compared after a None guard;  KRank = ranks (valuation independent);  KMerge. *)
From Coq Require Import String List Bool.
Require Import OV.Gen.ShapeUsers.
Import ListNotations.
Local Open Scope string_scope.

Inductive cmp_kind := KSameDim | KSameShape | KKnownEqual | KStaticGuard | KIntGuard | KUnknownGuard | KPyCmpInts
                    | KPyEqDimsGuarded | KPyEqDimsAgainstInts | KPyEqDimsMergeOnly | KNameEqGuarded | KRank | KMerge.

Definition expected : list (string * list string) := [
  ("_constant_folding.py:_process_constant_node"%string, ["NotEq: 'Constant' ; p0.op_type"%string;
      "NotEq: 1 ; len(p0.attributes)"%string;
      "NotEq: 1 ; len(p0.outputs)"%string;
      "In: v0 ; {'value_float', 'value_floats'}"%string;
      "In: v0 ; {'value_int', 'value_ints'}"%string;
      "In: v0 ; {'value_string', 'value_strings'}"%string;
      "Eq: 'value' ; v0"%string]);
  ("_constant_folding.py:OptimizerState"%string, ["Eq: 1 ; v0.ndim"%string;
      "isinstance: v1 ; ir.Shape"%string]);
  ("_constant_folding.py:_same_shape"%string, ["isinstance: v0 ; ir.SymbolicDim"%string;
      "Eq: p0.dims ; p1.dims"%string]);
  ("_constant_folding.py:add"%string, ["NotEq: 1 ; len(v1_1)"%string;
      "isinstance: v2_1 ; int"%string;
      "isinstance: v0 ; int"%string;
      "isinstance: v1 ; int"%string;
      "isinstance: v0 ; int"%string;
      "Lt: v0 ; 0"%string;
      "isinstance: v1 ; int"%string;
      "Lt: v1 ; 0"%string]);
  ("_constant_folding.py:abs"%string, ["isinstance: v2 ; int"%string;
      "Lt: v2 ; 0"%string]);
  ("_constant_folding.py:gather"%string, ["NotEq: 0 ; _get_int_attribute(p0, 'axis', None)"%string;
      "NotEq: 1 ; v3.ndim"%string;
      "isinstance: v7 ; int"%string]);
  ("_constant_folding.py:_propagate_shape_value"%string, []);
  ("_constant_folding.py:reshape"%string, ["LtE: len(v3) ; 1"%string;
      "call _same_shape: v2 ; v3"%string]);
  ("_constant_folding.py:shape"%string, ["isinstance: v6 ; int"%string]);
  ("_constant_folding.py:size"%string, ["isinstance: v3 ; int"%string]);
  ("_constant_folding.py:identity"%string, ["call _merge_shapes: v0.shape ; v1.shape"%string]);
  ("_constant_folding.py:sequence_construct"%string, []);
  ("_constant_folding.py:concat"%string, ["Eq: 1 ; len(v0)"%string;
      "Eq: 0 ; v1_1"%string;
      "NotEq: len(v0_1) ; len(v1_1)"%string;
      "LtE,Lt: -v2_1 ; v1 ; v2_1"%string;
      "Eq: v1 % v2_1 ; v3_1"%string;
      "isinstance: v4_1 ; int"%string;
      "isinstance: v5_1 ; int"%string;
      "NotEq: v4_1 ; v5_1"%string;
      "NotEq: v4_1.value ; v5_1.value"%string;
      "In: False ; v2"%string;
      "Eq: v4 ; v7"%string;
      "NotEq: len(v0) ; len(v6)"%string;
      "Eq: 1 ; len(v6)"%string;
      "NotEq: 0 ; v1"%string]);
  ("_constant_folding.py:expand"%string, ["NotEq: 2 ; len(p0.inputs)"%string;
      "call _same_shape: v1 ; v3"%string;
      "NotEq: 1 ; v2.ndim"%string;
      "Eq: tuple(v2.tolist()) ; v1.dims"%string]);
  ("_constant_folding.py:concat_from_sequence"%string, ["Eq: 0 ; v3"%string;
      "Eq: 1 ; v3"%string]);
  ("_constant_folding.py:split_to_sequence"%string, ["Eq: 1 ; len(p0.inputs)"%string;
      "Lt: v3 ; 0"%string;
      "Lt: v3 ; 0"%string;
      "GtE: v3 ; v5"%string;
      "call is_static:  @v1.shape"%string;
      "Eq: 1 ; len(v7)"%string;
      "isinstance: v8 ; int"%string;
      "Eq: 1 ; v6.ndim"%string;
      "Eq: 0 ; v6.ndim"%string;
      "isinstance: v8 ; int"%string;
      "LtE: v13 ; 0"%string;
      "LtE: v8 ; 0"%string;
      "NotEq: 0 ; v8 % v13"%string;
      "Eq: 0 ; v16"%string]);
  ("_constant_folding.py:sequence_at"%string, ["NotEq: 1 ; v4.size"%string]);
  ("_constant_folding.py:_merge_shapes"%string, ["Eq: p0_1 ; p1_1"%string;
      "isinstance: p0_1 ; ir.SymbolicDim"%string;
      "isinstance: p1_1 ; ir.SymbolicDim"%string;
      "NotEq: len(p0) ; len(p1)"%string]);
  ("_constant_folding.py:FoldConstantsPass"%string, ["In: v7.name ; v0"%string;
      "call _merge_shapes: v7.shape ; v9"%string;
      "In: p2.dtype.kind ; ('O', 'S', 'U')"%string;
      "Gt: p2.size ; self.output_size_limit"%string;
      "Eq: 1 ; len(v2.uses())"%string;
      "Gt: p2.size - v1 ; 0"%string;
      "Eq: 'Constant' ; p0.op_type"%string;
      "NotIn: p0.domain ; self._opset_imports"%string;
      "Eq: 'Constant' ; p0.op_type"%string;
      "In: p0.op_type ; _NON_DETERMINISTIC_OPS"%string;
      "Is: False ; v11"%string;
      "Eq: p0.op_type ; v12"%string;
      "Gt: v15.size ; self.input_size_limit"%string;
      "Eq: len(p0.inputs) ; len(v14)"%string;
      "In: (p0.domain, p0.op_type) ; _DEFAULT_ALWAYS_FOLD_OPS"%string;
      "Eq: 1 ; len(v16.consumers())"%string;
      "Eq: ir.AttributeType.TENSOR ; p0_1.type"%string;
      "Eq: 1 ; len(p0.outputs)"%string;
      "Eq: ir.AttributeType.GRAPH ; p0.type"%string;
      "Eq: ir.AttributeType.GRAPHS ; p0.type"%string]);
  ("_basic_rules.py:SqueezeReshape"%string, ["call has_rank: p1 ; 1 @ir_utils"%string]);
  ("_basic_rules.py:ExpandIdentity"%string, ["NotEq: tuple(p2.const_value.numpy().tolist()) ; v1.dims"%string]);
  ("_basic_rules.py:ReshapeReshape"%string, ["isinstance: v4 ; int"%string;
      "Gt: v4 ; 0"%string;
      "Eq: 1 ; self._allowzero"%string;
      "Eq: 0 ; self._new_shape"%string;
      "Eq: 0 ; self._new_shape"%string;
      "Lt: self._new_shape ; 0"%string;
      "Gt: np.count_nonzero(self._new_shape == 0) ; 1"%string;
      "Eq: 0 ; self._new_shape"%string;
      "Eq: 0 ; self._new_shape"%string]);
  ("_basic_rules.py:SlicesSplit"%string, ["NotEq: p4.const_value.numpy().tolist() ; p7.const_value.numpy().tolist()"%string;
      "NotEq: 1 ; len(v1)"%string;
      "NotEq: -1 ; v1[0]"%string;
      "NotEq: v1[0] ; v2 - 1"%string;
      "NotEq: [0] ; p2.const_value.numpy().tolist()"%string;
      "NotEq: v3[0] ; v4[0]"%string;
      "isinstance: v7 ; int"%string;
      "NotEq: v5[0] ; v7"%string;
      "NotEq: v4[0] ; v7 // 2"%string;
      "LtE: v7 ; 0"%string;
      "NotEq: 0 ; v7 % 2"%string;
      "Lt: p0.graph_or_function.opset_imports.get('', 0) ; 18"%string]);
  ("_basic_rules.py:Flatten2Reshape"%string, ["Lt: v1 ; 0"%string;
      "Eq: 0 ; v1"%string;
      "Eq: 1 ; v1"%string;
      "Eq: v1 ; v2"%string;
      "isinstance: v6 ; int"%string;
      "isinstance: v6 ; int"%string;
      "isinstance: v6 ; int"%string;
      "Gt: np.count_nonzero(self._new_shape == -1) ; 1"%string;
      "Eq: -1 ; self._new_shape"%string;
      "isinstance: v6 ; int"%string;
      "Eq: 0 ; v6"%string]);
  ("_collapse_slices.py:_check_if_redundant_slice"%string, ["NotEq: 1 ; v0.numpy().size"%string;
      "NotEq: 1 ; v1.numpy().size"%string;
      "NotEq: 1 ; v2.numpy().size"%string;
      "NotEq: 1 ; v3.numpy().size"%string;
      "NotEq: 1 ; v3.numpy().item()"%string;
      "NotEq: 0 ; v0.numpy().item()"%string;
      "Eq: _INT64_MAX ; v1.numpy().item()"%string;
      "call is_dynamic: v2.numpy().item() @p1.shape"%string;
      "Lt: v1.numpy().item() ; p1.shape[v2.numpy().item()]"%string]);
  ("_collapse_slices.py:_same_shape"%string, ["Eq: 1 ; v1"%string;
      "call same_shape: p1.shape ; p2.shape @_ir_utils"%string]);
  ("_materialize_reshape_shape.py:MaterializeReshapeShape"%string, ["isinstance: v4 ; int"%string;
      "Eq: 1 ; v3"%string;
      "isinstance: v4 ; int"%string;
      "Eq: 0 ; v4"%string;
      "LtE: v3 ; 1"%string;
      "isinstance: v4 ; int"%string]);
  ("_remove_expand_before_binary_op.py:_known_equal"%string, ["isinstance: p0 ; ir.SymbolicDim"%string;
      "isinstance: p1 ; ir.SymbolicDim"%string;
      "Eq: p0 ; p1"%string]);
  ("_remove_expand_before_binary_op.py:_compute_broadcast_shape"%string, ["GtE: v5 ; 0"%string;
      "GtE: v7 ; 0"%string]);
  ("_remove_expand_before_binary_op.py:_check_dims_sufficient"%string, ["Gt: v1 ; max(v2, v3)"%string;
      "isinstance: v6 ; int"%string;
      "Eq: 1 ; v6"%string;
      "GtE: v7 ; 0"%string;
      "call _known_equal: v8 ; v6"%string;
      "GtE: v9 ; 0"%string;
      "call _known_equal: v10 ; v6"%string]);
  ("_remove_expand_before_binary_op.py:_check_expand_removable"%string, ["Gt: v8 ; max(v3, v4)"%string;
      "Eq: 1 ; v11"%string;
      "GtE: v12 ; 0"%string;
      "isinstance: v13 ; int"%string;
      "Eq: v11 ; v13"%string;
      "GtE: v14 ; 0"%string;
      "isinstance: v15 ; int"%string;
      "Eq: v11 ; v15"%string;
      "Eq: len(v17) ; v16.rank()"%string;
      "call _known_equal: v18 ; v19"%string]);
  ("_redundant_scatter_nd.py:ScatterAllDynamic"%string, ["isinstance: v1 ; int"%string;
      "Eq: 'Shape' ; v2.op_type"%string;
      "In: 'end' ; v2.attributes"%string;
      "call same_dim: v4 ; v5[0] @_ir_utils"%string]);
  ("_redundant_scatter_nd.py:ScatterAllStatic"%string, ["NotEq: 'none' ; p0.root.attributes.get_string('reduction', 'none')"%string;
      "Eq: 0 ; len(p1.shape)"%string;
      "isinstance: p1.shape[0] ; int"%string;
      "call same_shape: p1.shape ; p3.shape @_ir_utils"%string;
      "NotEq: p2.const_value.numpy().tolist() ; v1"%string]);
  ("_broadcast_to_matmul.py:check_if_not_need_reshape"%string, ["NotEq: 1 ; len(v2.shape)"%string;
      "isinstance: v3 ; ir.SymbolicDim"%string;
      "isinstance: v3 ; ir.SymbolicDim"%string;
      "Eq: 0 ; v4"%string;
      "Eq: 0 ; v5"%string;
      "Lt: v4 ; 2"%string;
      "Lt: v5 ; 2"%string;
      "NotEq: v0[-1] ; v1[-2]"%string;
      "Lt: v5 ; 2"%string;
      "NotEq: v0[-1] ; v1[-1]"%string;
      "Eq: 0 ; v11"%string;
      "NotEq: v12 ; v13"%string;
      "NotIn: v12 ; {1, v13}"%string;
      "Gt: v11 ; 0"%string;
      "Gt: v4 ; v5"%string;
      "Eq: 2 ; v5"%string;
      "Eq: 1 ; v1[-1]"%string;
      "Eq: 2 ; v4"%string;
      "Eq: 1 ; v0[0]"%string;
      "NotEq: p3 ; v10"%string]);
  ("_ir_utils.py:has_rank"%string, ["Eq: p1 ; v0.rank()"%string]);
  ("_ir_utils.py:broadcast_keeps_rank"%string, ["LtE: v0 ; 1"%string;
      "LtE: v0 ; p1.shape.rank()"%string]);
  ("_ir_utils.py:get_dim"%string, ["Lt: p1 ; 0"%string;
      "Lt: p1 ; 0"%string;
      "GtE: p1 ; v0.rank()"%string]);
  ("_ir_utils.py:same_shape"%string, ["call has_unknown_dim:  @p0"%string;
      "call has_unknown_dim:  @p1"%string;
      "Eq: p0 ; p1"%string]);
  ("_ir_utils.py:same_dim"%string, ["IsNot: type(p0) ; type(p1)"%string;
      "isinstance: p0 ; int"%string;
      "isinstance: p1 ; int"%string;
      "Eq: p0 ; p1"%string;
      "isinstance: p0 ; ir.SymbolicDim"%string;
      "isinstance: p1 ; ir.SymbolicDim"%string;
      "Eq: p0.value ; p1.value"%string])
].

(* (unit, comparison, kind assumed by the models, theorem) *)
Definition dim_sites : list (string * string * cmp_kind * string) := [
  ("_redundant_scatter_nd.py:ScatterAllDynamic"%string, "call same_dim: v4 ; v5[0] @_ir_utils"%string, KSameDim, "C09_scatter_dyn_sound"%string);
  ("_redundant_scatter_nd.py:ScatterAllStatic"%string, "call same_shape: p1.shape ; p3.shape @_ir_utils"%string, KSameShape, "C09_scatter_static_sound"%string);
  ("_redundant_scatter_nd.py:ScatterAllStatic"%string, "isinstance: p1.shape[0] ; int"%string, KIntGuard, "C09_scatter_static_sound"%string);
  ("_collapse_slices.py:_same_shape"%string, "call same_shape: p1.shape ; p2.shape @_ir_utils"%string, KSameShape, "C09_iu_same_shape_sound"%string);
  ("_collapse_slices.py:_check_if_redundant_slice"%string, "call is_dynamic: v2.numpy().item() @p1.shape"%string, KStaticGuard, "C09_collapse_slice1_sound"%string);
  ("_collapse_slices.py:_check_if_redundant_slice"%string, "Lt: v1.numpy().item() ; p1.shape[v2.numpy().item()]"%string, KPyCmpInts, "C09_collapse_slice1_sound"%string);
  ("_constant_folding.py:reshape"%string, "call _same_shape: v2 ; v3"%string, KSameShape, "C09_reshape_identity_sound"%string);
  ("_constant_folding.py:expand"%string, "call _same_shape: v1 ; v3"%string, KSameShape, "C09_expand_identity_sound"%string);
  ("_constant_folding.py:expand"%string, "Eq: tuple(v2.tolist()) ; v1.dims"%string, KPyEqDimsAgainstInts, "C09_expand_identity_const_sound"%string);
  ("_constant_folding.py:_same_shape"%string, "isinstance: v0 ; ir.SymbolicDim"%string, KUnknownGuard, "C09_cf_same_shape_sound"%string);
  ("_constant_folding.py:_same_shape"%string, "Eq: p0.dims ; p1.dims"%string, KPyEqDimsGuarded, "C09_cf_same_shape_sound"%string);
  ("_constant_folding.py:identity"%string, "call _merge_shapes: v0.shape ; v1.shape"%string, KMerge, "C09_merge_shapes_sound"%string);
  ("_constant_folding.py:_merge_shapes"%string, "Eq: p0_1 ; p1_1"%string, KPyEqDimsMergeOnly, "C09_merge_shapes_sound"%string);
  ("_constant_folding.py:_merge_shapes"%string, "isinstance: p0_1 ; ir.SymbolicDim"%string, KIntGuard, "C09_merge_dims_keeps_int"%string);
  ("_constant_folding.py:_merge_shapes"%string, "isinstance: p1_1 ; ir.SymbolicDim"%string, KIntGuard, "C09_merge_dims_keeps_int"%string);
  ("_constant_folding.py:concat"%string, "Eq: 0 ; v1_1"%string, KPyEqDimsAgainstInts, "C09_concat_drop_shape_sound"%string);
  ("_constant_folding.py:concat"%string, "isinstance: v4_1 ; int"%string, KIntGuard, "C09_concat_drop_fixed_accepts_exactly"%string);
  ("_constant_folding.py:concat"%string, "isinstance: v5_1 ; int"%string, KIntGuard, "C09_concat_drop_fixed_accepts_exactly"%string);
  ("_constant_folding.py:concat"%string, "NotEq: v4_1 ; v5_1"%string, KPyCmpInts, "C09_concat_drop_fixed_accepts_exactly"%string);
  ("_constant_folding.py:concat"%string, "NotEq: v4_1.value ; v5_1.value"%string, KNameEqGuarded, "C09_keq_except_sound"%string);
  ("_constant_folding.py:size"%string, "isinstance: v3 ; int"%string, KIntGuard, "C09_size_fold_static_iff"%string);
  ("_constant_folding.py:shape"%string, "isinstance: v6 ; int"%string, KIntGuard, "C09_shape_value_constant_fold_sound"%string);
  ("_constant_folding.py:gather"%string, "isinstance: v7 ; int"%string, KIntGuard, "C09_shape_value_constant_fold_sound"%string);
  ("_constant_folding.py:abs"%string, "isinstance: v2 ; int"%string, KIntGuard, "C09_abs_identity_sound"%string);
  ("_constant_folding.py:abs"%string, "Lt: v2 ; 0"%string, KPyCmpInts, "C09_abs_identity_sound"%string);
  ("_constant_folding.py:add"%string, "isinstance: v0 ; int"%string, KIntGuard, "C09_shape_value_nonneg"%string);
  ("_constant_folding.py:add"%string, "Lt: v0 ; 0"%string, KPyCmpInts, "C09_shape_value_nonneg"%string);
  ("_constant_folding.py:add"%string, "Lt: v1 ; 0"%string, KPyCmpInts, "C09_shape_value_nonneg"%string);
  ("_constant_folding.py:split_to_sequence"%string, "call is_static:  @v1.shape"%string, KStaticGuard, "C09_static_shape_valuation_independent"%string);
  ("_constant_folding.py:split_to_sequence"%string, "isinstance: v8 ; int"%string, KIntGuard, "C09_split_scalar_sound"%string);
  ("_constant_folding.py:split_to_sequence"%string, "LtE: v13 ; 0"%string, KPyCmpInts, "C09_split_scalar_emitted_accepts_iff"%string);
  ("_constant_folding.py:split_to_sequence"%string, "NotEq: 0 ; v8 % v13"%string, KPyCmpInts, "C09_split_scalar_emitted_accepts_iff"%string);
  ("_constant_folding.py:split_to_sequence"%string, "Eq: 0 ; v16"%string, KPyCmpInts, "C09_split_vector_keepdims0_refuted"%string);
  ("_constant_folding.py:sequence_at"%string, "NotEq: 1 ; v4.size"%string, KPyCmpInts, "C09_seq_at_accepts_iff"%string);
  ("_basic_rules.py:SqueezeReshape"%string, "call has_rank: p1 ; 1 @ir_utils"%string, KRank, "C09_squeeze_reshape_1d_sound"%string);
  ("_basic_rules.py:ExpandIdentity"%string, "NotEq: tuple(p2.const_value.numpy().tolist()) ; v1.dims"%string, KPyEqDimsAgainstInts, "C09_expand_identity_const_sound"%string);
  ("_basic_rules.py:ReshapeReshape"%string, "isinstance: v4 ; int"%string, KIntGuard, "C09_reshape_reshape_annotated_sound"%string);
  ("_basic_rules.py:ReshapeReshape"%string, "Gt: v4 ; 0"%string, KPyCmpInts, "C09_reshape_reshape_annotated_sound"%string);
  ("_basic_rules.py:ReshapeReshape"%string, "Eq: 1 ; self._allowzero"%string, KPyCmpInts, "C09_reshape_reshape_accepts_iff"%string);
  ("_basic_rules.py:ReshapeReshape"%string, "Lt: self._new_shape ; 0"%string, KPyCmpInts, "C09_reshape_reshape_zero_copy_exact"%string);
  ("_basic_rules.py:ReshapeReshape"%string, "Gt: np.count_nonzero(self._new_shape == 0) ; 1"%string, KPyCmpInts, "C09_reshape_reshape_zero_copy_exact"%string);
  ("_basic_rules.py:SlicesSplit"%string, "isinstance: v7 ; int"%string, KIntGuard, "C09_slices_split_sound"%string);
  ("_basic_rules.py:SlicesSplit"%string, "NotEq: v5[0] ; v7"%string, KPyCmpInts, "C09_slices_split_sound"%string);
  ("_basic_rules.py:SlicesSplit"%string, "NotEq: v4[0] ; v7 // 2"%string, KPyCmpInts, "C09_slices_split_last_dim_necessary"%string);
  ("_basic_rules.py:SlicesSplit"%string, "LtE: v7 ; 0"%string, KPyCmpInts, "C09_slices_split_accepts_iff"%string);
  ("_basic_rules.py:SlicesSplit"%string, "NotEq: 0 ; v7 % 2"%string, KPyCmpInts, "C09_slices_split_sound"%string);
  ("_basic_rules.py:SlicesSplit"%string, "NotEq: v1[0] ; v2 - 1"%string, KRank, "C09_slices_split_accepts_iff"%string);
  ("_basic_rules.py:Flatten2Reshape"%string, "Eq: 0 ; v6"%string, KPyCmpInts, "C09_flatten_target_correct_iff"%string);
  ("_basic_rules.py:Flatten2Reshape"%string, "Eq: v1 ; v2"%string, KRank, "C09_flatten_target_correct_iff"%string);
  ("_materialize_reshape_shape.py:MaterializeReshapeShape"%string, "isinstance: v4 ; int"%string, KIntGuard, "C09_materialize_reshape_sound"%string);
  ("_materialize_reshape_shape.py:MaterializeReshapeShape"%string, "Eq: 0 ; v4"%string, KPyCmpInts, "C09_materialize_reshape_sound"%string);
  ("_materialize_reshape_shape.py:MaterializeReshapeShape"%string, "LtE: v3 ; 1"%string, KPyCmpInts, "C09_materialize_reshape_sound"%string);
  ("_remove_expand_before_binary_op.py:_known_equal"%string, "isinstance: p0 ; ir.SymbolicDim"%string, KUnknownGuard, "C09_expand_binop_shape_sound"%string);
  ("_remove_expand_before_binary_op.py:_known_equal"%string, "isinstance: p1 ; ir.SymbolicDim"%string, KUnknownGuard, "C09_expand_binop_shape_sound"%string);
  ("_remove_expand_before_binary_op.py:_known_equal"%string, "Eq: p0 ; p1"%string, KPyEqDimsGuarded, "C09_expand_binop_shape_sound"%string);
  ("_remove_expand_before_binary_op.py:_check_dims_sufficient"%string, "call _known_equal: v8 ; v6"%string, KKnownEqual, "C09_expand_binop_s2_sound"%string);
  ("_remove_expand_before_binary_op.py:_check_dims_sufficient"%string, "call _known_equal: v10 ; v6"%string, KKnownEqual, "C09_expand_binop_s2_sound"%string);
  ("_remove_expand_before_binary_op.py:_check_dims_sufficient"%string, "Gt: v1 ; max(v2, v3)"%string, KRank, "C09_expand_binop_s2_sound"%string);
  ("_remove_expand_before_binary_op.py:_check_expand_removable"%string, "Gt: v8 ; max(v3, v4)"%string, KRank, "C09_expand_binop_s1_sound"%string);
  ("_remove_expand_before_binary_op.py:_check_expand_removable"%string, "isinstance: v13 ; int"%string, KIntGuard, "C09_expand_binop_s1_sound"%string);
  ("_remove_expand_before_binary_op.py:_check_expand_removable"%string, "Eq: v11 ; v13"%string, KPyCmpInts, "C09_expand_binop_s1_sound"%string);
  ("_remove_expand_before_binary_op.py:_check_expand_removable"%string, "isinstance: v15 ; int"%string, KIntGuard, "C09_expand_binop_s1_sound"%string);
  ("_remove_expand_before_binary_op.py:_check_expand_removable"%string, "Eq: v11 ; v15"%string, KPyCmpInts, "C09_expand_binop_s1_sound"%string);
  ("_remove_expand_before_binary_op.py:_check_expand_removable"%string, "call _known_equal: v18 ; v19"%string, KKnownEqual, "C09_expand_binop_s3_sound"%string);
  ("_broadcast_to_matmul.py:check_if_not_need_reshape"%string, "isinstance: v3 ; ir.SymbolicDim"%string, KStaticGuard, "C09_b2m_guard_static"%string);
  ("_broadcast_to_matmul.py:check_if_not_need_reshape"%string, "NotEq: v0[-1] ; v1[-2]"%string, KPyCmpInts, "C09_b2m_check_sound"%string);
  ("_broadcast_to_matmul.py:check_if_not_need_reshape"%string, "NotIn: v12 ; {1, v13}"%string, KPyCmpInts, "C09_b2m_check_sound"%string);
  ("_broadcast_to_matmul.py:check_if_not_need_reshape"%string, "NotEq: p3 ; v10"%string, KPyCmpInts, "C09_b2m_check_sound"%string);
  ("_ir_utils.py:has_rank"%string, "Eq: p1 ; v0.rank()"%string, KRank, "C09_rank_valuation_independent"%string);
  ("_ir_utils.py:broadcast_keeps_rank"%string, "LtE: v0 ; p1.shape.rank()"%string, KRank, "C09_broadcast_keeps_rank_sound"%string);
  ("_ir_utils.py:same_shape"%string, "call has_unknown_dim:  @p0"%string, KUnknownGuard, "C09_iu_same_shape_sound"%string);
  ("_ir_utils.py:same_shape"%string, "call has_unknown_dim:  @p1"%string, KUnknownGuard, "C09_iu_same_shape_sound"%string);
  ("_ir_utils.py:same_shape"%string, "Eq: p0 ; p1"%string, KPyEqDimsGuarded, "C09_iu_same_shape_sound"%string);
  ("_ir_utils.py:same_dim"%string, "IsNot: type(p0) ; type(p1)"%string, KIntGuard, "C09_same_dim_sound"%string);
  ("_ir_utils.py:same_dim"%string, "Eq: p0 ; p1"%string, KPyCmpInts, "C09_same_dim_sound"%string);
  ("_ir_utils.py:same_dim"%string, "Eq: p0.value ; p1.value"%string, KNameEqGuarded, "C09_same_dim_sound"%string);
  ("_ir_utils.py:same_dim"%string, "isinstance: p0 ; ir.SymbolicDim"%string, KUnknownGuard, "C09_same_dim_sound"%string)
].

Fixpoint lookup (k : string) (t : list (string * list string)) : option (list string) :=
  match t with [] => None | (k', v) :: t' => if String.eqb k k' then Some v else lookup k t' end.
Fixpoint list_eqb (a b : list string) : bool :=
  match a, b with [] , [] => true | x :: a', y :: b' => String.eqb x y && list_eqb a' b' | _, _ => false end.
(* units repaired in /repo by a fix: commit that the models follow (see the variant probes of the harness): `expected` lists the
   repaired unit, the comparison list of the unit as it was before the repair is accepted as well (regenerated from that commit's
   parent with the same normal form; an added local shifts the v<i> numbering of the later ones) *)
Definition alternatives : list (string * list string) := [
  (* before /repo 88de348 (constant folding leaves SplitToSequence alone when the split axis is empty): no `split_dimension_size <= 0` refusal *)
  ("_constant_folding.py:split_to_sequence"%string, ["Eq: 1 ; len(p0.inputs)"%string;
      "Lt: v3 ; 0"%string;
      "Lt: v3 ; 0"%string;
      "GtE: v3 ; v5"%string;
      "call is_static:  @v1.shape"%string;
      "Eq: 1 ; len(v7)"%string;
      "isinstance: v8 ; int"%string;
      "Eq: 1 ; v6.ndim"%string;
      "Eq: 0 ; v6.ndim"%string;
      "isinstance: v8 ; int"%string;
      "LtE: v13 ; 0"%string;
      "NotEq: 0 ; v8 % v13"%string;
      "Eq: 0 ; v16"%string]);
  (* before /repo 9b4bde9 (ScatterAllDynamic declines when the matched Shape node has an end attribute) *)
  ("_redundant_scatter_nd.py:ScatterAllDynamic"%string, ["isinstance: v1 ; int"%string;
      "call same_dim: v3 ; v4[0] @_ir_utils"%string])
].
Definition unit_eqb (k : string) (x y : list string) : bool :=
  list_eqb x y || match lookup k alternatives with Some z => list_eqb z y | None => false end.
Fixpoint table_eqb (a b : list (string * list string)) : bool :=
  match a, b with
  | [], [] => true
  | (k, x) :: a', (k', y) :: b' => String.eqb k k' && unit_eqb k x y && table_eqb a' b'
  | _, _ => false
  end.
Definition site_present (gen : list (string * list string)) (s : string * string * cmp_kind * string) : bool :=
  let '(u, t, _, _) := s in match lookup u gen with Some l => existsb (String.eqb t) l | None => false end.
Definition comparisons_okb : bool := table_eqb expected comparisons && forallb (site_present comparisons) dim_sites.

(* for the harness' message: units whose comparison list differs (or that are new / gone), sites that are gone *)
Definition changed_units : list string :=
  map fst (filter (fun e => match lookup (fst e) expected with Some l => negb (unit_eqb (fst e) l (snd e)) | None => true end) comparisons)
  ++ map (fun e => "gone:" ++ fst e) (filter (fun e => match lookup (fst e) comparisons with Some _ => false | None => true end) expected).
Definition missing_sites : list string :=
  map (fun s => let '(u, t, _, _) := s in u ++ " :: " ++ t) (filter (fun s => negb (site_present comparisons s)) dim_sites).
Definition cited_sites : list string := map (fun s => let '(_, _, _, th) := s in th) dim_sites.
Definition n_sites : nat := List.length dim_sites.
Definition n_comparisons : nat := List.length (flat_map snd comparisons).
