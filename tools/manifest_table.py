# one reg(...) per property whose check exists; NA holds specific not_applicable reasons
NA = {}
reg("C05",
    "Coq proof (lia / lattice lemmas) of each modelled rule's rewrite identity + correspondence of rule outputs by vm_compute + ORT/reference oracle",
    "Machine-checked theorems (Coq) that the replacement computed by each modelled rewrite rule equals the matched pattern for every parameter value and every input; the Gallina model of the rule's check/rewrite arithmetic is tied to the Python by running the real rule on generated host models and comparing what it emitted with the model inside Coq, and the property itself is observed with onnx.reference and onnxruntime on every instance. Per-rule: rules without a theorem are listed in the evidence as not covered.",
    "Coq kernel; hand-written Gallina models of the rules (coq/Rules) tied by correspondence only on the generated instances; integer-exact data (NaN/rounding outside the model); ONNX operator documents for Clip/Relu/Min/Max as transcribed; harness and onnx/onnxruntime as oracles.")
