(* C19 model: the fusion pipeline of onnxscript/rewriter/ort_fusions/_core.py (_pre_optimize, fuse_xformers, optimize_for_ort).
   The stage lists themselves are GENERATED from the source (Gen/C19Pipeline.v, harness/c19_pipeline.py, fail-closed).
   Here: the stage type, the table saying on what each stage's soundness rests (its theorems in Props/C19*.v, or a NAMED
   hypothesis when the stage belongs to another property or is not modelled), the shape predicate [pipeline_ok] with the order
   constraints that matter, and the abstract runner used by the composition theorem.  No proofs in this file. *)
From Coq Require Import List String Bool.
Import ListNotations.
Local Open Scope string_scope.

Inductive kind := Fuse | Guarded | Pass | Call.
Record stage := mkStage { s_kind : kind; s_name : string; s_kwargs : list (string * string) }.

Fixpoint mem (x : string) (l : list string) : bool := match l with [] => false | y :: t => String.eqb x y || mem x t end.
Fixpoint lookup_kw (k : string) (l : list (string * string)) : option string :=
  match l with [] => None | (a, b) :: t => if String.eqb k a then Some b else lookup_kw k t end.
Definition kw_is (k v : string) (s : stage) : bool :=
  match lookup_kw k (s_kwargs s) with Some w => String.eqb v w | None => false end.
Fixpoint index_of (x : string) (l : list string) (i : nat) : option nat :=
  match l with [] => None | y :: t => if String.eqb x y then Some i else index_of x t (S i) end.
(* both occur, the first occurrence of a strictly before the first occurrence of b *)
Definition before (a b : string) (l : list string) : bool :=
  match index_of a l 0, index_of b l 0 with Some i, Some j => Nat.ltb i j | _, _ => false end.
Fixpoint find_stage (n : string) (l : list stage) : option stage :=
  match l with [] => None | s :: t => if String.eqb n (s_name s) then Some s else find_stage n t end.
Fixpoint last_name (l : list stage) : string := match l with [] => "" | [s] => s_name s | _ :: t => last_name t end.
Fixpoint str_list_eqb (a b : list string) : bool :=
  match a, b with [], [] => true | x :: a', y :: b' => String.eqb x y && str_list_eqb a' b' | _, _ => false end.

(* ---- on what each stage's soundness rests.  (stage name, theorems of Props/C19*.v) *)
Definition proved_stages : list (string * string) :=
  [("erf_gelu", "C19_erf_gelu_identity");
   ("gelu", "C19_gelu_erf_identity C19_gelu_tanh_identity C19_fastgelu_kernel_form");
   ("bias_gelu", "C19_bias_gelu_identity C19_bias_gelu_check_sufficient");
   ("rms_normalization", "C19_rms_norm_identity C19_rms_check_sound C19_rms_rank_guard_sufficient");
   ("skip_layer_normalization", "C19_skip_layer_norm_identity C19_skip_check_sufficient");
   ("skip_rms_normalization", "C19_skip_rms_norm_identity C19_skip_check_sufficient");
   ("rotary_embedding", "replaced by a FUNCTION whose body is the matched pattern (as_function): equal by construction; C19_rotary_half_rotation C19_rot_check_bounds for its consumers");
   ("cos_sin_cache", "C19_cos_sin_cache_identity C19_cache_gather C19_cache_rows_fixed C19_cs_check_sound; known C19:cos_sin_cache:position-ids-batch-broadcast = C19_cs_position_batch_differs_iff");
   ("partial_rotary_embedding", "C19_partial_rotary_identity");
   ("sdpa", "C19_sdpa_scale_variants C19_sdpa_check_fixed_lowerable C19_sdpa_mask_strict_static_dims");
   ("gqa", "C19_gqa_repeat_kv C19_causal_mask_is_gqa_causality C19_gqa_seqlens C19_gqa_check_head16_sufficient; known C19:gqa:non-causal-mask-accepted = C19_gqa_check_mask_refuted");
   ("mha1", "C19_mha_split_merge C19_concat_seq_mat C19_mha_check_sufficient C19_mha_check_strict_mask_sufficient; known C19:mha:output-reshape-not-checked = C19_mha_output_reshape_same_iff");
   ("mha2", "C19_mha_split_merge C19_mha_check_sufficient C19_mha_check_strict_mask_sufficient C19_mask_broadcast_expand; known as for mha1");
   ("attention", "C19_attention_fusion_identity C19_attention_fusion_identity_slice C19_attention_fusion_identity_past C19_att_check_sufficient_noslice C19_att_check_sufficient_slice");
   ("sdpa_via_mha", "C19_sdpa_lowering_sound");
   ("ort_pattern_rewrite_rules", "softmax: C19_softmax_upcast_removal C19_softmax_check_sufficient; instance_to_group_normalization: C19_instance_to_group_norm_identity C19_gn_check_affine_sufficient; fused_matmul: C19_fused_matmul_div C19_fused_matmul_transpose C19_matmul_transpose_sound C19_fused_matmul_batch_transpose")].
(* NAMED hypotheses: stages of other properties, or not modelled (direct oracle only) *)
Definition assumed_stages : list (string * string) :=
  [("ShapeInferencePass", "H_shape_inference: onnx shape inference only annotates (changes no node)");
   ("optimize", "H_optimize: onnxscript.optimizer.optimize preserves the denotation (properties C03 / C04 / C05); it also inlines the _fusion functions no later fusion consumed");
   ("shape_optimization", "H_shape_optimization: ort_fusions/shape_optimization.py rules (not modelled; direct oracle)");
   ("CommonSubexpressionEliminationPass", "H_cse: onnx_ir CSE pass (property C03)");
   ("gemm_to_matmul_add", "H_gemm_to_matmul_add: rules/common/_gemm_to_matmul_add.py (not modelled here; direct oracle)");
   ("packed_qkv_for_gqa", "H_gqa_packed_qkv: gqa_packed_qkv.py (not modelled; no generated instance)");
   ("mha_scale", "H_mha_scale: mha_scale.py folds a query scale into the scale attribute (not modelled; direct oracle)");
   ("mha_bias", "H_mha_bias: mha_bias.py moves the Add of the projections' biases into the packed bias operand (the operand semantics is mha_with_bias of Attention.v; the rule itself: direct oracle)");
   ("LiftConstantsToInitializersPass", "H_lift_constants: onnx_ir pass (property C03)");
   ("RemoveInitializersFromInputsPass", "H_remove_initializers_from_inputs: onnx_ir pass; changes the model's INTERFACE (inputs that have initializers stop being inputs), not the function of the remaining inputs");
   ("ClearMetadataAndDocStringPass", "H_clear_metadata: onnx_ir pass, metadata only")].
Definition known_names : list string := map fst proved_stages ++ map fst assumed_stages.

(* ---- expansion of the calls _pre_optimize / fuse_xformers *)
Definition is_call (n : string) (s : stage) : bool := match s_kind s with Call => String.eqb n (s_name s) | _ => false end.
Definition expand1 (n : string) (body l : list stage) : list stage := flat_map (fun s => if is_call n s then body else [s]) l.
Definition whole_pipeline (pre fx ofo : list stage) : list stage := expand1 "fuse_xformers" (expand1 "_pre_optimize" pre fx) ofo.

(* ---- the shape the composition argument needs.  Order constraints and why:
   - _pre_optimize first and starting with shape inference: every check reads shapes;
   - rms_normalization before skip_rms_normalization: the skip pattern matches the SimplifiedLayerNormalization node the former creates;
   - rotary_embedding < cos_sin_cache < CSE < partial_rotary_embedding: cos_sin_cache matches the _fusion RotaryEmbedding function call,
     CSE merges the per-head caches, partial rotary matches the contrib RotaryEmbedding cos_sin_cache creates;
   - cos_sin_cache before gqa / mha1 / mha2: their rotary variants match the contrib RotaryEmbedding;
   - sdpa (with apply_shape_inference=True) before gqa, mha1, mha2: they match the intermediate SDPA node and read its shapes;
   - mha1 (with past) before mha2; both before mha_scale, mha_bias, attention; mha_bias before attention (attention binds the packed bias);
     mha_bias and attention only run when an MHA was fused;
   - sdpa_via_mha after gqa / mha1 / mha2 / attention: it lowers every SDPA node nobody consumed (C19_sdpa_check_fixed_lowerable: it can);
   - the last stage of fuse_xformers is optimize (inlines the unconsumed _fusion functions: no custom-domain op survives);
   - optimize_for_ort: gemm_to_matmul_add, fuse_xformers, the ORT rule list (softmax, instance->group norm, fused matmul, in this order),
     LiftConstantsToInitializers(lift_all_constants=False, size_limit=1), RemoveInitializersFromInputs, ShapeInference, [ClearMetadata]. *)
Definition pipeline_ok (pre fx ofo : list stage) (rules : list string) : bool :=
  let whole := whole_pipeline pre fx ofo in
  let keys := map s_name fx in
  forallb (fun s => mem (s_name s) known_names) whole &&
  match pre with s :: _ => String.eqb (s_name s) "ShapeInferencePass" | [] => false end &&
  match fx with s :: _ => is_call "_pre_optimize" s | [] => false end &&
  String.eqb (last_name fx) "optimize" &&
  before "rms_normalization" "skip_rms_normalization" keys &&
  before "rotary_embedding" "cos_sin_cache" keys && before "cos_sin_cache" "CommonSubexpressionEliminationPass" keys &&
  before "CommonSubexpressionEliminationPass" "partial_rotary_embedding" keys &&
  before "cos_sin_cache" "gqa" keys && before "cos_sin_cache" "mha1" keys &&
  before "sdpa" "gqa" keys && before "sdpa" "mha1" keys && before "sdpa" "mha2" keys &&
  match find_stage "sdpa" fx with Some s => kw_is "apply_shape_inference" "True" s && kw_is "func" "fuse_sdpa" s | None => false end &&
  before "mha1" "mha2" keys && before "mha2" "mha_scale" keys && before "mha2" "mha_bias" keys && before "mha_bias" "attention" keys &&
  match find_stage "mha_bias" fx, find_stage "attention" fx with
  | Some a, Some b => kw_is "guard" "mha1|mha2" a && kw_is "guard" "mha1|mha2" b
  | _, _ => false
  end &&
  before "gqa" "sdpa_via_mha" keys && before "mha2" "sdpa_via_mha" keys && before "attention" "sdpa_via_mha" keys &&
  match find_stage "sdpa_via_mha" fx with Some s => kw_is "func" "replace_sdpa_by_mha" s | None => false end &&
  str_list_eqb (map s_name ofo) ["gemm_to_matmul_add"; "fuse_xformers"; "ort_pattern_rewrite_rules"; "LiftConstantsToInitializersPass";
                                 "RemoveInitializersFromInputsPass"; "ShapeInferencePass"; "ClearMetadataAndDocStringPass"] &&
  match find_stage "LiftConstantsToInitializersPass" ofo with Some s => kw_is "lift_all_constants" "False" s && kw_is "size_limit" "1" s | None => false end &&
  match find_stage "ClearMetadataAndDocStringPass" ofo with Some s => kw_is "guard" "clear_metadata" s | None => false end &&
  str_list_eqb rules ["softmax.rules.rules"; "instance_to_group_normalization.rules.rules"; "fused_matmul_rule_sets.fused_matmul_rule_sets()"].

(* ---- abstract runner: a stage is whatever [interp] makes of it (a guarded stage: either branch) *)
Section Run.
  Variables (M : Type) (interp : stage -> M -> M).
  Definition run (l : list stage) (m : M) : M := fold_left (fun m s => interp s m) l m.
End Run.
