(* Model of ScatterAllStatic (_redundant_scatter_nd.py) (C05): ScatterND(data, indices, updates) with
   indices = [[0],[1],..,[n-1]] over the first axis.  A tensor is the list of its rows.  No proofs in this file. *)
From Coq Require Import ZArith List Bool Arith.
Import ListNotations.

Fixpoint set_nth {A} (i : nat) (u : A) (l : list A) : list A :=
  match l, i with
  | [], _ => []
  | _ :: t, O => u :: t
  | x :: t, S i' => x :: set_nth i' u t
  end.
(* output = copy(data); for i: output[indices[i]] = f(output[indices[i]], updates[i])   (f = "take the update" for reduction none) *)
Definition scatter {A} (f : A -> A -> A) (data : list A) (idx : list nat) (upd : list A) : list A :=
  fold_left (fun acc p => match nth_error acc (fst p) with Some old => set_nth (fst p) (f old (snd p)) acc | None => acc end)
            (combine idx upd) data.
Definition take_update {A} (old new : A) : A := new.

Inductive dim := St (d : Z) | Sy (name : nat) | Un.        (* static, named symbolic, unknown *)
Definition dim_eqb (a b : dim) : bool :=
  match a, b with St x, St y => Z.eqb x y | Sy x, Sy y => Nat.eqb x y | _, _ => false end.
Fixpoint shape_eqb (a b : list dim) : bool :=
  match a, b with [] , [] => true | x :: a', y :: b' => dim_eqb x y && shape_eqb a' b' | _, _ => false end.
Definition has_unknown (s : list dim) : bool := existsb (fun d => match d with Un => true | _ => false end) s.

Inductive outcome := NoFire | Raises | Fire.
Definition z_list_eqb (a b : list Z) : bool :=
  Nat.eqb (length a) (length b) && forallb (fun q => Z.eqb (fst q) (snd q)) (combine a b).
(* indices given as the list of its rows (None: not a constant) *)
Definition sa_check (dshape ushape : option (list dim)) (indices : option (list (list Z))) : outcome :=
  match dshape, ushape with
  | Some ds, Some us =>
      if has_unknown ds || has_unknown us || negb (shape_eqb ds us) then NoFire else
      match indices with
      | None => NoFire
      | Some rows =>
          match ds with
          | St n :: _ =>
              let expected := map (fun i => [Z.of_nat i]) (seq 0 (Z.to_nat n)) in
              if (Nat.eqb (length rows) (length expected)) && forallb (fun q => z_list_eqb (fst q) (snd q)) (combine rows expected)
              then Fire else NoFire
          | _ => Raises                       (* range(SymbolicDim) / shape[0] of a rank-0 shape *)
          end
      end
  | _, _ => NoFire
  end.

Definition outcome_eqb (a b : outcome) : bool :=
  match a, b with NoFire, NoFire | Raises, Raises | Fire, Fire => true | _, _ => false end.
Definition case := (option (list dim) * option (list dim) * option (list (list Z)) * outcome)%type.
(* correspondence is one-directional, as the property is: what the implementation did must be permitted by the model;
   not firing is always permitted (a stricter check is never a C05 violation) *)
Definition permits (m o : outcome) : bool := match o with NoFire => true | _ => outcome_eqb m o end.
Definition agrees (c : case) : bool := let '(d, u, i, o) := c in permits (sa_check d u i) o.
Fixpoint disagreeing (i : nat) (l : list case) : list nat :=
  match l with [] => [] | c :: t => (if agrees c then [] else [i]) ++ disagreeing (S i) t end.
