(* C17 -- proofs about the model in OpsetMethod.v.  Everything here is for all registries, all classes,
   all methods, all argument lists; the only finite step (Gen data, vm_compute) is at the end. *)
From Coq Require Import List String ZArith Bool Lia.
Import ListNotations.
Require Import OV.Registry.OpsetMethod.
Open Scope string_scope.
Open Scope list_scope.

(* ------------------------------------------------------------------ boolean equalities *)

Lemma list_eqb_eq {A} (e : A -> A -> bool) :
  (forall x y, e x y = true -> x = y) -> forall a b, list_eqb e a b = true -> a = b.
Proof.
  intros H a; induction a as [|x a IH]; intros [|y b] E; cbn in E; try discriminate; auto.
  apply andb_true_iff in E as [E1 E2]. f_equal; auto.
Qed.

Lemma dflt_eqb_eq : forall a b, dflt_eqb a b = true -> a = b.
Proof.
  intros [] [] E; cbn in E; try discriminate; auto; f_equal;
    try (apply Z.eqb_eq; assumption); try (apply String.eqb_eq; assumption).
  - apply (list_eqb_eq Z.eqb); auto. intros; apply Z.eqb_eq; auto.
  - apply (list_eqb_eq String.eqb); auto. intros; apply String.eqb_eq; auto.
  - apply (list_eqb_eq String.eqb); auto. intros; apply String.eqb_eq; auto.
Qed.

Lemma memb_In : forall k l, memb k l = true <-> In k l.
Proof.
  intros k l; induction l as [|x t IH]; cbn; [split; [discriminate|tauto]|].
  rewrite orb_true_iff, IH, String.eqb_eq. tauto.
Qed.

Lemma nodupb_NoDup : forall l, nodupb l = true -> NoDup l.
Proof.
  induction l as [|x t IH]; cbn; intro E; [constructor|].
  apply andb_true_iff in E as [E1 E2]. constructor; auto.
  intro H. apply memb_In in H. rewrite H in E1. discriminate.
Qed.

Lemma forallb2_Forall2 {A B} (f : A -> B -> bool) : forall a b,
  forallb2 f a b = true -> Forall2 (fun x y => f x y = true) a b.
Proof.
  induction a as [|x a IH]; intros [|y b] E; cbn in E; try discriminate; constructor.
  - apply andb_true_iff in E; tauto.
  - apply IH. apply andb_true_iff in E; tauto.
Qed.

Lemma Forall2_imp {A B} (P Q : A -> B -> Prop) :
  (forall a b, P a b -> Q a b) -> forall l l', Forall2 P l l' -> Forall2 Q l l'.
Proof. intros H l l' F; induction F; constructor; auto. Qed.

Lemma NoDup_app_both {A} : forall (l1 l2 : list A), NoDup (l1 ++ l2) -> NoDup l1 /\ NoDup l2.
Proof.
  induction l1 as [|x t IH]; cbn; intros l2 H; [split; [constructor|auto]|].
  inversion H as [|? ? N1 N2]; subst. destruct (IH _ N2) as [A1 A2]. split; auto.
  constructor; auto. intro X. apply N1. apply in_or_app; auto.
Qed.

Lemma assoc_In {A} : forall k (l : list (string * A)) v, assoc k l = Some v -> In (k, v) l.
Proof.
  induction l as [|[k' v'] t IH]; cbn; intros v E; [discriminate|].
  destruct (String.eqb k' k) eqn:Ek.
  - apply String.eqb_eq in Ek. inversion E; subst. auto.
  - right; auto.
Qed.

Lemma assoc_notin {A} : forall k (l : list (string * A)), ~ In k (map fst l) -> assoc k l = None.
Proof.
  induction l as [|[k' v'] t IH]; cbn; intro H; auto.
  destruct (String.eqb k' k) eqn:Ek.
  - apply String.eqb_eq in Ek. tauto.
  - apply IH. tauto.
Qed.

Lemma assoc_None_notin {A} : forall k (l : list (string * A)), assoc k l = None -> ~ In k (map fst l).
Proof.
  induction l as [|[k' v'] t IH]; cbn; intros E H; auto.
  destruct (String.eqb k' k) eqn:Ek; [discriminate|].
  destruct H as [H|H]; [subst; rewrite String.eqb_refl in Ek; discriminate|]. apply IH; auto.
Qed.

(* ------------------------------------------------------------------ _prepare_inputs *)

Section Strip.
  Variable V : Type.
  Implicit Types l : list (option V).

  Lemma strip_nil_iff : forall l, strip l = [] <-> exists k, l = repeat None k.
  Proof.
    induction l as [|x t IH]; cbn.
    - split; auto. intros _. exists 0%nat; reflexivity.
    - destruct (strip t) eqn:Et.
      + destruct x as [v|].
        * split; [discriminate|]. intros [[|k] H]; cbn in H; discriminate.
        * split; auto. intros _. destruct (proj1 IH eq_refl) as [k Hk]. exists (S k). cbn. congruence.
      + split; [destruct x; discriminate|]. intros [[|k] H]; cbn in H; [discriminate|].
        inversion H; subst. assert (exists k0, repeat (@None V) k = repeat None k0) as X by eauto.
        apply IH in X. discriminate.
  Qed.

  (* the result is a prefix of the argument and what was dropped consists of None only *)
  Lemma strip_prefix : forall l, exists k, l = strip l ++ repeat None k.
  Proof.
    induction l as [|x t [k IH]]; cbn.
    - exists 0%nat; reflexivity.
    - destruct (strip t) eqn:Et.
      + destruct x as [v|].
        * exists k. cbn. cbn in IH. congruence.
        * exists (S k). cbn. cbn in IH. congruence.
      + exists k. destruct x; cbn; cbn in IH; congruence.
  Qed.

  (* ... and the result does not end in None: nothing else could have been trimmed *)
  Lemma strip_no_trailing_none : forall l l', strip l <> l' ++ [None].
  Proof.
    induction l as [|x t IH]; cbn; intros l' H.
    - destruct l'; discriminate.
    - destruct (strip t) as [|o l0] eqn:Et.
      + destruct x as [v|]; [|destruct l'; discriminate].
        destruct l' as [|y [|z l']]; cbn in H; try discriminate.
      + assert (x :: o :: l0 = l' ++ [None]) as H' by (destruct x; exact H). clear H.
        destruct l' as [|y l']; cbn in H'; [discriminate|].
        inversion H'; subst. eapply IH; eauto.
  Qed.

  Lemma strip_app_nones : forall l k, strip (l ++ repeat None k) = strip l.
  Proof.
    induction l as [|x t IH]; intro k; cbn.
    - assert (exists k0, repeat (@None V) k = repeat None k0) as X by eauto.
      apply strip_nil_iff in X. exact X.
    - rewrite IH. reflexivity.
  Qed.

  Lemma strip_idem : forall l, strip (strip l) = strip l.
  Proof.
    intro l. destruct (strip_prefix l) as [k Hk].
    rewrite Hk at 2. rewrite strip_app_nones. reflexivity.
  Qed.

  (* no input moves: position i holds the same value before and after (an omitted input reads as None) *)
  Lemma strip_nth : forall l i, nth i (strip l) None = nth i l None.
  Proof.
    intros l i. destruct (strip_prefix l) as [k Hk]. rewrite Hk at 2.
    destruct (Nat.lt_ge_cases i (List.length (strip l))) as [H|H].
    - rewrite app_nth1; auto.
    - rewrite app_nth2; auto. rewrite nth_overflow by auto.
      symmetry. apply nth_repeat.
  Qed.

  (* a value that is not None is never dropped *)
  Lemma strip_keeps_values : forall l i v, nth_error l i = Some (Some v) -> nth_error (strip l) i = Some (Some v).
  Proof.
    intros l i v H.
    assert (nth i l None = Some v) as N by (apply nth_error_nth; auto).
    rewrite <- strip_nth in N.
    destruct (nth_error (strip l) i) eqn:E.
    - apply nth_error_nth with (d := None) in E. congruence.
    - apply nth_error_None in E. rewrite nth_overflow in N by auto. discriminate.
  Qed.
End Strip.

(* ------------------------------------------------------------------ get_schema *)

Lemma matches_spec : forall name N dom s,
  matches name N dom s = true <-> s_name s = name /\ s_domain s = dom /\ (s_since s <= N)%Z.
Proof.
  intros. unfold matches. rewrite !andb_true_iff, !String.eqb_eq, Z.leb_le. tauto.
Qed.

(* best_since = Some k  iff  k is the greatest since_version <= N registered under (name, dom) *)
Lemma best_since_Some : forall reg name N dom k,
  best_since reg name N dom = Some k ->
  (exists s, In s reg /\ matches name N dom s = true /\ s_since s = k) /\
  (forall s, In s reg -> matches name N dom s = true -> (s_since s <= k)%Z).
Proof.
  induction reg as [|s0 t IH]; cbn; intros name N dom k E; [discriminate|].
  destruct (matches name N dom s0) eqn:M.
  - destruct (best_since t name N dom) as [k0|] eqn:B.
    + inversion E; subst; clear E. destruct (IH _ _ _ _ B) as [[s [I [Ms Es]]] U].
      split.
      * destruct (Z.max_spec k0 (s_since s0)) as [[_ R]|[_ R]]; rewrite R; eauto 6.
      * intros s' [->|I'] M'; [lia|]. specialize (U _ I' M'). lia.
    + inversion E; subst; clear E. split; [eauto 6|].
      intros s' [->|I'] M'; [lia|].
      exfalso. clear IH. revert B I' M'. clear. induction t as [|a t IH]; cbn; [tauto|].
      intros B [->|I] M.
      * rewrite M in B. destruct (best_since t name N dom); discriminate.
      * destruct (matches name N dom a); [destruct (best_since t name N dom); discriminate|]. eauto.
  - destruct (IH _ _ _ _ E) as [X U]. split.
    + destruct X as [s [I R]]. eauto.
    + intros s' [->|I'] M'; [congruence|]. eauto.
Qed.

Lemma best_since_None : forall reg name N dom,
  best_since reg name N dom = None -> forall s, In s reg -> matches name N dom s = false.
Proof.
  induction reg as [|s0 t IH]; cbn; intros name N dom E s I; [tauto|].
  destruct (matches name N dom s0) eqn:M.
  - destruct (best_since t name N dom); discriminate.
  - destruct I as [->|I]; eauto.
Qed.

Lemma has_key_spec : forall name k dom s,
  has_key name k dom s = true <-> s_name s = name /\ s_domain s = dom /\ s_since s = k.
Proof. intros. unfold has_key. rewrite !andb_true_iff, !String.eqb_eq, Z.eqb_eq. tauto. Qed.

(* get_schema(name, N, dom) = s  means: s is registered under (name, dom), s.since_version <= N, and no
   registered schema of that name and domain has a since_version in (s.since_version, N] *)
Lemma resolve_spec : forall reg name N dom s,
  resolve reg name N dom = Some s ->
  In s reg /\ s_name s = name /\ s_domain s = dom /\ (s_since s <= N)%Z /\
  forall s', In s' reg -> s_name s' = name -> s_domain s' = dom -> (s_since s' <= N)%Z -> (s_since s' <= s_since s)%Z.
Proof.
  intros reg name N dom s R. unfold resolve in R.
  destruct (best_since reg name N dom) as [k|] eqn:B; [|discriminate].
  apply find_some in R as [I K]. apply has_key_spec in K as [K1 [K2 K3]].
  destruct (best_since_Some _ _ _ _ _ B) as [[s1 [I1 [M1 E1]]] U].
  apply matches_spec in M1 as [_ [_ L]].
  repeat split; auto; try lia.
  intros s' I' N' D' L'. rewrite K3. apply U; auto. apply matches_spec; auto.
Qed.

(* resolution is total whenever some schema qualifies *)
Lemma resolve_total : forall reg name N dom s0,
  In s0 reg -> s_name s0 = name -> s_domain s0 = dom -> (s_since s0 <= N)%Z ->
  exists s, resolve reg name N dom = Some s.
Proof.
  intros reg name N dom s0 I E1 E2 L. unfold resolve.
  destruct (best_since reg name N dom) as [k|] eqn:B.
  - destruct (best_since_Some _ _ _ _ _ B) as [[s1 [I1 [M1 Ek]]] _].
    destruct (find (has_key name k dom) reg) eqn:F; [eauto|].
    exfalso. eapply find_none in F; eauto.
    apply matches_spec in M1 as [A1 [A2 _]].
    assert (has_key name k dom s1 = true) by (apply has_key_spec; auto). congruence.
  - eapply best_since_None in B; eauto.
    assert (matches name N dom s0 = true) by (apply matches_spec; auto). congruence.
Qed.

(* two lookups that select the same version return the same schema record *)
Lemma resolve_same : forall reg name N N' dom s,
  resolve reg name N dom = Some s ->
  best_since reg name N' dom = Some (s_since s) ->
  resolve reg name N' dom = Some s.
Proof.
  intros reg name N N' dom s R B. unfold resolve in *. rewrite B.
  destruct (best_since reg name N dom) as [k|]; [|discriminate].
  pose proof R as R'. apply find_some in R' as [_ K]. apply has_key_spec in K as [_ [_ K]].
  rewrite K. exact R.
Qed.

(* a method inherited from version k still denotes the right schema at version N exactly when the
   operator did not change in (k, N] *)
Lemma resolve_monotone : forall reg name k N dom s,
  resolve reg name k dom = Some s -> (k <= N)%Z ->
  (forall s', In s' reg -> s_name s' = name -> s_domain s' = dom -> (s_since s' <= N)%Z -> (s_since s' <= k)%Z) ->
  resolve reg name N dom = Some s.
Proof.
  intros reg name k N dom s R L U.
  destruct (resolve_spec _ _ _ _ _ R) as [I [E1 [E2 [L1 M1]]]].
  destruct (resolve_total reg name N dom s I E1 E2 ltac:(lia)) as [s2 R2].
  destruct (resolve_spec _ _ _ _ _ R2) as [I2 [F1 [F2 [L2 M2]]]].
  assert (s_since s2 = s_since s) as Eq.
  { apply Z.le_antisymm.
    - apply M1; auto; apply U; auto.
    - apply M2; auto. lia. }
  unfold resolve in R2. destruct (best_since reg name N dom) as [k2|] eqn:B2; [|discriminate].
  pose proof R2 as R2'. apply find_some in R2' as [_ K]. apply has_key_spec in K as [_ [_ K]].
  eapply resolve_same; eauto. congruence.
Qed.

(* ------------------------------------------------------------------ method_ok: what it establishes *)

Definition input_rel (s : schema) (p : param) (i : string * ikind) : Prop :=
  p_name p = input_param_name s (fst i) /\ kind_ok s (p_kind p) (snd i) = true /\ p_dflt p = DNone.

Definition attr_rel (p : param) (a : attr) : Prop :=
  p_name p = a_name a /\
  (a_required a = true -> p_kind p = PKwReq) /\
  (a_required a = false -> p_kind p = PKw /\ p_dflt p = a_dflt a).

(* "takes the schema's inputs in order followed by its attributes as keyword parameters whose defaults
   equal the schema defaults, forwards each argument under the right name" *)
Definition mirrors (m : method) (s : schema) : Prop :=
  m_name m = s_name s /\ m_op m = s_name s /\ m_opname m = s_name s /\ m_domain m = s_domain s /\
  m_params m = in_params m ++ kw_params m /\
  NoDup (map p_name (m_params m)) /\
  Forall2 (input_rel s) (in_params m) (s_inputs s) /\
  Forall2 attr_rel (kw_params m) (s_attrs s) /\
  (m_prepare m = Some (prepare_of (in_params m)) \/ (m_prepare m = None /\ s_inputs s = [])) /\
  m_forwards m = forwards_of (kw_params m).

Lemma inputs_first_split : forall l, inputs_first l = true -> l = filter is_input l ++ filter is_kw l.
Proof.
  induction l as [|p t IH]; cbn; intro E; auto.
  unfold is_kw at 1. destruct (is_input p) eqn:I; cbn.
  - f_equal; auto.
  - assert (filter is_input t = [] /\ filter is_kw t = t) as [A B].
    { clear IH I. induction t as [|q t IH]; cbn in *; auto.
      apply andb_true_iff in E as [E1 E2]. destruct (IH E2) as [A B].
      unfold is_kw in E1. destruct (is_input q) eqn:Iq; cbn in E1; [discriminate|].
      unfold is_kw at 1. rewrite Iq; cbn. split; auto. f_equal; auto. }
    rewrite A, B. reflexivity.
Qed.

Lemma is_none_eq : forall d, is_none d = true -> d = DNone.
Proof. destruct d; cbn; auto; discriminate. Qed.

Lemma method_ok_mirrors : forall m s, method_ok m s = true -> mirrors m s.
Proof.
  intros m s H. unfold method_ok in H.
  repeat (apply andb_true_iff in H as [H ?]).
  repeat match goal with E : String.eqb _ _ = true |- _ => apply String.eqb_eq in E end.
  unfold mirrors. repeat split; auto.
  - apply inputs_first_split; auto.
  - apply nodupb_NoDup; auto.
  - match goal with E : forallb2 (input_ok s) _ _ = true |- _ => apply forallb2_Forall2 in E; revert E end.
    apply Forall2_imp. intros p i E. unfold input_ok in E.
    repeat (apply andb_true_iff in E as [E ?]). apply String.eqb_eq in E.
    unfold input_rel. split; [auto|]. split; auto using is_none_eq.
  - match goal with E : forallb2 attr_ok _ _ = true |- _ => apply forallb2_Forall2 in E; revert E end.
    apply Forall2_imp. intros p a E. unfold attr_ok in E.
    apply andb_true_iff in E as [E1 E2]. apply String.eqb_eq in E1.
    unfold attr_rel. split; [auto|]. split; intro R; rewrite R in E2; destruct (p_kind p); try discriminate; auto.
    split; auto. apply dflt_eqb_eq; auto.
  - match goal with E : prepare_ok m = true |- _ => unfold prepare_ok in E; rename E into P end.
    match goal with E : forallb2 (input_ok s) _ _ = true |- _ => rename E into FI end.
    destruct (m_prepare m) as [pl|].
    + left. f_equal. eapply list_eqb_eq; [|exact P].
      intros [a1 a2] [b1 b2] E; cbn in E. apply andb_true_iff in E as [E1 E2].
      apply String.eqb_eq in E1. apply Bool.eqb_prop in E2. congruence.
    + right. split; auto. destruct (in_params m); [|discriminate].
      destruct (s_inputs s); [auto|discriminate].
  - match goal with E : forwards_ok m = true |- _ => unfold forwards_ok in E; rename E into P end.
    eapply list_eqb_eq; [|exact P].
    intros [a1 a2] [b1 b2] E; cbn in E. apply andb_true_iff in E as [E1 E2].
    apply String.eqb_eq in E1. apply String.eqb_eq in E2. congruence.
Qed.

(* ------------------------------------------------------------------ the call *)

Section CallProofs.
  Variable V : Type.
  Notation penv := (list (string * (bool * list (option V)))).

  Definition pvar (p : param) : bool := match p_kind p with PVar => true | _ => false end.

  (* binding hands every positional actual, in order, to the parameters, padding omitted optional
     inputs with None *)
  Lemma bind_pos_shape : forall ps actuals (pe : penv),
    bind_pos ps actuals = Some pe ->
    map fst pe = map p_name ps /\
    map (fun e => fst (snd e)) pe = map pvar ps /\
    exists k, List.concat (map (fun e => snd (snd e)) pe) = actuals ++ repeat None k.
  Proof.
    induction ps as [|p ps IH]; cbn; intros actuals pe E.
    - destruct actuals; [|discriminate]. inversion E; subst. cbn. repeat split; auto. exists 0%nat; reflexivity.
    - unfold pvar at 1.
      destruct (p_kind p) eqn:K; try discriminate.
      + destruct actuals as [|a r]; [discriminate|].
        destruct (bind_pos ps r) as [pe'|] eqn:B; [|discriminate]. inversion E; subst; clear E.
        destruct (IH _ _ B) as [A1 [A2 [k A3]]]. cbn. repeat split; try congruence.
        exists k. rewrite A3. reflexivity.
      + destruct actuals as [|a r].
        * destruct (bind_pos ps []) as [pe'|] eqn:B; [|discriminate]. inversion E; subst; clear E.
          destruct (IH _ _ B) as [A1 [A2 [k A3]]]. cbn. repeat split; try congruence.
          exists (S k). rewrite A3. reflexivity.
        * destruct (bind_pos ps r) as [pe'|] eqn:B; [|discriminate]. inversion E; subst; clear E.
          destruct (IH _ _ B) as [A1 [A2 [k A3]]]. cbn. repeat split; try congruence.
          exists k. rewrite A3. reflexivity.
      + destruct (bind_pos ps []) as [pe'|] eqn:B; [|discriminate]. inversion E; subst; clear E.
        destruct (IH _ _ B) as [A1 [A2 [k A3]]]. cbn. repeat split; try congruence.
        exists k. rewrite A3. cbn. reflexivity.
  Qed.

  Lemma assoc_nodup_hit {A} : forall (l1 l2 : list (string * A)) k v,
    ~ In k (map fst l1) -> assoc k (l1 ++ (k, v) :: l2) = Some v.
  Proof.
    induction l1 as [|[k' v'] t IH]; cbn; intros l2 k v H.
    - rewrite String.eqb_refl. reflexivity.
    - destruct (String.eqb k' k) eqn:E; [apply String.eqb_eq in E; tauto|]. apply IH. tauto.
  Qed.

  Lemma prepare_roundtrip : forall (pre pe : penv) ps,
    NoDup (map fst (pre ++ pe)) ->
    map fst pe = map p_name ps ->
    map (fun e => fst (snd e)) pe = map pvar ps ->
    map_opt (prep_arg (pre ++ pe)) (prepare_of ps) = Some (map (fun e => snd (snd e)) pe).
  Proof.
    intros pre pe; revert pre. induction pe as [|[n [b vs]] pe IH]; intros pre [|p ps] ND E1 E2;
      try discriminate; [reflexivity|].
    cbn [map fst snd] in E1, E2. inversion E1 as [[En E1']]. inversion E2 as [[Eb E2']]. subst n b.
    assert (assoc (p_name p) (pre ++ (p_name p, (pvar p, vs)) :: pe) = Some (pvar p, vs)) as A.
    { apply assoc_nodup_hit. rewrite map_app in ND. cbn in ND. apply NoDup_remove_2 in ND.
      intro X. apply ND. apply in_or_app; auto. }
    specialize (IH (pre ++ [(p_name p, (pvar p, vs))]) ps).
    rewrite <- app_assoc in IH. cbn [app] in IH. specialize (IH ND E1' E2').
    unfold prepare_of in *. cbn [map map_opt]. rewrite IH.
    unfold prep_arg at 1. cbn [fst snd]. rewrite A. fold (pvar p). rewrite Bool.eqb_reflx. reflexivity.
  Qed.

  (* --- keyword side *)

  Lemma bind_kw_shape : forall kws given ke,
    bind_kw kws given = Some ke ->
    NoDup (map fst given) /\ (forall k, In k (map fst given) -> In k (map p_name kws)) /\
    map fst ke = map p_name kws /\
    Forall2 (fun p e => fst e = p_name p /\
                        match assoc (p_name p) given with
                        | Some v => snd e = v
                        | None => p_kind p = PKw /\ snd e = p_dflt p
                        end) kws ke.
  Proof.
    intros kws given ke E. unfold bind_kw in E.
    destruct (forallb _ given && nodupb (map fst given)) eqn:C; [|discriminate].
    apply andb_true_iff in C as [C1 C2]. split; [apply nodupb_NoDup; auto|]. split.
    { intros k I. apply in_map_iff in I as [[k' v] [<- I]]. rewrite forallb_forall in C1.
      apply C1 in I. cbn in I. apply memb_In; auto. }
    clear C1 C2. revert ke E. induction kws as [|p kws IH]; cbn; intros ke E.
    - inversion E; subst. cbn. auto.
    - destruct (assoc (p_name p) given) as [v|] eqn:A.
      + destruct (map_opt _ kws) as [r|] eqn:M; [|discriminate]. inversion E; subst; clear E.
        destruct (IH _ eq_refl) as [I1 I2]. cbn. split; [congruence|]. constructor; auto.
        cbn. rewrite A. auto.
      + destruct (p_kind p) eqn:K; try discriminate.
        destruct (map_opt _ kws) as [r|] eqn:M; [|discriminate]. inversion E; subst; clear E.
        destruct (IH _ eq_refl) as [I1 I2]. cbn. split; [congruence|]. constructor; auto.
        cbn. rewrite A. auto.
  Qed.

  Lemma forwards_roundtrip : forall (pre ke : list (string * dflt)),
    NoDup (map fst (pre ++ ke)) ->
    map_opt (fun f : string * string => option_map (pair (fst f)) (assoc (snd f) (pre ++ ke)))
            (map (fun e => (fst e, fst e)) ke) = Some ke.
  Proof.
    intros pre ke; revert pre. induction ke as [|[k v] ke IH]; intros pre ND; cbn; auto.
    rewrite assoc_nodup_hit.
    2:{ rewrite map_app in ND. cbn in ND. apply NoDup_remove_2 in ND. intro X. apply ND. apply in_or_app; auto. }
    cbn. specialize (IH (pre ++ [(k, v)])). rewrite <- app_assoc in IH. cbn in IH. rewrite IH; auto.
  Qed.

  Lemma assoc_filter : forall (l : list (string * dflt)) k,
    NoDup (map fst l) ->
    assoc k (filter (fun kv => negb (is_none (snd kv))) l) =
    match assoc k l with Some v => if is_none v then None else Some v | None => None end.
  Proof.
    induction l as [|[k' v'] t IH]; cbn; intros k ND; auto.
    inversion ND as [|? ? N1 N2]; subst.
    destruct (is_none v') eqn:Z; cbn.
    - destruct (String.eqb k' k) eqn:E.
      + apply String.eqb_eq in E; subst. rewrite IH; auto. rewrite assoc_notin; auto; rewrite ?Z; reflexivity.
      + apply IH; auto.
    - destruct (String.eqb k' k) eqn:E; [rewrite ?Z; reflexivity|apply IH; auto].
  Qed.

  Lemma schema_default_hit : forall attrs1 a attrs2 s,
    s_attrs s = attrs1 ++ a :: attrs2 -> ~ In (a_name a) (map a_name attrs1) ->
    schema_default s (a_name a) = a_dflt a.
  Proof.
    intros attrs1 a attrs2 s E N. unfold schema_default. rewrite E. clear E.
    induction attrs1 as [|b t IH]; cbn.
    - rewrite String.eqb_refl. reflexivity.
    - destruct (String.eqb (a_name b) (a_name a)) eqn:Eb.
      + apply String.eqb_eq in Eb. cbn in N. tauto.
      + apply IH. cbn in N. tauto.
  Qed.

  (* value of attribute k in the environment built by bind_kw, given the attributes line up *)
  Lemma effective_agree : forall s kws given ke,
    Forall2 attr_rel kws (s_attrs s) ->
    NoDup (map p_name kws) ->
    bind_kw kws given = Some ke ->
    forall k,
      match assoc k (filter (fun kv => negb (is_none (snd kv))) ke) with Some v => v | None => schema_default s k end =
      match assoc k (filter (fun kv => negb (is_none (snd kv))) given) with Some v => v | None => schema_default s k end.
  Proof.
    intros s kws given ke FA ND B k.
    destruct (bind_kw_shape _ _ _ B) as [NDg [Sub [Keys F]]].
    rewrite !assoc_filter; auto; [|rewrite Keys; auto].
    destruct (assoc k given) as [v|] eqn:G.
    - (* given explicitly: the method forwards exactly that value *)
      assert (In k (map p_name kws)) as I.
      { apply Sub. apply assoc_In in G. apply in_map_iff. exists (k, v); auto. }
      assert (assoc k ke = Some v) as Ak.
      { clear - F G I ND. revert ke F. induction kws as [|p kws IH]; intros ke F; [destruct I|].
        inversion F as [|? e ? ke' [H1 H2] F']; subst. destruct e as [ek ev]; cbn in *. subst ek.
        destruct (String.eqb (p_name p) k) eqn:E.
        - apply String.eqb_eq in E. subst k. rewrite G in H2. congruence.
        - inversion ND; subst. apply IH; auto. destruct I as [I|I]; auto.
          subst. rewrite String.eqb_refl in E. discriminate. }
      rewrite Ak. reflexivity.
    - (* omitted: the method passes its default, which is the schema default; None is dropped *)
      destruct (assoc k ke) as [v|] eqn:Ak; auto.
      destruct (is_none v) eqn:Zv; auto.
      (* find the parameter k in kws together with its attribute *)
      remember (s_attrs s) as attrs eqn:EA.
      assert (exists a1 a a2, attrs = a1 ++ a :: a2 /\ ~ In (a_name a) (map a_name a1) /\ a_name a = k /\ a_dflt a = v) as X.
      { clear EA B Sub NDg Keys.
        assert (NoDup (map a_name attrs)) as NDa.
        { replace (map a_name attrs) with (map p_name kws); auto.
          clear - FA. induction FA as [|p a ? ? [H _]]; cbn; congruence. }
        clear ND. revert ke F Ak attrs FA NDa.
        induction kws as [|p kws IH]; intros ke F Ak attrs FA NDa.
        - inversion F; subst. discriminate.
        - inversion F as [|? e ? ke' [H1 H2] F']; subst. destruct e as [ek ev]; cbn in *. subst ek.
          inversion FA as [|? a ? attrs' [R1 [R2 R3]] FA']; subst.
          destruct (String.eqb (p_name p) k) eqn:E.
          + apply String.eqb_eq in E. subst k. inversion Ak; subst ev; clear Ak.
            rewrite G in H2. destruct H2 as [Kp Dv].
            exists [], a, attrs'. cbn. repeat split; auto.
            destruct (a_required a) eqn:Rq.
            * rewrite R2 in Kp by auto. discriminate.
            * destruct (R3 eq_refl) as [_ D]. congruence.
          + inversion NDa as [|? ? Na NDa']; subst.
            destruct (IH _ F' Ak _ FA' NDa') as [a1 [a0 [a2 [E1 [E2 [E3 E4]]]]]].
            exists (a :: a1), a0, a2. cbn. repeat split; auto; try congruence.
            intros [X|X]; auto. rewrite R1 in E. rewrite X, E3, String.eqb_refl in E. discriminate. }
      destruct X as [a1 [a [a2 [E1 [E2 [E3 E4]]]]]]. subst k v.
      symmetry. apply (schema_default_hit a1 a a2 s); [congruence|exact E2].
  Qed.

  (* --- the call theorem *)

  Theorem call_sound : forall reg m s,
    static_schema reg m = Some s -> mirrors m s ->
    forall (a : args V) pe ke, bind m a = Some (pe, ke) ->
      exists n, call_method reg m a = Some n /\
                n_inputs n = strip (a_pos a) /\
                node_equiv s n (bare_node s a).
  Proof.
    intros reg m s RS MI a pe ke B.
    destruct MI as [M1 [M2 [M3 [M4 [Msplit [MND [MI [MA [MP MF]]]]]]]]].
    unfold call_method. rewrite RS, B.
    unfold bind in B.
    destruct (bind_pos (in_params m) (a_pos a)) as [pe0|] eqn:BP; [|discriminate].
    destruct (bind_kw (kw_params m) (a_kw a)) as [ke0|] eqn:BK; [|discriminate].
    inversion B; subst pe0 ke0; clear B.
    destruct (bind_pos_shape _ _ _ BP) as [P1 [P2 [k P3]]].
    destruct (bind_kw_shape _ _ _ BK) as [NDg [Sub [Keys F]]].
    assert (NoDup (map p_name (in_params m)) /\ NoDup (map p_name (kw_params m))) as [NDi NDk].
    { rewrite Msplit, map_app in MND. apply NoDup_app_both; auto. }
    (* inputs *)
    assert ((match m_prepare m with
             | None => Some []
             | Some pl => option_map (fun ls => strip (List.concat ls)) (map_opt (prep_arg pe) pl)
             end) = Some (strip (a_pos a))) as EI.
    { destruct MP as [MP|[MP MS]].
      - rewrite MP. pose proof (prepare_roundtrip [] pe (in_params m)) as R. cbn [app] in R.
        rewrite R; auto; [|rewrite P1; auto]. cbn. rewrite P3, strip_app_nones. reflexivity.
      - rewrite MP. rewrite MS in MI. inversion MI as [E0|]; subst.
        rewrite <- E0 in BP. cbn in BP. destruct (a_pos a); [reflexivity|discriminate]. }
    rewrite EI.
    (* keywords *)
    assert (map_opt (fun f : string * string => option_map (pair (fst f)) (assoc (snd f) ke)) (m_forwards m) = Some ke) as EK.
    { rewrite MF. unfold forwards_of.
      replace (map (fun p => (p_name p, p_name p)) (kw_params m)) with (map (fun e : string * dflt => (fst e, fst e)) ke).
      - apply (forwards_roundtrip [] ke). cbn. rewrite Keys. auto.
      - clear - F. induction F as [|p e ? ? [H _]]; cbn; auto. rewrite H. f_equal; auto. }
    rewrite EK.
    eexists; split; [reflexivity|]. cbn. split; [reflexivity|].
    unfold node_equiv, bare_node; cbn. repeat split; auto.
    - rewrite strip_idem. reflexivity.
    - intro k0. unfold effective; cbn. eapply effective_agree; eauto.
  Qed.
End CallProofs.

(* ------------------------------------------------------------------ classes *)

Lemma find_class_In : forall cs n c, find_class cs n = Some c -> In c cs /\ c_name c = n.
Proof.
  induction cs as [|c0 t IH]; cbn; intros n c E; [discriminate|].
  destruct (String.eqb (c_name c0) n) eqn:Q.
  - inversion E; subst. apply String.eqb_eq in Q. auto.
  - destruct (IH _ _ E); auto.
Qed.

Lemma nodup_names_In : forall l seen x, In x l -> In x (nodup_names seen l) \/ In x seen.
Proof.
  induction l as [|y t IH]; cbn; intros seen x I; [tauto|].
  destruct (memb y seen) eqn:M.
  - destruct I as [->|I]; [right; apply memb_In; auto|auto].
  - destruct I as [->|I]; [left; left; auto|].
    destruct (IH (y :: seen) x I) as [H|[H|H]]; auto; left; [right|left]; auto.
Qed.

Lemma class_ops_complete : forall reg ms c op s,
  dyn_getitem reg c op = Some s -> In op (class_ops reg ms c).
Proof.
  intros reg ms c op s R. unfold dyn_getitem in R. apply resolve_spec in R as [I [E1 [E2 _]]].
  unfold class_ops. destruct (nodup_names_In (map s_name (filter (fun s0 => String.eqb (s_domain s0) (c_domain c)) reg) ++ map m_name ms) [] op) as [H|[]]; auto.
  apply in_or_app; left. apply in_map_iff. exists s; split; auto.
  apply filter_In; split; auto. apply String.eqb_eq; auto.
Qed.

(* The main statement, for any registry and any set of classes that pass the computable test. *)
Theorem registry_sound : forall ex reg cs,
  registry_ok ex reg cs = true ->
  forall c, In c cs ->
  forall op s, dyn_getitem reg c op = Some s -> ex s = false ->
    (covered c = true -> exists m, static_lookup cs c op = Some m) /\
    forall m, static_lookup cs c op = Some m ->
      static_schema reg m = Some s /\ mirrors m s /\
      forall V (a : args V) pe ke, bind m a = Some (pe, ke) ->
        exists n, call_method reg m a = Some n /\ n_inputs n = strip (a_pos a) /\ node_equiv s n (bare_node s a).
Proof.
  intros ex reg cs OK c I op s R D.
  unfold registry_ok in OK. apply andb_true_iff in OK as [_ OK].
  rewrite forallb_forall in OK. specialize (OK c I). unfold class_ok in OK.
  unfold static_lookup. destruct (all_methods cs c) as [ms|]; [|discriminate].
  rewrite forallb_forall in OK. specialize (OK op (class_ops_complete _ ms _ _ _ R)).
  unfold pair_ok in OK. rewrite R, D in OK.
  split.
  - intro C. destruct (lookup_in ms op) as [m|]; [eauto|]. rewrite C in OK. discriminate.
  - intros m L. rewrite L in OK. apply andb_true_iff in OK as [O1 O2].
    pose proof (method_ok_mirrors _ _ O2) as MI.
    assert (static_schema reg m = Some s) as RS.
    { destruct MI as [_ [M2 [_ [M4 _]]]].
      unfold dyn_getitem in R. pose proof (resolve_spec _ _ _ _ _ R) as [_ [E1 [E2 _]]].
      unfold static_schema. rewrite M2, M4, E1, E2 in *.
      destruct (best_since reg op (m_since m) (c_domain c)) as [k|] eqn:B; [|discriminate].
      cbn in O1. apply Z.eqb_eq in O1. subst k.
      rewrite <- E1 at 1. rewrite E1. eapply resolve_same; eauto. }
    split; auto. split; auto.
    intros V a pe ke B. eapply call_sound; eauto.
Qed.

(* Opset.__getitem__ / __contains__ / __getattr__ against the static class *)
Theorem dynamic_lookup_agrees : forall ex reg cs,
  registry_ok ex reg cs = true ->
  forall c, In c cs -> forall op,
    (dyn_contains reg c op = true <-> exists s, dyn_getitem reg c op = Some s) /\
    (forall s, dyn_getitem reg c op = Some s -> ex s = false -> getattr_schema reg cs c op = Some s) /\
    (dyn_getitem reg c op = None -> getattr_schema reg cs c op = None /\ static_lookup cs c op = None).
Proof.
  intros ex reg cs OK c I op. split; [|split].
  - unfold dyn_contains. destruct (dyn_getitem reg c op); split; eauto; try discriminate. intros [s H]; discriminate.
  - intros s R D. unfold getattr_schema.
    destruct (registry_sound _ _ _ OK _ I _ _ R D) as [_ H].
    destruct (static_lookup cs c op) as [m|] eqn:L; auto. apply (H m eq_refl).
  - intro R. unfold getattr_schema.
    unfold registry_ok in OK. apply andb_true_iff in OK as [_ OK].
    rewrite forallb_forall in OK. specialize (OK c I). unfold class_ok in OK.
    unfold static_lookup. destruct (all_methods cs c) as [ms|]; [|discriminate].
    destruct (lookup_in ms op) as [m|] eqn:L; auto.
    exfalso. rewrite forallb_forall in OK.
    assert (In op (class_ops reg ms c)) as Iop.
    { unfold class_ops. unfold lookup_in in L. apply find_some in L as [L1 L2]. apply String.eqb_eq in L2.
      destruct (nodup_names_In (map s_name (filter (fun s0 => String.eqb (s_domain s0) (c_domain c)) reg) ++ map m_name ms) [] op) as [H|[]]; auto.
      apply in_or_app; right. apply in_map_iff. eauto. }
    specialize (OK op Iop). unfold pair_ok in OK. rewrite R, L in OK. discriminate.
Qed.

(* Inheritance: a method defined for version k serves version N >= k exactly as long as the operator has
   no newer schema up to N (this is why OpsetN may inherit from OpsetN-1). *)
Theorem inherited_method_valid : forall reg m s N,
  static_schema reg m = Some s -> (m_since m <= N)%Z ->
  (forall s', In s' reg -> s_name s' = m_op m -> s_domain s' = m_domain m -> (s_since s' <= N)%Z -> (s_since s' <= m_since m)%Z) ->
  resolve reg (m_op m) N (m_domain m) = Some s.
Proof. intros. eapply resolve_monotone; eauto. Qed.

(* ------------------------------------------------------------------ non-vacuity and the deprecation gap *)

(* A small registry in the shape of the real one: Upsample-7, Upsample-9, Upsample-10 (deprecated), Clip-6, Clip-11. *)
Definition ex_reg : list schema := [
  mkS "" "Upsample" 7 false [("X", IReq)] [mkA "mode" false (DStr "nearest"); mkA "scales" true DNone];
  mkS "" "Upsample" 9 false [("X", IReq); ("scales", IReq)] [mkA "mode" false (DStr "nearest")];
  mkS "" "Upsample" 10 true [("X", IReq); ("scales", IReq)] [mkA "mode" false (DStr "nearest")];
  mkS "" "Clip" 6 false [("input", IReq)] [mkA "max" false (DFloat "3.4028234663852886e+38"); mkA "min" false (DFloat "-3.4028234663852886e+38")];
  mkS "" "Clip" 11 false [("input", IReq); ("min", IOpt); ("max", IOpt)] []
].
Definition ex_upsample9 : method :=
  mkM "Upsample" [mkP "X" PReq DNone; mkP "scales" PReq DNone; mkP "mode" PKw (DStr "nearest")]
      "Upsample" 9 "" "Upsample" (Some [("X", false); ("scales", false)]) [("mode", "mode")].
Definition ex_clip6 : method :=
  mkM "Clip" [mkP "input" PReq DNone; mkP "max" PKw (DFloat "3.4028234663852886e+38"); mkP "min" PKw (DFloat "-3.4028234663852886e+38")]
      "Clip" 6 "" "Clip" (Some [("input", false)]) [("max", "max"); ("min", "min")].
Definition ex_clip11 : method :=
  mkM "Clip" [mkP "input" PReq DNone; mkP "min" POpt DNone; mkP "max" POpt DNone]
      "Clip" 11 "" "Clip" (Some [("input", false); ("min", false); ("max", false)]) [].
Definition ex_classes : list cls := [
  mkC "Opset9" None "" 9 [ex_upsample9; ex_clip6];
  mkC "Opset10" (Some "Opset9") "" 10 [];
  mkC "Opset11" (Some "Opset10") "" 11 [ex_clip11]
].

Example ex_registry_ok : registry_ok s_deprecated ex_reg ex_classes = true.
Proof. vm_compute. reflexivity. Qed.

(* hypotheses of registry_sound / call_sound are satisfiable on a call that omits an optional input in
   the middle and trims the trailing one:  opset11.Clip(x, None, None) and opset11.Clip(x) *)
Example ex_call_clip11 :
  call_method ex_reg ex_clip11 (mkArgs [Some 1%Z; None; None] []) = Some (mkN "Clip" "" 11%Z [Some 1%Z] []) /\
  call_method ex_reg ex_clip11 (mkArgs [Some 1%Z; None; Some 2%Z] []) = Some (mkN "Clip" "" 11%Z [Some 1%Z; None; Some 2%Z] []) /\
  call_method ex_reg ex_clip6 (mkArgs [Some 1%Z] [("min", DFloat "0.0")]) =
    Some (mkN "Clip" "" 6%Z [Some 1%Z] [("max", DFloat "3.4028234663852886e+38"); ("min", DFloat "0.0")]).
Proof. vm_compute. repeat split. Qed.

(* The gap: ONNX deprecates Upsample at 10; Opset10 still inherits the version-9 method, so
   `opset10.Upsample` (eager: Upsample-9 under opset 9) and `opset10["Upsample"]` (translation: the
   deprecated Upsample-10) denote different schemas although every live operator checks out. *)
Lemma deprecated_gap : exists reg cs c op m s,
  registry_ok s_deprecated reg cs = true /\ In c cs /\
  static_lookup cs c op = Some m /\ dyn_getitem reg c op = Some s /\
  s_deprecated s = true /\ static_schema reg m <> Some s.
Proof.
  exists ex_reg, ex_classes, (mkC "Opset10" (Some "Opset9") "" 10 []), "Upsample", ex_upsample9.
  eexists. split; [exact ex_registry_ok|]. split; [cbn; auto|].
  split; [vm_compute; reflexivity|]. split; [vm_compute; reflexivity|]. split; [reflexivity|].
  vm_compute. discriminate.
Qed.

(* ------------------------------------------------------------------ exemptions and the repaired classes *)

Lemma exempt_in_nil : forall s, exempt_in [] s = false.
Proof. intro s. unfold exempt_in. cbn. apply andb_false_r. Qed.

Lemma exempt_in_live : forall l s, s_deprecated s = false -> exempt_in l s = false.
Proof. intros l s D. unfold exempt_in. rewrite D. reflexivity. Qed.

(* With no exemption at all the statement covers every operator onnx.defs resolves, deprecated or not:
   in particular opsetN.Op denotes the same schema through the static class (eager) and through
   Opset.__getitem__ (translation). *)
Theorem registry_sound_fixed : forall reg cs,
  registry_ok no_exemption reg cs = true ->
  forall c, In c cs ->
  forall op s, dyn_getitem reg c op = Some s ->
    getattr_schema reg cs c op = Some s /\
    (covered c = true -> exists m, static_lookup cs c op = Some m) /\
    forall m, static_lookup cs c op = Some m ->
      static_schema reg m = Some s /\ mirrors m s /\
      forall V (a : args V) pe ke, bind m a = Some (pe, ke) ->
        exists n, call_method reg m a = Some n /\ n_inputs n = strip (a_pos a) /\ node_equiv s n (bare_node s a).
Proof.
  intros reg cs OK c I op s R.
  split; [|exact (registry_sound _ _ _ OK c I op s R eq_refl)].
  destruct (dynamic_lookup_agrees _ _ _ OK c I op) as [_ [H _]]. apply H; auto.
Qed.

(* the repaired shape of the example: Opset10 overrides Upsample with a method generated from the
   deprecation record, so the version-9 method is not inherited past version 10 *)
Definition ex_upsample10 : method :=
  mkM "Upsample" [mkP "X" PReq DNone; mkP "scales" PReq DNone; mkP "mode" PKw (DStr "nearest")]
      "Upsample" 10 "" "Upsample" (Some [("X", false); ("scales", false)]) [("mode", "mode")].
Definition ex_classes_fixed : list cls := [
  mkC "Opset9" None "" 9 [ex_upsample9; ex_clip6];
  mkC "Opset10" (Some "Opset9") "" 10 [ex_upsample10];
  mkC "Opset11" (Some "Opset10") "" 11 [ex_clip11]
].

Example ex_registry_fixed_ok : registry_ok no_exemption ex_reg ex_classes_fixed = true.
Proof. vm_compute. reflexivity. Qed.

(* the as-read classes do not pass the test without the exemption, and pass it with exactly Upsample listed *)
Example ex_registry_as_read_strict : registry_ok no_exemption ex_reg ex_classes = false /\
                                     registry_ok (exempt_in [("", "Upsample")]) ex_reg ex_classes = true /\
                                     deprecated_inherited ex_reg ex_classes =
                                       [("Opset10", "Upsample", 9%Z, 10%Z); ("Opset11", "Upsample", 9%Z, 10%Z)] /\
                                     deprecated_inherited ex_reg ex_classes_fixed = [].
Proof. vm_compute. repeat split. Qed.

Lemma deprecated_fixed : exists c op m s,
  In c ex_classes_fixed /\ static_lookup ex_classes_fixed c op = Some m /\ dyn_getitem ex_reg c op = Some s /\
  s_deprecated s = true /\ static_schema ex_reg m = Some s /\ getattr_schema ex_reg ex_classes_fixed c op = Some s.
Proof.
  exists (mkC "Opset11" (Some "Opset10") "" 11 [ex_clip11]), "Upsample", ex_upsample10. eexists.
  split; [cbn; auto|]. repeat split; vm_compute; reflexivity.
Qed.

(* A wrong default is caught by the test, and is a real difference between the call and the bare node *)
Definition ex_clip6_bad : method :=
  mkM "Clip" [mkP "input" PReq DNone; mkP "max" PKw (DFloat "6.0"); mkP "min" PKw (DFloat "-3.4028234663852886e+38")]
      "Clip" 6 "" "Clip" (Some [("input", false)]) [("max", "max"); ("min", "min")].
Lemma wrong_default_detected :
  (exists s, static_schema ex_reg ex_clip6_bad = Some s /\ method_ok ex_clip6_bad s = false /\
    exists n, call_method ex_reg ex_clip6_bad (mkArgs [Some 1%Z] []) = Some n /\
              effective s n "max" <> effective s (bare_node s (mkArgs [Some 1%Z] [])) "max").
Proof.
  eexists. split; [vm_compute; reflexivity|]. split; [vm_compute; reflexivity|].
  eexists. split; [vm_compute; reflexivity|]. vm_compute. discriminate.
Qed.
