(* Model C of C18, literal operands derived from the C12 specification.

   In Trace.v / TraceCF.v the operand a Python literal becomes (OLit with a descriptor of some dtype, or
   OLitCast with the id of a like-value) is an INPUT of the model, observed on the real builder.  Here it is
   DERIVED: a typed call carries the schema and, for every operand, what the builder sees when the call is made
   (a value with its element type and whether that type is known at construction time, a Python literal, an
   omitted input); `promote_call` runs C12's model of tape_builder._cast_inputs (`Autocast.promote_builder`)
   on it and turns the result into Trace operands:
     tensor / None          -> OVal id / ONone
     OConst l d             -> OLit whose descriptor is tagged with d     (ir.tensor(value, dtype=d))
     OCastLike l d0 d       -> OLitCast (descriptor tagged d0) like, like = the id of the value
                               _cast_inputs bound to the literal's type_str: the FIRST ir.Value operand at a
                               position with the same (identifier) type_str (`first_binder`).
   What stays observed: the cache key (which initializer the literal resolved to, C12's constant cache), the
   naming rule and the payload "<shape>:<hex bytes>" of the tensor.  The dtype tag -- the numpy dtype name in
   front of the payload in `l_val` -- is derived.
   Source modelled: tape_builder.BuilderBase._cast_inputs (154-209), _input_to_ir_value (223-252).
   No proofs in this file. *)
From Coq Require Import String List Bool Arith ZArith NArith Ascii.
Require OV.Autocast.Autocast OV.Gen.Schemas.
Require Import OV.Graph.Syntax OV.Builder.Trace OV.Builder.TraceCF.
Import ListNotations.
Local Open Scope string_scope.

Module A := OV.Autocast.Autocast.

(* ---------------------------------------------------------------- dtype tags *)
(* numpy dtype name of an ONNX element type (what `LitState.describe` prints in front of the payload) *)
Definition np_name (d : A.dtype) : string :=
  match d with
  | 1%N => "float32" | 2%N => "uint8" | 3%N => "int8" | 4%N => "uint16" | 5%N => "int16"
  | 6%N => "int32" | 7%N => "int64" | 9%N => "bool" | 10%N => "float16" | 11%N => "float64"
  | 12%N => "uint32" | 13%N => "uint64"
  | _ => "?"
  end.

Definition np_dtypes : list A.dtype := [1; 2; 3; 4; 5; 6; 7; 9; 10; 11; 12; 13]%N.

Fixpoint before_colon (s : string) : string :=
  match s with
  | EmptyString => EmptyString
  | String c r => if Ascii.eqb c ":"%char then EmptyString else String c (before_colon r)
  end.

(* the dtype recorded in an `l_val`; an unknown name has no dtype *)
Definition dtype_of_val (v : string) : option A.dtype :=
  find (fun d => String.eqb (np_name d) (before_colon v)) np_dtypes.

Definition lit_tag (d : A.dtype) (payload : string) : string := np_name d ++ ":" ++ payload.

(* ---------------------------------------------------------------- typed calls *)
(* the observed rest of a literal: Python value (as C12's literal), cache key, naming rule, "<shape>:<hex>" *)
Record tlit := TL { tl_lit : A.literal; tl_key : string; tl_name : litname; tl_payload : string }.

Inductive toperand :=
| TVal (id : nat) (d : A.dtype) (known : bool)   (* an ir.Value: run-time element type, known to the builder? *)
| TLit (t : tlit)
| TNone.

Record tcall := TC { tc_schema : A.schema; tc_args : list toperand }.

Definition arg_of (t : toperand) : A.arg :=
  match t with
  | TVal _ d k => A.ATensor d k
  | TLit t => A.ALit (tl_lit t)
  | TNone => A.ANone
  end.

Definition mk_lit (t : tlit) (d : A.dtype) : lit := Lit (tl_key t) (tl_name t) (lit_tag d (tl_payload t)).

Definition tslot := (toperand * A.pinfo)%type.
Definition erase (tp : tslot) : A.slot := (arg_of (fst tp), snd tp).

(* `if ("(" not in typevar) and (typevar not in type_bindings): if isinstance(x, ir.Value): type_bindings[typevar] = x`
   -- the first ir.Value operand whose position has type_str k *)
Fixpoint first_binder (k : string) (tps : list tslot) : option (nat * A.dtype * bool) :=
  match tps with
  | [] => None
  | tp :: r =>
    match fst tp, A.p_bkey (snd tp) with
    | TVal id d kn, Some k0 =>
      if String.eqb k k0 && negb (A.has_paren k0) then Some (id, d, kn) else first_binder k r
    | _, _ => first_binder k r
    end
  end.

(* type_bindings.get(typevar) for the position p *)
Definition binder (tps : list tslot) (p : A.pinfo) : option (nat * A.dtype * bool) :=
  match A.p_bkey p with Some k => first_binder k tps | None => None end.

(* one operand: what C12's model returned for it, as a Trace operand *)
Definition conv (tps : list tslot) (tp : tslot) (o : A.out) : option operand :=
  match fst tp, o with
  | TVal id _ _, A.OKeep _ => Some (OVal id)
  | TNone, A.OKeep _ => Some ONone
  | TLit t, A.OConst _ d => Some (OLit (mk_lit t d))
  | TLit t, A.OCastLike _ d0 _ =>
    match binder tps (snd tp) with
    | Some (id, _, _) => Some (OLitCast (mk_lit t d0) id)
    | None => None
    end
  | _, _ => None
  end.

Fixpoint conv_all (tps : list tslot) (l : list tslot) (outs : list A.out) : option (list operand) :=
  match l, outs with
  | [], [] => Some []
  | tp :: r, o :: ro =>
    match conv tps tp o, conv_all tps r ro with
    | Some a, Some rest => Some (a :: rest)
    | _, _ => None
    end
  | _, _ => None
  end.

(* None: the real builder raises (more actuals than formals of a non-variadic schema; with named = false a
   literal outside the cached path, e.g. a list mixing int and float).  `named` is C12's variant flag of the
   builder (true after repo fix 4f6059b: uncached constants get a generated name instead of raising); for PLAIN
   literals (C12's plainb: a scalar or a homogeneous list whose ir.tensor dtype is the Python-type default) both
   variants agree, and the theorems are stated for plain literals, as C12's builder_eq_spec is. *)
Definition lit_plain (t : toperand) : bool := match t with TLit t => A.plainb (tl_lit t) | _ => true end.
Definition all_plain (c : tcall) : bool := forallb lit_plain (tc_args c).

Definition promote_call (named : bool) (c : tcall) : option (list operand) :=
  let args := map arg_of (tc_args c) in
  match A.positions (tc_schema c) (List.length args), A.promote_builder_v named (tc_schema c) args with
  | A.OK ps, A.OK outs => let tps := combine (tc_args c) ps in conv_all tps tps outs
  | _, _ => None
  end.

(* ---------------------------------------------------------------- the correspondence check *)
Definition litname_eqb (a b : litname) : bool :=
  match a, b with
  | LNFixed x, LNFixed y => String.eqb x y
  | LNIndexed x, LNIndexed y => String.eqb x y
  | _, _ => false
  end.

Definition odtype_eqb (a b : option A.dtype) : bool :=
  match a, b with Some x, Some y => N.eqb x y | _, _ => false end.   (* unknown name: never equal *)

(* derived descriptor against the observed one: same cache key and naming rule, same element type *)
Definition lit_agree (der obs : lit) : bool :=
  String.eqb (l_key der) (l_key obs) && litname_eqb (l_name der) (l_name obs) &&
  odtype_eqb (dtype_of_val (l_val der)) (dtype_of_val (l_val obs)).

Definition operand_agree (der obs : operand) : bool :=
  match der, obs with
  | OVal a, OVal b => Nat.eqb a b
  | ONone, ONone => true
  | OLit a, OLit b => lit_agree a b
  | OLitCast a i, OLitCast b j => lit_agree a b && Nat.eqb i j
  | _, _ => false
  end.

(* the operands observed on the real builder are the ones derived from the C12 specification *)
Definition lits_by_specb (named : bool) (c : tcall) (obs : list operand) : bool :=
  match promote_call named c with
  | Some ops => Trace.list_eqb operand_agree ops obs
  | None => false
  end.

(* the schema the builder looks up: onnx.defs.get_schema(op, opset, "") = the latest version <= opset *)
Fixpoint find_schema (name : string) (opset : N) (best : option A.schema) (all : list A.schema) : option A.schema :=
  match all with
  | [] => best
  | s :: r =>
    if String.eqb (A.s_name s) name && N.leb (A.s_ver s) opset
    then find_schema name opset
           (match best with
            | Some b => if N.ltb (A.s_ver b) (A.s_ver s) then Some s else best
            | None => Some s
            end) r
    else find_schema name opset best r
  end.
Definition schema_at (name : string) (opset : N) : option A.schema :=
  find_schema name opset None OV.Gen.Schemas.all.

(* a case: operator name, since_version reported by onnx.defs (cross-check), typed operands, observed operands *)
Definition lit_case := (string * N * list toperand * list operand)%type.
Definition lit_case_ok (named : bool) (opset : N) (c : lit_case) : bool :=
  let '(name, since, targs, obs) := c in
  match schema_at name opset with
  | Some s => N.eqb (A.s_ver s) since && A.schema_okb s && lits_by_specb named (TC s targs) obs
  | None => false
  end.
Fixpoint lits_disagreeing (named : bool) (opset : N) (i : nat) (cs : list lit_case) : list nat :=
  match cs with
  | [] => []
  | c :: t => ((if lit_case_ok named opset c then [] else [i]) ++ lits_disagreeing named opset (S i) t)%list
  end.

(* ---------------------------------------------------------------- traces whose every call is derived *)
(* a property of the operand list of every operator call of a trace, at every nesting depth *)
Fixpoint every_call (P : list operand -> Prop) (c : call) : Prop :=
  match c with
  | COp _ _ _ args _ subs _ =>
    P args /\
    (fix go (l : list (string * sub)) : Prop :=
       match l with [] => True | ks :: r => every_sub P (snd ks) /\ go r end) subs
  | CRaw _ _ _ => True
  end
with every_sub (P : list operand -> Prop) (sb : sub) : Prop :=
  match sb with
  | Sub _ body _ _ =>
    (fix go (l : list call) : Prop := match l with [] => True | c :: r => every_call P c /\ go r end) body
  end.
Fixpoint every_calls (P : list operand -> Prop) (tr : list call) : Prop :=
  match tr with [] => True | c :: r => every_call P c /\ every_calls P r end.

(* the slots C12 annotates the typed call with *)
Definition slots_of (c : tcall) : A.result (list A.slot) :=
  A.annotate (tc_schema c) (map arg_of (tc_args c)).

(* the operand list is what the C12 model derives for a well-typed call of a well-formed schema *)
Definition derived (args : list operand) : Prop :=
  exists named c slots, A.schema_okb (tc_schema c) = true /\ slots_of c = A.OK slots /\ A.uniform slots /\
                        all_plain c = true /\ promote_call named c = Some args.

(* ---------------------------------------------------------------- the typed reading of the operands *)
Section TRead.
  Variable V : Type.
  Variable sem : string -> string -> list (string * attrv) -> list (option V) -> option (list V).
  Variable tensor : A.dtype -> string -> V.      (* the tensor with this element type and payload *)

  (* the value the op receives at one position: a literal is the constant of the element type C12's
     specification assigns (spec_fn: the sibling's type, else int64 / float32 / bool by Python type); next to a
     sibling whose type is unknown at construction time it is the constant of its own Python type cast at run
     time to the sibling (CastLike) *)
  Definition tread1 (E : venv V) (slots : list A.slot) (tps : list tslot) (tp : tslot) : option (option V) :=
    match fst tp with
    | TVal id _ _ => match vlook V E id with Some v => Some (Some v) | None => None end
    | TNone => Some None
    | TLit t =>
      match binder tps (snd tp) with
      | Some (id, _, false) =>
        match vlook V E id with
        | Some lv =>
          match sem "" "CastLike" [] [Some (tensor (A.default_dtype (tl_lit t)) (tl_payload t)); Some lv] with
          | Some [cv] => Some (Some cv)
          | _ => None
          end
        | None => None
        end
      | _ => Some (Some (tensor (A.spec_fn slots (tl_lit t) (snd tp)) (tl_payload t)))
      end
    end.

  Fixpoint tread_all (E : venv V) (slots : list A.slot) (tps : list tslot) (l : list tslot) : option (list (option V)) :=
    match l with
    | [] => Some []
    | tp :: r =>
      match tread1 E slots tps tp, tread_all E slots tps r with
      | Some v, Some vs => Some (v :: vs)
      | _, _ => None
      end
    end.

  Definition targs (E : venv V) (c : tcall) : option (list (option V)) :=
    match slots_of c with
    | A.OK slots => let tps := combine (tc_args c) (map snd slots) in tread_all E slots tps tps
    | A.Err _ => None
    end.
End TRead.
