(* C19 property theorems, round 2: statements only, each closed by `exact`, Print Assumptions beneath.
   (1) executable models of the repairs 04 (SDPA.check shapes), 05 (cos/sin cache rows), 07 (RotaryEmbedding-23 freqs Expand):
       as-read `_refuted` witness + repaired `_fixed` theorem each;  (2) the Attention fusion: identity for every B, S, hidden
       size, num_heads (everything after the projections is an arbitrary function), with past / present, check()-sufficiency;
   (3) EXACT characterisations (iff) of the two known findings that stay unrepaired.
   DTYPE: every theorem here and in C19.v / C19_attention.v that is an identity is stated over an arbitrary carrier (an arbitrary
   field, or an arbitrary type for the index algebra): it does not mention float16 / float32 and holds for both; only the
   executable check models with a [dtype] argument (rms_check_rewrite, ln_check_rewrite, softmax_rule_fires) depend on the
   element type, and they take it as an input.  Rounding is outside (direct oracle, run per dtype). *)
From Coq Require Import List ZArith Bool Arith.
Require Import OV.Fusion.Field OV.Fusion.Norm OV.Fusion.Rotary OV.Fusion.RotaryProofs
               OV.Fusion.Attn OV.Fusion.AttnProofs OV.Fusion.AttnCharProofs OV.Fusion.CosSin OV.Fusion.CosSinProofs
               OV.Fusion.Attention OV.Fusion.AttentionProofs.
Import ListNotations.

(* ---- 1a. SDPA.check, shape part (fix 9ed3615) ------------------------------------------------------------------------ *)
(* repaired: every accepted match can be lowered (sdpa_via_mha accepts it, with a static head count): the pipeline cannot
   return a model containing the intermediate ai.onnxruntime._fusion::SDPA op *)
Theorem C19_sdpa_check_fixed_lowerable : forall st kb q k v m, sdpa_check true st kb q k v m = true ->
  exists h, sdpa_via_mha_check kb q k v = Some h /\ (0 <= h)%Z.
Proof. exact sdpa_check_fixed_lowerable. Qed.
Print Assumptions C19_sdpa_check_fixed_lowerable.
(* FINDING (fixed, C19:pipeline:sdpa-not-lowered-with-symbolic-num-heads): as read a symbolic head count is accepted and nothing lowers it *)
Theorem C19_sdpa_check_as_read_refuted : exists kb q k v, sdpa_check false false kb q k v None = true /\ sdpa_via_mha_check kb q k v = None
  /\ sdpa_check true false kb q k v None = false.
Proof. exact sdpa_check_as_read_refuted. Qed.
Print Assumptions C19_sdpa_check_as_read_refuted.
(* repaired, static dims: an accepted mask NumPy-broadcasts INTO the score shape [B,H,S,T] (it cannot enlarge batch / heads) *)
Theorem C19_sdpa_mask_fixed_into_score : forall st ms B H S T,
  (forall d, In d ms -> 0 <= d)%Z -> (0 <= B)%Z -> (0 <= H)%Z -> (0 <= S)%Z -> (0 <= T)%Z ->
  mask_into_score st ms [B; H; S; T] = true -> numpy_broadcastable (pad4 ms) [B; H; S; T] = true.
Proof. exact sdpa_mask_fixed_into_score. Qed.
Print Assumptions C19_sdpa_mask_fixed_into_score.
(* ... but with SYMBOLIC score dims the committed fix compares nothing (known finding, found by the thorough tier):
   [strict] = true is the proposed repair ready/C19_08 -- every static mask dim is 1 or is the score dim, for all dim codes *)
Theorem C19_sdpa_mask_strict_static_dims : forall ms B H S T, length ms = 4%nat ->
  mask_into_score true ms [B; H; S; T] = true ->
  Forall2 (fun m c => (0 <= m)%Z -> m = 1%Z \/ m = c) ms [B; H; S; T].
Proof. exact sdpa_mask_strict_static_dims. Qed.
Print Assumptions C19_sdpa_mask_strict_static_dims.
Theorem C19_sdpa_mask_symbolic_refuted : exists q k v ms, sdpa_check true false true q k v (Some (Some ms)) = true
  /\ sdpa_check true true true q k v (Some (Some ms)) = false
  /\ nth 0 ms 0%Z = 2%Z /\ (forall b, q = Some b -> nth 0 b 0%Z < 0)%Z.
Proof. exact sdpa_mask_symbolic_refuted. Qed.
Print Assumptions C19_sdpa_mask_symbolic_refuted.
Example C19_sdpa_check_fires : sdpa_check true false false (Some [-2; 4; -3; 8]%Z) (Some [-2; -4; 4; 8]%Z) (Some [-2; 4; -4; 8]%Z) (Some (Some [1; 1; -4]%Z)) = true
  /\ sdpa_check true false true (Some [1; 2; 3; 4]%Z) (Some [1; 2; 3; 4]%Z) (Some [1; 2; 3; 4]%Z) (Some (Some [3; 1; 3; 3]%Z)) = false
  /\ sdpa_check false false true (Some [1; 2; 3; 4]%Z) (Some [1; 2; 3; 4]%Z) (Some [1; 2; 3; 4]%Z) (Some (Some [3; 1; 3; 3]%Z)) = true.
Proof. repeat split; vm_compute; reflexivity. Qed.

(* ---- 1b. cos/sin cache rows (fix 48e3d56) ----------------------------------------------------------------------------- *)
Theorem C19_cache_rows_fixed : forall ids S, rotary_cache_ok (cache_rows true ids S) ids S = true.
Proof. exact cache_rows_fixed. Qed.
Print Assumptions C19_cache_rows_fixed.
Theorem C19_cache_rows_as_read_ok_iff : forall ids S, rotary_cache_ok (cache_rows false ids S) ids S = true <-> S <= list_max ids + 1.
Proof. exact cache_rows_as_read_ok_iff. Qed.
Print Assumptions C19_cache_rows_as_read_ok_iff.
(* FINDING (fixed, C19:cos_sin_cache:cache-shorter-than-sequence) *)
Theorem C19_cache_rows_as_read_refuted : exists ids S, S = length ids
  /\ rotary_cache_ok (cache_rows false ids S) ids S = false /\ rotary_cache_ok (cache_rows true ids S) ids S = true.
Proof. exact cache_rows_as_read_refuted. Qed.
Print Assumptions C19_cache_rows_as_read_refuted.
(* the hypothesis p <= max_pos of C19_cache_gather / C19_cos_sin_cache_identity holds for every fed id, either variant *)
Theorem C19_cache_rows_cover_ids : forall g ids S p, In p ids -> p <= cache_rows g ids S - 1.
Proof. exact cache_rows_cover_ids. Qed.
Print Assumptions C19_cache_rows_cover_ids.

(* ---- 1c. RotaryEmbedding-23 caches (fix c0398a5) ------------------------------------------------------------------------ *)
Theorem C19_rope23_expand_fixed : forall freqs xb fb_rt xb_rt,
  (0 < xb_rt)%Z -> rope23_pattern_ok fb_rt xb_rt = true ->
  (forall fb a b, freqs = Some [fb; a; b] -> same_dim fb xb = true -> fb_rt = xb_rt) ->
  rope23_operator_ok (cache_batch_after (rope23_expands true freqs xb) fb_rt xb_rt) xb_rt = true.
Proof. exact rope23_expand_fixed. Qed.
Print Assumptions C19_rope23_expand_fixed.
Theorem C19_rope23_as_read_ok_iff : forall freqs xb fb_rt xb_rt,
  rope23_operator_ok (cache_batch_after (rope23_expands false freqs xb) fb_rt xb_rt) xb_rt = true <-> fb_rt = xb_rt.
Proof. exact rope23_as_read_ok_iff. Qed.
Print Assumptions C19_rope23_as_read_ok_iff.
(* FINDING (fixed, C19:rules.fusion:rotary_embedding:freqs-batch-broadcast) *)
Theorem C19_rope23_as_read_refuted : exists freqs xb fb_rt xb_rt,
  rope23_pattern_ok fb_rt xb_rt = true
  /\ rope23_operator_ok (cache_batch_after (rope23_expands false freqs xb) fb_rt xb_rt) xb_rt = false
  /\ rope23_operator_ok (cache_batch_after (rope23_expands true freqs xb) fb_rt xb_rt) xb_rt = true.
Proof. exact rope23_as_read_refuted. Qed.
Print Assumptions C19_rope23_as_read_refuted.
Theorem C19_rope23_no_expand_iff : forall freqs xb, rope23_expands true freqs xb = false <->
  exists fb a b, freqs = Some [fb; a; b] /\ fb = xb /\ fb <> (-1)%Z.
Proof. exact rope23_no_expand_iff. Qed.
Print Assumptions C19_rope23_no_expand_iff.

(* ---- 2. Attention fusion ----------------------------------------------------------------------------------------------------- *)
Theorem C19_attention_fusion_identity : forall (A Out : Type) (dot : list A -> list A -> A) (add : A -> A -> A)
  (core : list (list A) -> list (list A) -> list (list A) -> Out) rows Wq Wk Wv bias,
  length bias = length Wq + length Wk + length Wv ->
  att_fused A dot add Out core rows (Wq ++ Wk ++ Wv) bias (length Wq) (length Wk) (length Wv)
  = att_pattern A dot add Out core rows Wq Wk Wv bias.
Proof. exact attention_fusion_identity. Qed.
Print Assumptions C19_attention_fusion_identity.
Theorem C19_attention_fusion_identity_past : forall (A Out : Type) (dot : list A -> list A -> A) (add : A -> A -> A)
  (core_past : list (list A) -> list (list A) -> list (list A) -> list A -> list A -> Out * list A * list A) rows Wq Wk Wv bias past,
  length bias = length Wq + length Wk + length Wv ->
  att_fused_past A dot add Out core_past rows (Wq ++ Wk ++ Wv) bias past (length Wq) (length Wk) (length Wv)
  = att_pattern_past A dot add Out core_past rows Wq Wk Wv bias past.
Proof. exact attention_fusion_identity_past. Qed.
Print Assumptions C19_attention_fusion_identity_past.
Theorem C19_attention_equals_mha : forall (A : Type) (d0 : A) (dot : list A -> list A -> A) (add : A -> A -> A)
  (attn : list (list A) -> list (list A) -> list (list A) -> option (list (list A)) -> list (list A))
  B S T H Dh Dv mask rows Wq Wk Wv bias,
  length bias = length Wq + length Wk + length Wv ->
  let core := fun q k v => mha_spec A d0 attn B S T H Dh Dv (concat q) (concat k) (concat v) mask in
  att_fused A dot add (list A) core rows (Wq ++ Wk ++ Wv) bias (length Wq) (length Wk) (length Wv)
  = att_pattern A dot add (list A) core rows Wq Wk Wv bias.
Proof. exact attention_equals_mha. Qed.
Print Assumptions C19_attention_equals_mha.
Example C19_attention_identity_computes :
  att_fused nat (fun r c => fold_right plus 0 (map2 mult r c)) plus (list (list nat)) (fun q k v => q ++ k ++ v)
            [[1; 2]; [3; 4]] ([[1; 0]] ++ [[0; 1]] ++ [[1; 1]]) [10; 20; 30] 1 1 1 = [[11]; [13]; [22]; [24]; [33]; [37]].
Proof. exact attention_identity_computes. Qed.
(* the packed-MatMul + Slice variant of the rule (no_slice = False) *)
Theorem C19_attention_fusion_identity_slice : forall (A Out : Type) (dot : list A -> list A -> A) (add : A -> A -> A)
  (core : list (list A) -> list (list A) -> list (list A) -> Out) rows W bias dq dk dv,
  length bias = length W -> dq + dk + dv = length W ->
  att_fused A dot add Out core rows W bias dq dk dv = att_pattern_slice A dot add Out core rows W bias dq dk.
Proof. exact attention_fusion_identity_slice. Qed.
Print Assumptions C19_attention_fusion_identity_slice.
Example C19_attention_slice_identity_computes :
  att_pattern_slice nat (fun r c => fold_right plus 0 (map2 mult r c)) plus (list (list nat)) (fun q k v => q ++ k ++ v)
            [[1; 2]; [3; 4]] [[1; 0]; [0; 1]; [1; 1]] [10; 20; 30] 1 1 = [[11]; [13]; [22]; [24]; [33]; [37]].
Proof. exact attention_slice_identity_computes. Qed.
(* check()-sufficiency of the packed variant: slices start at 0, are contiguous (equal bound values -- or both unknown, which the
   code also accepts: get_singleton_value(end1) == get_singleton_value(start2) is None == None), reach the end of the projection;
   weight [D, Dq + Dk + Dv] with the input's D; the slices' recorded widths are the emitted qkv_hidden_sizes *)
Theorem C19_att_check_sufficient_slice : forall i dq dk dv, ai_no_slice i = false -> att_check_rewrite i = Some (dq, dk, dv) ->
  exists b s d p0 p1 hidden s1 e1 s2 e2 s3 e3,
    ai_input i = Some [b; s; d] /\ ai_qkv_weight i = Some [d; dq + dk + dv]%Z
    /\ ai_projected i = Some [p0; p1; hidden] /\ (0 <= hidden)%Z
    /\ ai_bounds i = [s1; e1; s2; e2; s3; Some e3] /\ s1 = Some 0%Z /\ oz_eq e1 s2 = true /\ oz_eq e2 s3 = true /\ (hidden <= e3)%Z
    /\ ai_q i = Some [b; s; dq] /\ ai_k i = Some [b; s; dk] /\ ai_v i = Some [b; s; dv]
    /\ (0 <= dq /\ 0 <= dk /\ 0 <= dv)%Z.
Proof. exact att_check_sufficient_slice. Qed.
Print Assumptions C19_att_check_sufficient_slice.
Theorem C19_att_check_sufficient_noslice : forall i dq dk dv, ai_no_slice i = true -> att_check_rewrite i = Some (dq, dk, dv) ->
  exists b s d, ai_input i = Some [b; s; d] /\ ai_q i = Some [d; dq] /\ ai_k i = Some [d; dk] /\ ai_v i = Some [d; dv]
    /\ (0 <= dq /\ 0 <= dk /\ 0 <= dv)%Z.
Proof. exact att_check_sufficient_noslice. Qed.
Print Assumptions C19_att_check_sufficient_noslice.

(* ---- 3. exact characterisations of the unrepaired known findings ------------------------------------------------------------- *)
(* C19:mha:output-reshape-not-checked.  The fused operator returns [B, S, H*Dv] with the same row-major data as the pattern's
   final Reshape(Transpose(..) : [B,S,H,Dv], tgt).  For every target and every output shape ONNX Reshape can give: the fused
   graph's output equals the pattern's iff the target has the form decided by tgt_is_BSD (entries -1 (at most one), the
   operator's dim, or 0 where the input dim equals it). *)
Theorem C19_mha_output_reshape_same_iff : forall B S H Dv tgt out,
  (0 < B)%Z -> (0 < S)%Z -> (0 < H)%Z -> (0 < Dv)%Z ->
  reshape_result [B; S; H; Dv] tgt out ->
  (out = [B; S; H * Dv]%Z <-> tgt_is_BSD B S H Dv tgt = true).
Proof. exact mha_output_reshape_same_iff. Qed.
Print Assumptions C19_mha_output_reshape_same_iff.
Example C19_reshape_witnesses :
  (reshape_result [2; 3; 2; 4] [-1; 8] [6; 8] /\ tgt_is_BSD 2 3 2 4 [-1; 8] = false
  /\ reshape_result [2; 3; 2; 4] [0; -1; 4] [2; 6; 4] /\ tgt_is_BSD 2 3 2 4 [0; -1; 4] = false
  /\ reshape_result [2; 3; 2; 4] [0; 0; -1] [2; 3; 8] /\ tgt_is_BSD 2 3 2 4 [0; 0; -1] = true
  /\ tgt_is_BSD 2 3 2 4 [2; 3; 8] = true /\ tgt_is_BSD 2 3 2 4 [0; 0; 8] = true /\ tgt_is_BSD 2 3 2 4 [6; 1; 8] = false)%Z.
Proof. exact reshape_witnesses. Qed.
(* C19:cos_sin_cache:position-ids-batch-broadcast.  position_ids with 1 or B rows: some batch row is read differently by (or is
   out of range for) the fused operator iff position_ids does not have B rows *)
Theorem C19_cs_position_batch_differs_iff : forall (ids : list (list nat)) B, 0 < B -> (length ids = 1 \/ length ids = B) ->
  ((exists b, b < B /\ cs_fused_row ids b <> cs_pattern_row ids b) <-> length ids <> B).
Proof. exact cs_position_batch_differs_iff. Qed.
Print Assumptions C19_cs_position_batch_differs_iff.
Theorem C19_cs_batch_differs_spec : forall (ids : list (list nat)) B, 0 < B -> (length ids = 1 \/ length ids = B) ->
  (cs_batch_differs (length ids) B = true <-> exists b, b < B /\ cs_fused_row ids b <> cs_pattern_row ids b).
Proof. exact cs_batch_differs_spec. Qed.
Print Assumptions C19_cs_batch_differs_spec.

(* C19:mha:unnamed-dims-compared-equal (known; repair ready/C19_09: check_shape never equates two unknown dims).  With the repaired
   comparison every occurrence of an unnamed dim has its own code (<= -1000): an accepted match then has no unnamed dim among
   the query's batch / sequence dims, i.e. the hypothesis of C19_mha_check_sufficient holds for them; the witness is refused *)
Theorem C19_mha_check_fresh_unnamed : forall st i h ub q q4,
  mha_check_rewrite st i = Some (h, ub) -> mi_query i = Some q -> mi_query4 i = Some q4 ->
  NoDup (filter is_fresh_unnamed (q ++ q4)) ->
  forall d, In d (firstn 2 q) -> is_fresh_unnamed d = false.
Proof. exact mha_check_fresh_unnamed. Qed.
Print Assumptions C19_mha_check_fresh_unnamed.
Theorem C19_mha_unnamed_witness_refused_by_repair :
  mha_check_rewrite false (mk_mha_in false true true (Some [-1000; -1001; 8]%Z) (Some [-1002; -1003; 2; 4]%Z) (Some [-1004; -1005; 8]%Z) (Some [-1006; -1007; 8]%Z) None None None) = None.
Proof. exact mha_unnamed_witness_refused_by_repair. Qed.
Print Assumptions C19_mha_unnamed_witness_refused_by_repair.
