"""C05 families: _matmul_add_to_gemm.py (4 rules), _gemm_to_matmul_add.py, _broadcast_to_matmul.py (2 rules).

Model coq/Rules/MatmulGemm.v, proofs MatmulGemmProofs.v, property theorems Props/C05_matmul.v.
Correspondence
  * matmul_add_to_gemm: rule set on hosts over transA/transB, a/b ranks (2, 3, unknown), c shapes of rank 0-3 in both
    broadcast directions, c as input or initializer; fired? = mg_check_impl | mg_check_fixed, emitted transA/transB checked.
  * gemm_to_matmul_add: hosts over a ranks 2-4, c shapes [], [N], [1,N], [M',N], [M',1]; alpha/beta present, absent, off; extra
    attributes; fired? = check_bcast (+ g2m_c_ok when repaired).
  * check_if_not_need_reshape: called directly on stand-in values for random (shape_a, shape_b, shape_c) incl. rank 0/1,
    symbolic dims, near-miss shape_c (result Some bool / raised = check_bcast), and through the two real rules on hosts
    Reshape-MatMul-Reshape (intended merge/split reshapes and arbitrary re-factorisations).
Direct oracle: host vs rewritten on onnxruntime and onnx.reference, 3 integer-valued inputs, exact.
"""
from __future__ import annotations

import itertools

import numpy as np

from harness import c05_b_util as U
from harness import common
from harness.common import cbool, clist, cnat, copt, cz

FAM = "matmul"


def _ri(rs, shape):
    return rs.randint(-3, 4, shape).astype(np.float32)


# ------------------------------------------------------------------ S1 matmul_add_to_gemm

def _mg_stream(ctx, n_inst):
    from onnxscript.rewriter.rules.common import _matmul_add_to_gemm as mod
    rng = ctx.rng
    cases, meta = [], []
    fired = 0
    corpus = [dict(ta=False, tb=False, M=4, K=3, N=5, c=[1, 4, 5], arank=2, brank=2, c_init=False),
              dict(ta=False, tb=False, M=1, K=3, N=5, c=[4, 5], arank=2, brank=2, c_init=False),
              dict(ta=True, tb=True, M=4, K=3, N=5, c=[5], arank=2, brank=2, c_init=True)]
    for i in range(n_inst + len(corpus)):
        if i < len(corpus):
            inst = corpus[i]
        else:
            M, K, N = rng.choice([1, 2, 4]), rng.choice([1, 3]), rng.choice([1, 2, 5])
            cs = [[], [N], [1, N], [M, N], [M, 1], [1, 1], [1], [1, M, N], [2, M, N], [1, 1, N], [3, N] if M == 1 else [M, N], [M, 2] if N == 1 else [N]]
            inst = dict(ta=rng.random() < 0.4, tb=rng.random() < 0.4, M=M, K=K, N=N, c=rng.choice(cs),
                        arank=rng.choice([2, 2, 2, 2, 3, None]), brank=rng.choice([2, 2, 2, 2, 3, None]), c_init=rng.random() < 0.5)
        M, K, N = inst["M"], inst["K"], inst["N"]
        if inst["arank"] == 3 and inst["ta"]:
            inst["ta"] = False               # Transpose(perm=[1,0]) needs rank 2
        if inst["brank"] == 3 and inst["tb"]:
            inst["tb"] = False
        ash = [K, M] if inst["ta"] else [M, K]
        bsh = [N, K] if inst["tb"] else [K, N]
        if inst["arank"] == 3:
            ash = [2] + ash
        if inst["brank"] == 3:
            bsh = [2] + bsh
        nodes, inits = [], []
        inputs = [("a", "float32", ash), ("b", "float32", bsh)]
        an, bn_ = "a", "b"
        extra_feeds = {}
        for nm, rk, shp in (("a", inst["arank"], ash), ("b", inst["brank"], bsh)):
            if rk is None:                   # statically unknown rank: a Reshape whose target shape is a runtime input of unknown length
                inputs.append((nm + "_shape", "int64", ["L" + nm]))
                nodes.append(U.node("Reshape", [nm, nm + "_shape"], [nm + "_dyn"]))
                extra_feeds[nm + "_shape"] = np.array(shp, np.int64)
                if nm == "a":
                    an = "a_dyn"
                else:
                    bn_ = "b_dyn"
        if inst["ta"]:
            nodes.append(U.node("Transpose", [an], ["at"], perm=[1, 0]))
            an = "at"
        if inst["tb"]:
            nodes.append(U.node("Transpose", [bn_], ["bt"], perm=[1, 0]))
            bn_ = "bt"
        rs = np.random.RandomState(rng.randrange(1 << 30))
        cval = _ri(rs, inst["c"])
        if inst["c_init"]:
            inits.append(U.init("c", cval))
        else:
            inputs.append(("c", "float32", inst["c"]))
        nodes += [U.node("MatMul", [an, bn_], ["t"]), U.node("Add", ["t", "c"], ["y"])]
        try:
            oshape = np.broadcast_shapes(tuple(([2] if 3 in (inst["arank"], inst["brank"]) else []) + [M, N]), tuple(inst["c"]))
        except ValueError:
            continue
        host = U.model(nodes, inputs, [("y", "float32", [f"d{k}" for k in range(len(oshape))])], inits=inits)
        if not U.host_ok(host):
            ctx.tie_broken("harness", f"{FAM}:add_to_gemm", f"host not checker-valid: {inst}")
            continue
        new, exc = U.apply(host, mod.rules)
        ctx.case(("add_to_gemm", inst["ta"], inst["tb"], inst["arank"], inst["brank"], len(inst["c"]), tuple(inst["c"]) == (M, N), M == 1, N == 1, inst["c_init"]))
        if exc is not None:
            U.report(ctx, FAM, f"add_to_gemm:raises:{type(exc).__name__}", "rule set raised", {"instance": inst}, [repr(exc)[:200]])
            continue
        did = "Gemm" in U.ops(new) and "MatMul" not in U.ops(new)
        if did:
            fired += 1
            a = U.attrs(U.nodes_of(new, "Gemm")[0])
            if (bool(a.get("transA", 0)), bool(a.get("transB", 0))) != (inst["ta"], inst["tb"]) or set(a) - {"transA", "transB"}:
                ctx.tie_broken("correspondence", f"{FAM}:add_to_gemm", f"emitted attributes {a} for {inst}")
        feeds = [dict(extra_feeds, a=_ri(np.random.RandomState(500 + k), ash), b=_ri(np.random.RandomState(600 + k), bsh), c=cval + k) for k in range(3)]
        reasons, _ = U.oracle(host, new, feeds, exact=True)
        unidir = len(inst["c"]) <= 2 and all(cd in (1, od) for cd, od in zip(reversed(inst["c"]), reversed([M, N])))
        inst["unidir"] = unidir
        if reasons:
            kc = "add-to-gemm:c-not-broadcastable-to-MN" if (inst["arank"] == 2 and inst["brank"] == 2 and not unidir) else "add-to-gemm:other"
            U.report(ctx, FAM, kc, "Add(MatMul(a,b),c) -> Gemm(a,b,c) changes the model", {"instance": inst}, reasons)
        lit = "{| mg_rank_a := %s; mg_rank_b := %s; mg_m := %s; mg_n := %s; mg_c := Some %s |}" % (
            copt(inst["arank"], cnat), copt(inst["brank"], cnat), cz(M), cz(N), U.czl(inst["c"]))
        cases.append(f"({lit}, {cbool(did)})")
        meta.append(inst)
    ok, di, df, raw = U.eval_cases(ctx, ["OV.Rules.MatmulGemm"], "mg_case", cases, "mg_dis", chunk=600)
    if not ok:
        ctx.tie_broken("correspondence", f"{FAM}:add_to_gemm:model-evaluation", raw[-800:])
        return
    nbad, variant = U.settle(ctx, FAM, "add_to_gemm", meta, di, df,
                             lambda m: "c-not-unidir" if (m["arank"] == 2 and m["brank"] == 2 and not m["unidir"]) else None)
    ctx.cover(matmul_add_to_gemm_instances=len(cases), matmul_add_to_gemm_fired=fired, matmul_add_to_gemm_variant=variant)
    ctx.obligation("correspondence matmul_add_to_gemm: fired? = MatmulGemm.mg_check_impl or mg_check_fixed; emitted transA/transB = rule variant", nbad == 0)


# ------------------------------------------------------------------ S2 gemm_to_matmul_add

def _g2m_stream(ctx, n_inst):
    from onnxscript.rewriter.rules.common import _gemm_to_matmul_add as mod
    rng = ctx.rng
    cases, meta = [], []
    fired = 0
    corpus = [dict(batch=[2, 3], K=4, N=5, c="MN", miss="none"), dict(batch=[2, 3], K=4, N=5, c="N", miss="none"),
              dict(batch=[2, 1], K=2, N=2, c="N", miss="transB"), dict(batch=[2, 1], K=2, N=2, c="N", miss="transA")]
    for i in range(n_inst + len(corpus)):
        if i < len(corpus):
            inst = dict(corpus[i])
        else:
            inst = dict(batch=rng.choice([[2], [2, 3], [1, 3], [2, 1, 2], [3]]), K=rng.choice([1, 2, 4]), N=rng.choice([1, 3, 5]),
                        c=rng.choice(["N", "N", "1N", "MN", "M1", "scalar", "1"]),
                        miss=rng.choice(["none"] * 6 + ["alpha_absent", "alpha_off", "transB", "transB", "transA", "sc_wrong", "sc_minus1"]))
        batch, K, N = inst["batch"], inst["K"], inst["N"]
        ash = batch + [K]
        Mp = int(np.prod(batch))
        sa = [Mp, K]
        sc = batch + [N]
        if inst["miss"] == "sc_wrong":
            sc = [Mp, N] if len(batch) > 1 else [1] + sc
        if inst["miss"] == "sc_minus1":
            sc = [-1] + sc[1:]
        csh = {"N": [N], "1N": [1, N], "MN": [Mp, N], "M1": [Mp, 1], "scalar": [], "1": [1]}[inst["c"]]
        inst["csh"] = csh
        attrs = {"alpha": 1.0, "beta": 1.0}
        bsh = [K, N]
        if inst["miss"] == "alpha_absent":
            attrs = {"beta": 1.0}
        if inst["miss"] == "alpha_off":
            attrs["alpha"] = 2.0
        if inst["miss"] == "transB":
            attrs["transB"] = 1
            bsh = [N, K]
        if inst["miss"] == "transA":
            attrs["transA"] = 1
            sa = [K, Mp]
        nodes = [U.node("Reshape", ["a", "sa"], ["ra"]), U.node("Gemm", ["ra", "b", "c"], ["g"], **attrs), U.node("Reshape", ["g", "sc"], ["y"])]
        inits = [U.init("sa", np.array(sa, np.int64)), U.init("sc", np.array(sc, np.int64))]
        host = U.model(nodes, [("a", "float32", ash), ("b", "float32", bsh), ("c", "float32", csh)],
                       [("y", "float32", [f"d{k}" for k in range(len(sc))])], inits=inits)
        if not U.host_ok(host):
            ctx.tie_broken("harness", f"{FAM}:gemm_to_matmul_add", f"host not checker-valid: {inst}")
            continue
        new, exc = U.apply(host, [mod.gemm_to_matmul_add_rule])
        ctx.case(("gemm_to_matmul_add", len(batch), inst["c"], inst["miss"], K == 1, N == 1))
        if exc is not None:
            U.report(ctx, FAM, f"gemm_to_matmul_add:raises:{type(exc).__name__}", "rule raised", {"instance": inst}, [repr(exc)[:200]])
            continue
        did = U.ops(new) == ["MatMul", "Add"]
        fired += did
        feeds = [{"a": _ri(np.random.RandomState(700 + k), ash), "b": _ri(np.random.RandomState(710 + k), bsh), "c": _ri(np.random.RandomState(720 + k), csh)} for k in range(3)]
        reasons, _ = U.oracle(host, new, feeds, exact=True)
        c_ok = len(csh) <= len(sc) and all(cd in (1, od) for cd, od in zip(reversed(csh), reversed(sc)))
        inst["c_ok"] = c_ok
        if reasons:
            kc = "gemm-to-matmul-add:c-rows-of-flattened-M" if (inst["miss"] == "none" and not c_ok) else (
                "gemm-to-matmul-add:transA-transB-ignored" if inst["miss"] in ("transA", "transB") else f"gemm-to-matmul-add:{inst['miss']}")
            U.report(ctx, FAM, kc, "Reshape(Gemm(Reshape(a),b,c)) -> Add(MatMul(a,b),c) changes the model", {"instance": inst}, reasons)
        if inst["miss"] in ("alpha_absent", "alpha_off"):       # pattern level (attributes)
            if did:
                ctx.tie_broken("correspondence", f"{FAM}:gemm_to_matmul_add", f"fired although the Gemm attributes are not alpha=1,beta=1 only: {inst}")
            continue
        cases.append(f"({U.czl(ash)}, {U.czl(bsh)}, {U.czl(sc)}, {U.czl(csh)}, {cbool(inst['miss'] in ('transA', 'transB'))}, {cbool(did)})")
        meta.append(inst)
    ok, di, df, raw = U.eval_cases(ctx, ["OV.Rules.MatmulGemm"], "g2m_case", cases, "g2m_dis", chunk=600)
    if not ok:
        ctx.tie_broken("correspondence", f"{FAM}:gemm_to_matmul_add:model-evaluation", raw[-800:])
        return
    nbad, variant = U.settle(ctx, FAM, "gemm_to_matmul_add", meta, di, df,
                             lambda m: "c-rows" if (m["miss"] == "none" and not m["c_ok"]) else ("trans" if m["miss"] in ("transA", "transB") else None))
    ctx.cover(gemm_to_matmul_add_instances=len(cases), gemm_to_matmul_add_fired=int(fired), gemm_to_matmul_add_variant=variant)
    ctx.obligation("correspondence gemm_to_matmul_add: fired? = check_bcast on (a, b, shape_c) [and g2m_c_ok when repaired]", nbad == 0)


# ------------------------------------------------------------------ S3/S4 broadcast_to_matmul

class _V:
    """stand-in for ir.Value: check_if_not_need_reshape reads only .shape and .const_value"""

    def __init__(self, shape=None, const=None):
        import onnx_ir as ir
        self.shape = ir.Shape(shape) if shape is not None else None
        self.const_value = ir.tensor(np.array(const, np.int64)) if const is not None else None
        self.name = "v"


def _factorizations(n, maxrank):
    res = set()

    def rec(prefix, rem, r):
        if r == 0:
            if rem == 1:
                res.add(tuple(prefix))
            return
        for d in range(1, rem + 1):
            if rem % d == 0:
                rec(prefix + [d], rem // d, r - 1)
    for r in range(1, maxrank + 1):
        rec([], n, r)
    return sorted(res)


def _np_matmul_shape(sa, sb):
    try:
        return list(np.matmul(np.zeros(sa), np.zeros(sb)).shape)
    except Exception:
        return None


def _lit_shape(s):
    """symbolic dims (strings) become distinct negative numbers"""
    return U.czl([d if isinstance(d, int) else -(1 + (sum(map(ord, d)) % 7)) for d in s])


def _check_direct(ctx, mod, n):
    rng = ctx.rng
    cases, meta = [], []
    dims = [1, 1, 2, 3, 4]
    corpus = [([2, 1], [2, 1], [2, 1]), ([], [1, 1], [1]), ([1, 1], [], [1]), ([], [], []), ([2], [2], []), ([2], [2, 2], [2]),
              ([2, 1, 1, 1], [2, 1, 1], [2, 2, 1, 1]), (["B", 3, 4], [4, 5], [2, 3, 5]), ([2, 3, 4], [4, 5], [2, 3, 5])]
    for i in range(n + len(corpus)):
        if i < len(corpus):
            sa, sb, sc = corpus[i]
        else:
            sa = [rng.choice(dims) for _ in range(rng.choice([0, 1, 1, 2, 2, 3, 3, 4]))]
            sb = [rng.choice(dims) for _ in range(rng.choice([0, 1, 1, 2, 2, 3, 3, 4]))]
            if len(sa) >= 2 and len(sb) >= 2 and rng.random() < 0.6:
                sb[-2] = sa[-1]                              # make the inner dims agree most of the time
            if len(sa) >= 1 and len(sb) >= 2 and rng.random() < 0.1:
                sa[-1] = 1                                   # the hole: ka = 1 against any kb
            if rng.random() < 0.05 and sa:
                sa[rng.randrange(len(sa))] = "N"
            want = _np_matmul_shape([d if isinstance(d, int) else 2 for d in sa], sb) if sa and sb else None
            r = rng.random()
            if want is not None and r < 0.6:
                sc = want
            elif want is not None and r < 0.8 and want:
                sc = list(want)
                j = rng.randrange(len(sc))
                sc[j] = sc[j] + 1 if rng.random() < 0.5 else -1
            else:
                sc = [rng.choice(dims) for _ in range(rng.choice([0, 1, 2, 3, 4]))]
        try:
            got = bool(mod.check_if_not_need_reshape(None, _V(sa), _V(sb), _V(const=sc)))
        except IndexError:
            got = None
        except Exception as e:
            ctx.tie_broken("correspondence", f"{FAM}:check_if_not_need_reshape", f"unexpected {e!r} on {sa, sb, sc}")
            continue
        cases.append(f"({_lit_shape(sa)}, {_lit_shape(sb)}, {U.czl(sc)}, {copt(got, cbool)})")
        meta.append(dict(sa=sa, sb=sb, sc=sc, got=got))
        ctx.case(("check_direct", len(sa), len(sb), len(sc), got))
    return cases, meta


def _reshape_hosts(ctx, mod, n):
    """the two real rules on Reshape-MatMul-Reshape hosts"""
    rng = ctx.rng
    cases, meta = [], []
    fired = 0
    corpus = [((2,), (2, 2), (2,), (2, 2, 1), (2,)), ((2, 1), (2, 1), (2, 1, 1), (2, 1, 1), (2, 1)),
              ((2, 1, 1, 1), (2, 1, 1), (1, 2, 1), None, (2, 2, 1, 1)), ((), (1, 1), (1,), (1,), (1,)),
              ((2, 3, 4), (4, 5), (6, 4), None, (2, 3, 5)), ((1, 4, 3, 3), (1, 4, 3, 2), (4, 3, 3), (4, 3, 2), (1, 4, 3, 2))]
    tried = 0
    while len(cases) < n + len(corpus) and tried < 40 * n:
        tried += 1
        if len(cases) < len(corpus):
            sa, sb, ra, rb, sc = corpus[len(cases)]
        else:
            if rng.random() < 0.5:          # the intended use: merge leading dims of a, b untouched or with a leading 1
                batch = [rng.choice([1, 2, 3]) for _ in range(rng.choice([1, 2]))]
                m, k, nn = rng.choice([1, 2, 3]), rng.choice([1, 2, 3]), rng.choice([1, 2, 3])
                sa = tuple(batch + [m, k])
                sb = (k, nn) if rng.random() < 0.7 else tuple([1] + [k, nn])
                ra = (int(np.prod(batch)) * m, k)
                rb = None if rng.random() < 0.5 else (sb if rng.random() < 0.5 else tuple(x for x in sb if True))
                sc = tuple(batch + [m, nn]) if len(sb) == 2 else tuple(_np_matmul_shape(sa, sb))
            else:                            # arbitrary re-factorisations with matching element counts
                sa = tuple(rng.choice([1, 2, 3]) for _ in range(rng.choice([1, 2, 3, 4])))
                sb = tuple(rng.choice([1, 2, 3]) for _ in range(rng.choice([1, 2, 3])))
                ra = rng.choice(_factorizations(int(np.prod(sa)), 3))
                rb = None if rng.random() < 0.4 else rng.choice(_factorizations(int(np.prod(sb)), 3))
                inner = _np_matmul_shape(ra, rb if rb is not None else sb)
                if inner is None:
                    continue
                direct = _np_matmul_shape(sa, sb)
                cnt = int(np.prod(inner))
                if direct is not None and int(np.prod(direct)) == cnt and rng.random() < 0.8:
                    sc = tuple(direct) if direct else None
                else:
                    sc = rng.choice(_factorizations(cnt, 4))
                if sc is None:
                    continue
        na, nb = int(np.prod(sa)), int(np.prod(sb))
        nodes = [U.node("Reshape", ["a", "sa"], ["ra"])]
        inits = [U.init("sa", np.array(ra, np.int64)), U.init("sc", np.array(sc, np.int64))]
        if rb is not None:
            nodes.append(U.node("Reshape", ["b", "sb"], ["rb"]))
            inits.append(U.init("sb", np.array(rb, np.int64)))
        nodes += [U.node("MatMul", ["ra", "rb" if rb is not None else "b"], ["mm"]), U.node("Reshape", ["mm", "sc"], ["y"])]
        host = U.model(nodes, [("a", "float32", list(sa)), ("b", "float32", list(sb))], [("y", "float32", list(sc))], inits=inits)
        if not U.host_ok(host):
            continue                         # e.g. element counts that do not match: not a valid host
        new, exc = U.apply(host, mod.rules)
        inst = dict(sa=list(sa), sb=list(sb), ra=list(ra), rb=None if rb is None else list(rb), sc=list(sc))
        ctx.case(("reshape_host", len(sa), len(sb), len(ra), rb is None or len(rb), len(sc)))
        got = None
        if exc is not None:
            rank0 = len(sa) == 0 or len(sb) == 0
            U.report(ctx, FAM, "reshape:rank0-operand-raises" if rank0 else f"reshape:raises:{type(exc).__name__}",
                     "rewrite raised on a valid Reshape-MatMul-Reshape model", {"instance": inst}, [repr(exc)[:200] + " / " + repr(getattr(exc, "__cause__", None))[:200]])
        else:
            got = U.ops(new) == ["MatMul"]
            fired += got
            feeds = [{"a": (np.arange(1, na + 1, dtype=np.float32) + k).reshape(sa), "b": ((np.arange(1, nb + 1, dtype=np.float32) + 2 * k) ** 2).reshape(sb)} for k in range(3)]
            reasons, _ = U.oracle(host, new, feeds, exact=True)
            if reasons:
                inner_bad = len(sa) >= 2 and len(sb) >= 2 and sa[-1] != sb[-2]
                U.report(ctx, FAM, "reshape:inner-dim-1-accepted" if inner_bad else "reshape:operand-layout-changed",
                         "Reshape(MatMul(Reshape(a), Reshape(b)|b)) -> MatMul(a, b) changes the model", {"instance": inst}, reasons)
        cases.append(f"({U.czl(sa)}, {U.czl(sb)}, {U.czl(sc)}, {copt(got, cbool)})")
        meta.append(dict(sa=list(sa), sb=list(sb), sc=list(sc), got=got, host=True))
    return cases, meta, fired


def _defect_cb(m):
    sa, sb = m["sa"], m["sb"]
    if any(not isinstance(d, int) for d in sa + sb):
        return None
    if (len(sa) == 0) != (len(sb) == 0) and max(len(sa), len(sb)) >= 2:
        return "rank0"
    if len(sa) >= 2 and len(sb) >= 2 and sa[-1] == 1 and sb[-2] != 1:
        return "inner-dim"
    return None


def family(ctx):
    from onnxscript.rewriter.rules.common import _broadcast_to_matmul as bmod
    ctx.assume("matmul: ONNX MatMul = numpy.matmul (1-D promotion, batch broadcast), Gemm = alpha*A'B' + beta*C with C unidirectionally "
               "broadcastable to (M,N), Reshape row-major; value equality for the reshape rules is NOT proved (refuted, see C05_matmul_reshape_values_refuted), "
               "only shape equality under the check")
    q = ctx.tier == "quick"
    _mg_stream(ctx, 110 if q else 1100)
    _g2m_stream(ctx, 70 if q else 700)
    c1, m1 = _check_direct(ctx, bmod, 500 if q else 4000)
    c2, m2, fired = _reshape_hosts(ctx, bmod, 110 if q else 900)
    cases, meta = c1 + c2, m1 + m2
    ok_all, di, df, raw = U.eval_cases(ctx, ["OV.Rules.MatmulGemm"], "cb_case", cases, "cb_dis", chunk=800)
    if not ok_all:
        ctx.tie_broken("correspondence", f"{FAM}:check_bcast:model-evaluation", raw[-800:])
    if ok_all:
        nbad, variant = U.settle(ctx, FAM, "check_if_not_need_reshape", meta, di, df, _defect_cb)
        ctx.sample({"family": FAM, "check_if_not_need_reshape": meta[len(meta) // 2]})
        ctx.cover(matmul_check_direct_calls=len(c1), matmul_reshape_hosts=len(c2), matmul_reshape_hosts_fired=int(fired), matmul_reshape_variant=variant,
                  c05b_oracle_stats=dict(U.STATS))
        ctx.obligation("correspondence broadcast_to_matmul: check_if_not_need_reshape (direct calls and through the two rules) = MatmulGemm.check_bcast (as read or strict)", nbad == 0)
