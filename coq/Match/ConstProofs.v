(* C06 -- constants: the laws of the tolerance test (math.isclose over the rationals, Pattern.isclose) and the shape rule
   of list constants (a list constant stands for a rank-1 tensor of exactly that length). *)
From Coq Require Import List ZArith String Bool Arith Lia QArith Qabs.
Require Import OV.Match.Pattern OV.Match.Matcher OV.Match.Spec OV.Match.SoundProofs OV.Match.FeatureProofs.
Import ListNotations.
Close Scope Q_scope.

(* ------------------------------------------------------------------ qmax *)
Lemma qmax_comm : forall a b, (qmax a b == qmax b a)%Q.
Proof.
  intros a b. unfold qmax. destruct (Qle_bool a b) eqn:E1; destruct (Qle_bool b a) eqn:E2; try reflexivity.
  - apply Qle_bool_iff in E1. apply Qle_bool_iff in E2. apply Qle_antisym; auto.
  - assert (L1 : (b < a)%Q). { apply Qnot_le_lt. intro K. apply Qle_bool_iff in K. congruence. }
    assert (L2 : (a < b)%Q). { apply Qnot_le_lt. intro K. apply Qle_bool_iff in K. congruence. }
    exfalso. apply (Qlt_irrefl a). eapply Qlt_trans; eauto.
Qed.

Lemma qmax_ge_l : forall a b, (a <= qmax a b)%Q.
Proof. intros. apply qmax_le. left. apply Qle_refl. Qed.

Lemma qmax_abs_nonneg : forall a b, (0 <= qmax (Qabs a) (Qabs b))%Q.
Proof. intros. eapply Qle_trans; [apply (Qabs_nonneg a) | apply qmax_ge_l]. Qed.

Lemma qabs_sub_comm : forall a b, (Qabs (a - b) == Qabs (b - a))%Q.
Proof. intros. rewrite (Qabs_Qminus a b). reflexivity. Qed.

(* ------------------------------------------------------------------ isclose as a proposition *)
(* abs(a-b) <= max(rel_tol * max(abs(a), abs(b)), abs_tol)  (CPython: Modules/mathmodule.c math_isclose_impl, for
   finite arguments and non-negative tolerances; negative tolerances raise ValueError there) *)
Definition close (a b rel abs : Q) : Prop :=
  (Qabs (a - b) <= rel * qmax (Qabs a) (Qabs b))%Q \/ (Qabs (a - b) <= abs)%Q.

Lemma isclose_close : forall a b rel abs, isclose a b rel abs = true <-> close a b rel abs.
Proof. exact isclose_iff. Qed.

(* symmetric in the two numbers: the order in which the matcher hands the tensor element and the pattern constant to
   math.isclose does not matter *)
Theorem isclose_sym : forall a b rel abs, isclose a b rel abs = isclose b a rel abs.
Proof.
  intros. apply Bool.eq_iff_eq_true. rewrite !isclose_close. unfold close.
  rewrite (qabs_sub_comm a b). rewrite (qmax_comm (Qabs a) (Qabs b)). reflexivity.
Qed.

(* reflexive as soon as one tolerance is non-negative (Python refuses negative tolerances) *)
Theorem isclose_refl : forall a rel abs, (0 <= rel)%Q \/ (0 <= abs)%Q -> isclose a a rel abs = true.
Proof.
  intros a rel abs H. apply isclose_close. unfold close.
  assert (Z : (Qabs (a - a) == 0)%Q).
  { assert (E : (a - a == 0)%Q) by ring. rewrite E. reflexivity. }
  rewrite Z. destruct H as [H|H]; [left|right; exact H].
  apply Qmult_le_0_compat; [exact H | apply qmax_abs_nonneg].
Qed.

(* equal numbers are close whatever the other number of the pair is compared with: a == a' *)
Theorem isclose_eq : forall a a' rel abs, (a == a')%Q -> (0 <= rel)%Q \/ (0 <= abs)%Q -> isclose a a' rel abs = true.
Proof.
  intros a a' rel abs E H. apply isclose_close. unfold close.
  assert (Z : (Qabs (a - a') == 0)%Q).
  { assert (E' : (a - a' == 0)%Q) by (rewrite E; ring). rewrite E'. reflexivity. }
  rewrite Z. destruct H as [H|H]; [left|right; exact H].
  apply Qmult_le_0_compat; [exact H | apply qmax_abs_nonneg].
Qed.

(* monotone in both tolerances *)
Theorem isclose_mono : forall a b rel abs rel' abs',
  (rel <= rel')%Q -> (abs <= abs')%Q -> isclose a b rel abs = true -> isclose a b rel' abs' = true.
Proof.
  intros a b rel abs rel' abs' Hr Ha H. apply isclose_close in H. apply isclose_close. destruct H as [H|H].
  - left. eapply Qle_trans; [exact H|]. apply Qmult_le_compat_r; [exact Hr | apply qmax_abs_nonneg].
  - right. eapply Qle_trans; eauto.
Qed.

(* with both tolerances zero: equality *)
Theorem isclose_exact : forall a b, isclose a b 0 0 = true <-> (a == b)%Q.
Proof.
  intros a b. rewrite isclose_close. unfold close. split.
  - intro H. assert (L : (Qabs (a - b) <= 0)%Q).
    { destruct H as [H|H]; [|exact H]. eapply Qle_trans; [exact H|]. rewrite Qmult_0_l. apply Qle_refl. }
    assert (Z : (Qabs (a - b) == 0)%Q) by (apply Qle_antisym; [exact L | apply Qabs_nonneg]).
    assert (E : (a - b == 0)%Q).
    { apply Qle_antisym.
      - eapply Qle_trans; [apply Qle_Qabs | exact L].
      - assert (K : (- (a - b) <= 0)%Q).
        { eapply Qle_trans; [apply Qle_Qabs|]. rewrite Qabs_opp. exact L. }
        apply Qopp_le_compat in K. rewrite Qopp_involutive in K. exact K. }
    assert (E2 : (a == (a - b) + b)%Q) by ring. rewrite E2, E. ring.
  - intro E. right. assert (E' : (a - b == 0)%Q) by (rewrite E; ring). rewrite E'. apply Qle_refl.
Qed.

(* changing the sign of both numbers changes nothing *)
Theorem isclose_opp : forall a b rel abs, isclose (- a) (- b) rel abs = isclose a b rel abs.
Proof.
  intros. apply Bool.eq_iff_eq_true. rewrite !isclose_close. unfold close.
  assert (O : forall x, Qabs (- x) = Qabs x).
  { intros [n d]. unfold Qabs, Qopp. simpl. rewrite Z.abs_opp. reflexivity. }
  assert (E : (- a - - b == - (a - b))%Q) by ring.
  rewrite E. rewrite !O. reflexivity.
Qed.

(* against the constant zero only the absolute tolerance counts (for a relative tolerance below 1): x + 0 patterns *)
Theorem isclose_zero : forall y rel abs, (0 <= abs)%Q -> (rel < 1)%Q ->
  (isclose y 0 rel abs = true <-> (Qabs y <= abs)%Q).
Proof.
  intros y rel abs Ha Hr. rewrite isclose_close. unfold close.
  assert (E : (y - 0 == y)%Q) by ring. rewrite E.
  assert (M : (qmax (Qabs y) (Qabs 0) == Qabs y)%Q).
  { unfold qmax. destruct (Qle_bool (Qabs y) (Qabs 0)) eqn:L; [|reflexivity].
    apply Qle_bool_iff in L. apply Qle_antisym; [|exact L]. apply Qabs_nonneg. }
  rewrite M. split; [|auto]. intros [H|H]; [|exact H].
  (* |y| <= rel * |y| with rel < 1 forces |y| = 0 *)
  destruct (Qlt_le_dec 0 (Qabs y)) as [P|P].
  - exfalso. assert (K : (rel * Qabs y < 1 * Qabs y)%Q) by (apply Qmult_lt_compat_r; auto).
    rewrite Qmult_1_l in K. apply (Qlt_irrefl (Qabs y)). eapply Qle_lt_trans; eauto.
  - eapply Qle_trans; eauto.
Qed.

(* NOT transitive: "agree within the tolerance" is not an equivalence; two host constants that both match a pattern
   constant need not match each other *)
Definition isclose_transitive_full : Prop :=
  forall a b c rel abs, (0 <= rel)%Q -> (0 <= abs)%Q ->
    isclose a b rel abs = true -> isclose b c rel abs = true -> isclose a c rel abs = true.

Theorem isclose_transitive_refuted : ~ isclose_transitive_full.
Proof.
  intro H. specialize (H 0%Q 1%Q (2#1)%Q 0%Q 1%Q).
  assert (F : isclose 0 (2#1) 0 1 = false) by (vm_compute; reflexivity).
  rewrite H in F; try discriminate; try (vm_compute; reflexivity).
  all: try (unfold Qle; simpl; lia).
Qed.

(* the same in the relative regime (absolute tolerance 0) *)
Theorem isclose_transitive_refuted_rel :
  exists a b c rel, (0 <= rel)%Q /\ isclose a b rel 0 = true /\ isclose b c rel 0 = true /\ isclose a c rel 0 = false.
Proof.
  exists (100#1)%Q, (110#1)%Q, (121#1)%Q, (1#10)%Q. repeat split; try (vm_compute; reflexivity).
  unfold Qle; simpl; lia.
Qed.

(* ------------------------------------------------------------------ list constants, element by element *)
Theorem all_close_iff : forall ys ps rel abs,
  all_close ys ps rel abs = true <->
  List.length ys = List.length ps /\
  forall i, i < List.length ps -> isclose (nth i ys 0%Q) (nth i ps 0%Q) rel abs = true.
Proof.
  induction ys as [| y t IH]; intros [| p ps] rel abs; simpl.
  - split; auto. intros _. split; auto. intros i H; lia.
  - split; [discriminate|]. intros [H _]; discriminate.
  - split; [discriminate|]. intros [H _]; discriminate.
  - rewrite andb_true_iff, IH. split.
    + intros [H1 [H2 H3]]. split; [f_equal; auto|]. intros [|i] L; auto. apply H3. lia.
    + intros [H1 H2]. split; [apply (H2 0); lia|]. split; [inversion H1; auto|].
      intros i L. apply (H2 (S i)). lia.
Qed.

(* ------------------------------------------------------------------ the shape rule of list constants *)
(* what matches a list constant has rank 1 *)
Theorem const_list_rank1 : forall g ps rel abs x,
  const_ok g (CPVec ps rel abs) x = true ->
  exists cv sh ys, assoc Nat.eqb x (g_consts g) = Some cv /\ cval_view cv = Some (sh, ys) /\
                   List.length sh = 1 /\ sh = [List.length ps] /\ List.length ys = List.length ps.
Proof.
  intros g ps rel abs x H. apply const_vector_iff in H as (cv & ys & E & V & A).
  exists cv, [List.length ps], ys. repeat split; auto. eapply all_close_length; eauto.
Qed.

(* a constant of any other shape -- same elements or not: [n,1], [1,n], [1,1,n], 0-d for a one-element list, another
   length -- does not match *)
Theorem const_list_other_shape : forall g ps rel abs x cv sh ys,
  assoc Nat.eqb x (g_consts g) = Some cv -> cval_view cv = Some (sh, ys) -> sh <> [List.length ps] ->
  const_ok g (CPVec ps rel abs) x = false.
Proof.
  intros g ps rel abs x cv sh ys E V N. destruct (const_ok g (CPVec ps rel abs) x) eqn:H; auto.
  apply const_vector_iff in H as (cv' & ys' & E' & V' & _). rewrite E in E'. inversion E'; subst cv'.
  rewrite V in V'. inversion V'; subst. congruence.
Qed.

Corollary const_list_not_column : forall g ps rel abs x ys n,
  assoc Nat.eqb x (g_consts g) = Some (CTensor [n; 1] ys) -> const_ok g (CPVec ps rel abs) x = false.
Proof. intros. eapply const_list_other_shape; eauto. reflexivity. discriminate. Qed.

Corollary const_list_not_row : forall g ps rel abs x ys n,
  assoc Nat.eqb x (g_consts g) = Some (CTensor [1; n] ys) -> const_ok g (CPVec ps rel abs) x = false.
Proof. intros. eapply const_list_other_shape; eauto. reflexivity. discriminate. Qed.

Corollary const_list_not_0d : forall g ps rel abs x ys,
  assoc Nat.eqb x (g_consts g) = Some (CTensor [] ys) -> const_ok g (CPVec ps rel abs) x = false.
Proof. intros. eapply const_list_other_shape; eauto. reflexivity. discriminate. Qed.

(* a scalar constant pattern matches 0-d constants only *)
Theorem const_scalar_other_shape : forall g q rel abs x cv sh ys,
  assoc Nat.eqb x (g_consts g) = Some cv -> cval_view cv = Some (sh, ys) -> sh <> [] ->
  const_ok g (CPScalar q rel abs) x = false.
Proof.
  intros g q rel abs x cv sh ys E V N. destruct (const_ok g (CPScalar q rel abs) x) eqn:H; auto.
  apply const_scalar_iff in H as (cv' & y & E' & V' & _). rewrite E in E'. inversion E'; subst cv'.
  rewrite V in V'. inversion V'; subst. congruence.
Qed.

(* the two encodings of a rank-1 / 0-d constant are read alike *)
Theorem const_ok_encoding : forall g g' c x cv cv',
  assoc Nat.eqb x (g_consts g) = Some cv -> assoc Nat.eqb x (g_consts g') = Some cv' ->
  cval_view cv = cval_view cv' -> const_ok g c x = const_ok g' c x.
Proof. intros g g' c x cv cv' E E' V. unfold const_ok. rewrite E, E', V. reflexivity. Qed.

(* ------------------------------------------------------------------ at the level of the matcher and of the meaning *)
(* the declarative meaning: a Constant pattern stands for the value it was matched with, which is a constant that agrees *)
Theorem const_vlocal_iff : forall g s k c v,
  vlocal g s (PConst k c) v = true <->
  exists x, v = Some x /\ key_is s (KObj k) v = true /\ const_ok g c x = true.
Proof.
  intros g s k c v. cbn [vlocal]. unfold boundary_blocks. destruct v as [x|].
  - rewrite andb_false_r. cbn [negb andb]. rewrite andb_true_iff. split.
    + intros [H1 H2]. exists x. auto.
    + intros (x' & E & H1 & H2). inversion E; subst. auto.
  - cbn [negb andb]. rewrite andb_false_r. split; [discriminate|]. intros (x & E & _); discriminate.
Qed.

Theorem list_const_vlocal_iff : forall g s k ps rel abs v,
  vlocal g s (PConst k (CPVec ps rel abs)) v = true <->
  exists x cv ys, v = Some x /\ key_is s (KObj k) v = true /\ assoc Nat.eqb x (g_consts g) = Some cv /\
                  cval_view cv = Some ([List.length ps], ys) /\ all_close ys ps rel abs = true.
Proof.
  intros. rewrite const_vlocal_iff. split.
  - intros (x & E & K & C). apply const_vector_iff in C as (cv & ys & A & V & L). exists x, cv, ys. auto.
  - intros (x & cv & ys & E & K & A & V & L). exists x. repeat split; auto. apply const_vector_iff. eauto.
Qed.

(* the matcher: _match_value on a Constant pattern succeeds exactly when the value can be bound to the pattern object and
   is a constant that agrees; the state changes by that binding only *)
Theorem match_value_const_iff : forall fl g tbl rec k c v st st1,
  match_value fl g tbl rec (PConst k c) v st = Ok st1 <->
  exists x, v = Some x /\ bind_key (KObj k) v st = Some st1 /\ const_ok g c x = true.
Proof.
  intros fl g tbl rec k c v st st1. cbn [match_value]. unfold boundary_blocks. destruct v as [x|].
  - rewrite andb_false_r. destruct (bind_key (KObj k) (Some x) st) as [st'|]; cbn [of_opt rbind].
    + destruct (const_ok g c x) eqn:C; split.
      * intro H. inversion H; subst. exists x. repeat split; auto.
      * intros (x' & E & B & _). inversion B; subst. reflexivity.
      * discriminate.
      * intros (x' & E & _ & C'). inversion E; subst. congruence.
    + split; [discriminate|]. intros (x' & _ & B & _). discriminate.
  - destruct (bind_key (KObj k) None st) as [st'|]; cbn [of_opt rbind]; (split; [discriminate|]);
      intros (x' & E & _); discriminate.
Qed.

(* ------------------------------------------------------------------ examples (hypotheses satisfiable, witnesses) *)
Lemma isclose_mono_example :
  isclose (1001#1000) 1 (1#1000) 0 = true /\ isclose (1001#1000) 1 (1#100) (1#2) = true /\ isclose (1001#1000) 1 (1#10000) 0 = false.
Proof. vm_compute. auto. Qed.

Lemma const_list_example :
  const_ok (mkHG [] [] [(0, CVec [0%Q; 0%Q]); (1, CTensor [2] [0%Q; 0%Q])] []) (CPVec [0%Q; 0%Q] (1#100000) (1#100000000)) 0 = true /\
  const_ok (mkHG [] [] [(0, CVec [0%Q; 0%Q]); (1, CTensor [2] [0%Q; 0%Q])] []) (CPVec [0%Q; 0%Q] (1#100000) (1#100000000)) 1 = true.
Proof. vm_compute. auto. Qed.

Lemma const_list_other_shape_example :
  let g := mkHG [] [] [(0, CTensor [2; 1] [0%Q; 0%Q]); (1, CTensor [1; 2] [0%Q; 0%Q]); (2, CScalar 0%Q); (3, CTensor [] [0%Q])] [] in
  const_ok g (CPVec [0%Q; 0%Q] (1#100000) (1#100000000)) 0 = false /\
  const_ok g (CPVec [0%Q; 0%Q] (1#100000) (1#100000000)) 1 = false /\
  const_ok g (CPVec [0%Q] (1#100000) (1#100000000)) 2 = false /\
  const_ok g (CPVec [0%Q] (1#100000) (1#100000000)) 3 = false.
Proof. vm_compute. auto. Qed.
