From Coq Require Import List String Ascii Bool Permutation Sorting.Sorted NArith Lia.
Require Import OV.Determinism.Perm.
Import ListNotations.

(* ------------------------------------------------------------------------------------------------
   Insertion sort over a total, transitive, antisymmetric boolean order is a function of the
   multiset: sort l1 = sort l2 whenever l1 and l2 are permutations of each other. *)
Section SortFacts.
  Variable A : Type.
  Variable leb : A -> A -> bool.
  Hypothesis leb_total : forall a b, leb a b = true \/ leb b a = true.
  Hypothesis leb_trans : forall a b c, leb a b = true -> leb b c = true -> leb a c = true.
  Hypothesis leb_antisym : forall a b, leb a b = true -> leb b a = true -> a = b.

  Let le (a b : A) : Prop := leb a b = true.

  Lemma insert_perm : forall x l, Permutation (insert leb x l) (x :: l).
  Proof.
    induction l as [|y r IH]; cbn; auto.
    destruct (leb x y); auto.
    transitivity (y :: x :: r); [constructor; exact IH | apply perm_swap].
  Qed.

  Lemma isort_perm : forall l, Permutation (isort leb l) l.
  Proof.
    induction l as [|x r IH]; cbn; auto.
    transitivity (x :: isort leb r); [apply insert_perm | constructor; exact IH].
  Qed.

  Lemma insert_sorted : forall x l, StronglySorted le l -> StronglySorted le (insert leb x l).
  Proof.
    induction 1 as [|y r Hs IH Hall]; cbn.
    - repeat constructor.
    - destruct (leb x y) eqn:E.
      + constructor. { constructor; assumption. }
        constructor; [exact E|].
        rewrite Forall_forall in *. intros z Hz. apply (leb_trans x y z E). apply Hall, Hz.
      + constructor; [exact IH|].
        assert (Hyx : le y x). { destruct (leb_total x y) as [H|H]; [congruence|exact H]. }
        rewrite Forall_forall in *. intros z Hz.
        apply (Permutation_in _ (insert_perm x r)) in Hz. destruct Hz as [<-|Hz]; auto.
  Qed.

  Lemma isort_sorted : forall l, StronglySorted le (isort leb l).
  Proof. induction l; cbn; [constructor | apply insert_sorted; assumption]. Qed.

  Lemma sorted_perm_eq : forall l1 l2,
    StronglySorted le l1 -> StronglySorted le l2 -> Permutation l1 l2 -> l1 = l2.
  Proof.
    induction l1 as [|x r IH]; intros l2 H1 H2 P.
    - apply Permutation_nil in P. now subst.
    - destruct l2 as [|y r2]; [apply Permutation_sym, Permutation_nil in P; discriminate|].
      inversion H1 as [|? ? Hs1 Hall1]; subst. inversion H2 as [|? ? Hs2 Hall2]; subst.
      rewrite Forall_forall in Hall1, Hall2.
      assert (x = y) as ->.
      { assert (Hx : In x (y :: r2)) by (apply (Permutation_in _ P); left; reflexivity).
        assert (Hy : In y (x :: r)) by (apply (Permutation_in _ (Permutation_sym P)); left; reflexivity).
        destruct Hx as [->|Hx]; [reflexivity|]. destruct Hy as [->|Hy]; [reflexivity|].
        apply leb_antisym; [apply Hall1, Hy | apply Hall2, Hx]. }
      f_equal. apply IH; auto. eapply Permutation_cons_inv; exact P.
  Qed.

  Theorem isort_of_permutation : forall l1 l2, Permutation l1 l2 -> isort leb l1 = isort leb l2.
  Proof.
    intros l1 l2 P. apply sorted_perm_eq; try apply isort_sorted.
    transitivity l1; [apply isort_perm|]. transitivity l2; [exact P | apply Permutation_sym, isort_perm].
  Qed.
End SortFacts.

(* ------------------------------------------------------------------------------------------------
   String.leb is such an order (totality and antisymmetry are in the standard library). *)
Lemma ascii_compare_lt_trans : forall a b c,
  Ascii.compare a b = Lt -> Ascii.compare b c = Lt -> Ascii.compare a c = Lt.
Proof.
  unfold Ascii.compare. intros a b c H1 H2.
  rewrite N.compare_lt_iff in *. eapply N.lt_trans; eassumption.
Qed.

Lemma ascii_compare_refl : forall a, Ascii.compare a a = Eq.
Proof. intro a. unfold Ascii.compare. apply N.compare_refl. Qed.

Lemma string_compare_lt_trans : forall s1 s2 s3,
  String.compare s1 s2 = Lt -> String.compare s2 s3 = Lt -> String.compare s1 s3 = Lt.
Proof.
  induction s1 as [|a r IH]; intros [|b r2] [|c r3]; cbn; try discriminate; auto.
  destruct (Ascii.compare a b) eqn:E1; try discriminate;
  destruct (Ascii.compare b c) eqn:E2; try discriminate; intros H1 H2.
  - apply Ascii.compare_eq_iff in E1, E2. subst. rewrite ascii_compare_refl.
    eapply IH; eassumption.
  - apply Ascii.compare_eq_iff in E1. subst. rewrite E2. reflexivity.
  - apply Ascii.compare_eq_iff in E2. subst. rewrite E1. reflexivity.
  - rewrite (ascii_compare_lt_trans _ _ _ E1 E2). reflexivity.
Qed.

Lemma string_compare_refl : forall s, String.compare s s = Eq.
Proof.
  induction s as [|a r IH]; cbn; auto.
  rewrite ascii_compare_refl. exact IH.
Qed.

Lemma string_leb_trans : forall a b c,
  String.leb a b = true -> String.leb b c = true -> String.leb a c = true.
Proof.
  unfold String.leb. intros a b c.
  destruct (String.compare a b) eqn:E1; try discriminate;
  destruct (String.compare b c) eqn:E2; try discriminate; intros _ _.
  - apply String.compare_eq_iff in E1, E2. subst. now rewrite string_compare_refl.
  - apply String.compare_eq_iff in E1. subst. now rewrite E2.
  - apply String.compare_eq_iff in E2. subst. now rewrite E1.
  - now rewrite (string_compare_lt_trans _ _ _ E1 E2).
Qed.

(* ------------------------------------------------------------------------------------------------
   The site theorems. *)

(* sorted(s): whatever is emitted is a function of the set alone *)
Theorem sorted_site_deterministic : forall (R : Type) (k : list string -> R) (enum1 enum2 : list string),
  Permutation enum1 enum2 -> emit k as_sorted enum1 = emit k as_sorted enum2.
Proof.
  intros R k e1 e2 P. unfold emit, as_sorted, sort_names. f_equal.
  apply isort_of_permutation; [exact String.leb_total | exact string_leb_trans | exact String.leb_antisym | exact P].
Qed.

(* the output of a sorted site is still a listing of the same set (nothing lost or invented) *)
Theorem sorted_site_is_listing : forall enum, Permutation (as_sorted enum) enum.
Proof. intro; apply isort_perm. Qed.

(* list(s): two enumerations of the same three-element set give different If interfaces *)
Theorem enumerated_site_refuted : exists (enum1 enum2 : list string) (c : nat),
  NoDup enum1 /\ Permutation enum1 enum2 /\
  emit (if_site c) as_enumerated enum1 <> emit (if_site c) as_enumerated enum2.
Proof.
  exists ["alpha"; "beta"; "gamma"]%string, ["gamma"; "alpha"; "beta"]%string, 0.
  split; [|split].
  - repeat constructor; cbn; intuition discriminate.
  - apply Permutation_sym. change (Permutation (["gamma"] ++ ["alpha"; "beta"]) (["alpha"; "beta"] ++ ["gamma"]))%string.
    apply Permutation_app_comm.
  - vm_compute. discriminate.
Qed.

(* and the same interface under sorted(...) -- the hypotheses of sorted_site_deterministic are
   satisfiable on the witness above *)
Example sorted_site_on_witness :
  emit (if_site 0) as_sorted ["alpha"; "beta"; "gamma"]%string = emit (if_site 0) as_sorted ["gamma"; "alpha"; "beta"]%string.
Proof. vm_compute. reflexivity. Qed.

(* a list of sites all of which are ok: every site that emits is sorted, hence deterministic *)
Theorem sites_ok_deterministic : forall (sites : list site),
  forallb site_ok sites = true ->
  forall s, In s sites -> s_emits s = true ->
  forall (R : Type) (k : list string -> R) e1 e2, Permutation e1 e2 ->
    emit k (if s_sorted s then as_sorted else as_enumerated) e1 =
    emit k (if s_sorted s then as_sorted else as_enumerated) e2.
Proof.
  intros sites H s Hin Hem R k e1 e2 P. rewrite forallb_forall in H. specialize (H s Hin).
  unfold site_ok in H. rewrite Hem in H. cbn in H. rewrite orb_false_r in H. rewrite H.
  apply sorted_site_deterministic; exact P.
Qed.
