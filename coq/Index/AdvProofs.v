(* C11 -- proofs about the arrangement of mixed basic + advanced indexing (AdvSpec.v):
   where NumPy's arrangement (broadcast block) and the outer arrangement (every axis in place; what the Gather
   chains of the two front ends compute) coincide, and where they differ. *)
From Coq Require Import ZArith List Bool Lia Arith.
Import ListNotations.
Require Import OV.Index.NumpySpec OV.Index.OnnxSlice OV.Index.ConverterIdx OV.Index.EagerIdx OV.Index.AdvSpec.
Open Scope Z_scope.

Definition no_ns (its : list item) : Prop := forall it, In it its -> is_nonscalar it = false.
Definition sl_count (its : list item) : nat := length (slice_lens its).

Lemma no_ns_cons : forall it its, no_ns (it :: its) -> is_nonscalar it = false /\ no_ns its.
Proof. intros it its H. split; [apply H; left; reflexivity|intros x Hx; apply H; right; assumption]. Qed.

(* ---- broadcasting with scalars ---- *)
Lemma bcast_rev_nil_r : forall a, bcast_rev a [] = Some a.
Proof. destruct a; reflexivity. Qed.
Lemma bcast_nil_l : forall r, bcast [] r = Some r.
Proof. intros. unfold bcast. cbn. rewrite rev_involutive. reflexivity. Qed.
Lemma bcast_nil_r : forall s, bcast s [] = Some s.
Proof. intros. unfold bcast. cbn [rev]. rewrite bcast_rev_nil_r. cbn. rewrite rev_involutive. reflexivity. Qed.

Lemma adv_shapes_app : forall a b, adv_shapes (a ++ b) = (adv_shapes a ++ adv_shapes b)%list.
Proof. intros. unfold adv_shapes. apply flat_map_app. Qed.
Lemma slice_lens_app : forall a b, slice_lens (a ++ b) = (slice_lens a ++ slice_lens b)%list.
Proof. intros. unfold slice_lens. apply flat_map_app. Qed.

Lemma bcast_all_scalars : forall pre rest, no_ns pre ->
  bcast_all (adv_shapes pre ++ rest) = bcast_all rest.
Proof.
  induction pre as [|it pre IH]; intros rest H; [reflexivity|].
  apply no_ns_cons in H. destruct H as [H0 H]. destruct it as [l|sh l].
  - cbn. apply IH. assumption.
  - destruct sh; [|discriminate]. cbn. rewrite IH by assumption.
    destruct (bcast_all rest); [apply bcast_nil_l|reflexivity].
Qed.

Lemma bcast_all_no_ns : forall its, no_ns its -> bcast_all (adv_shapes its) = Some [].
Proof. intros its H. rewrite <- (app_nil_r (adv_shapes its)). rewrite bcast_all_scalars by assumption. reflexivity. Qed.

Lemma bcast_all_one : forall pre sh l post, no_ns pre -> no_ns post ->
  bcast_all (adv_shapes (pre ++ IAdv sh l :: post)) = Some sh.
Proof.
  intros. rewrite adv_shapes_app. rewrite bcast_all_scalars by assumption.
  cbn. rewrite bcast_all_no_ns by assumption. apply bcast_nil_r.
Qed.

(* ---- the outer arrangement, piecewise ---- *)
Lemma outer_arr_app : forall a b j,
  outer_arr j (a ++ b) =
    ((fst (outer_arr j a) ++ fst (outer_arr (j + length (fst (outer_arr j a))) b))%list,
     (snd (outer_arr j a) ++ snd (outer_arr (j + length (fst (outer_arr j a))) b))%list).
Proof.
  induction a as [|it a IH]; intros b j.
  - cbn. rewrite Nat.add_0_r. destruct (outer_arr j b); reflexivity.
  - destruct it as [l|sh l]; cbn [app outer_arr fst snd].
    + rewrite IH. cbn [fst snd length]. replace (S j + length (fst (outer_arr (S j) a)))%nat
        with (j + S (length (fst (outer_arr (S j) a))))%nat by lia. reflexivity.
    + rewrite IH. cbn [fst snd]. rewrite app_length.
      replace (j + length sh + length (fst (outer_arr (j + length sh) a)))%nat
        with (j + (length sh + length (fst (outer_arr (j + length sh) a))))%nat by lia.
      rewrite <- app_assoc. reflexivity.
Qed.

Lemma bterms_scalar : forall nB p, bterms nB [] p = [].
Proof. reflexivity. Qed.

Lemma outer_no_ns : forall its, no_ns its -> forall j, fst (outer_arr j its) = slice_lens its.
Proof.
  induction its as [|it its IH]; intros H j; [reflexivity|].
  apply no_ns_cons in H. destruct H as [H0 H]. destruct it as [l|sh l]; cbn.
  - f_equal. apply IH. assumption.
  - destruct sh; [|discriminate]. cbn. apply IH. assumption.
Qed.

(* ---- NumPy's addresses, piecewise ---- *)
Lemma sl_count_sl : forall l a, sl_count (ISl l :: a) = S (sl_count a).
Proof. reflexivity. Qed.
Lemma sl_count_adv : forall sh l a, sl_count (IAdv sh l :: a) = sl_count a.
Proof. reflexivity. Qed.

Lemma np_addrs_app : forall nB p a b k,
  np_addrs nB p k (a ++ b) = (np_addrs nB p k a ++ np_addrs nB p (k + sl_count a) b)%list.
Proof.
  induction a as [|it a IH]; intros b k.
  - cbn [app np_addrs]. change (sl_count []) with 0%nat. rewrite Nat.add_0_r. reflexivity.
  - destruct it as [l|sh l]; cbn [app np_addrs].
    + rewrite IH. rewrite sl_count_sl. replace (S k + sl_count a)%nat with (k + S (sl_count a))%nat by lia.
      reflexivity.
    + rewrite IH. rewrite sl_count_adv. reflexivity.
Qed.

Lemma np_addrs_pre : forall nB p a k, no_ns a -> (k + sl_count a <= p)%nat ->
  np_addrs nB p k a = snd (outer_arr k a).
Proof.
  induction a as [|it a IH]; intros k H Hk; [reflexivity|].
  apply no_ns_cons in H. destruct H as [H0 H]. destruct it as [l|sh l]; cbn [np_addrs outer_arr snd].
  - rewrite sl_count_sl in Hk. assert (Nat.ltb k p = true) as -> by (apply Nat.ltb_lt; lia).
    f_equal. apply IH; [assumption|lia].
  - destruct sh; [|discriminate]. cbn [length]. rewrite Nat.add_0_r. f_equal. apply IH; assumption.
Qed.

Lemma np_addrs_post : forall nB p a k, no_ns a -> (p <= k)%nat ->
  np_addrs nB p k a = snd (outer_arr (k + nB) a).
Proof.
  induction a as [|it a IH]; intros k H Hk; [reflexivity|].
  apply no_ns_cons in H. destruct H as [H0 H]. destruct it as [l|sh l]; cbn [np_addrs outer_arr snd].
  - assert (Nat.ltb k p = false) as -> by (apply Nat.ltb_ge; lia).
    f_equal. change (S (k + nB)) with (S k + nB)%nat. apply IH; [assumption|lia].
  - destruct sh; [|discriminate]. cbn [length]. rewrite Nat.add_0_r. f_equal. apply IH; assumption.
Qed.

Lemma firstn_length_app {A} : forall (a b : list A), firstn (length a) (a ++ b) = a.
Proof. induction a; intros; cbn; [reflexivity|f_equal; apply IHa]. Qed.
Lemma skipn_length_app {A} : forall (a b : list A), skipn (length a) (a ++ b) = b.
Proof. induction a; intros; cbn; [reflexivity|apply IHa]. Qed.

(* ---- agreement ---- *)
Lemma agree_no_ns : forall its, no_ns its -> np_arr its = Some (outer_arr 0 its).
Proof.
  intros its H. unfold np_arr. rewrite bcast_all_no_ns by assumption. cbn [length app].
  rewrite firstn_skipn. f_equal.
  assert (G : forall p a k, no_ns a -> np_addrs 0 p k a = snd (outer_arr k a)).
  { induction a as [|it a IH]; intros k Ha; [reflexivity|].
    apply no_ns_cons in Ha. destruct Ha as [H0 Ha]. destruct it as [l|sh l]; cbn [np_addrs outer_arr snd].
    - rewrite Nat.add_0_r. destruct (Nat.ltb k p); f_equal; apply IH; assumption.
    - destruct sh; [|discriminate]. cbn [length]. rewrite Nat.add_0_r. f_equal. apply IH; assumption. }
  rewrite G by assumption. rewrite <- (outer_no_ns its H 0%nat). destruct (outer_arr 0 its); reflexivity.
Qed.

Lemma agree_one : forall pre sh l post, no_ns pre -> no_ns post ->
  place (pre ++ IAdv sh l :: post) = sl_count pre ->
  np_arr (pre ++ IAdv sh l :: post) = Some (outer_arr 0 (pre ++ IAdv sh l :: post)).
Proof.
  intros pre sh l post Hpre Hpost Hpl. unfold np_arr. rewrite bcast_all_one by assumption. rewrite Hpl.
  rewrite slice_lens_app. change (slice_lens (IAdv sh l :: post)) with (slice_lens post).
  unfold sl_count. rewrite firstn_length_app, skipn_length_app.
  rewrite outer_arr_app. rewrite (outer_no_ns pre Hpre). cbn [Nat.add outer_arr fst snd].
  rewrite (outer_no_ns post Hpost). f_equal. f_equal.
  rewrite np_addrs_app. cbn [Nat.add np_addrs]. fold (sl_count pre).
  rewrite np_addrs_pre by (try assumption; lia).
  rewrite np_addrs_post by (try assumption; lia). reflexivity.
Qed.

(* ---- where the broadcast block goes ---- *)
Lemma no_slices_in_block : forall pre T post, is_isl T = false ->
  forallb is_isl (drop_while is_iadv (pre ++ T :: post)) = true -> slice_lens pre = [].
Proof.
  induction pre as [|it pre IH]; intros T post HT H; [reflexivity|].
  destruct it as [l|sh l].
  - cbn in H. rewrite forallb_app in H. cbn in H. rewrite HT in H. cbn in H. rewrite andb_false_r in H. discriminate.
  - cbn in H. cbn. eapply IH; eassumption.
Qed.

Lemma place_adjacent : forall pre T post, is_isl T = false ->
  adjacent (pre ++ T :: post) = true -> length (take_while is_isl (pre ++ T :: post)) = sl_count pre.
Proof.
  induction pre as [|it pre IH]; intros T post HT H.
  - cbn. rewrite HT. reflexivity.
  - destruct it as [l|sh l].
    + rewrite sl_count_sl.
      change (take_while is_isl ((ISl l :: pre) ++ T :: post)) with (ISl l :: take_while is_isl (pre ++ T :: post)).
      cbn [length]. f_equal. apply IH; [assumption|exact H].
    + rewrite sl_count_adv. change (length (take_while is_isl ((IAdv sh l :: pre) ++ T :: post))) with 0%nat.
      unfold adjacent in H. cbn in H. unfold sl_count.
      rewrite (no_slices_in_block pre T post HT H). reflexivity.
Qed.

Lemma take_isl_none : forall pre T post, is_isl T = false -> slice_lens pre = [] ->
  take_while is_isl (pre ++ T :: post) = [].
Proof.
  intros pre T post HT H. destruct pre as [|[l|sh l] pre]; cbn; [rewrite HT; reflexivity|discriminate|reflexivity].
Qed.

(* ---- forms ---- *)
Lemma k_ns_kind : forall it, k_ns (kind_of it) = is_nonscalar it.
Proof. intros [l|sh l]; [reflexivity|]. destruct sh; reflexivity. Qed.
Lemma k_sl_kind : forall it, k_sl (kind_of it) = is_isl it.
Proof. intros [l|sh l]; reflexivity. Qed.

Lemma nns_form : forall its, length (filter k_ns (form_of its)) = length (filter is_nonscalar its).
Proof.
  induction its as [|it its IH]; [reflexivity|]. change (form_of (it :: its)) with (kind_of it :: form_of its).
  cbn [filter]. rewrite k_ns_kind. destruct (is_nonscalar it); cbn [length]; rewrite IH; reflexivity.
Qed.

Lemma drop_while_map {A B} (f : A -> B) (p : B -> bool) : forall l,
  drop_while p (map f l) = map f (drop_while (fun x => p (f x)) l).
Proof. induction l as [|x l IH]; [reflexivity|]. cbn. destruct (p (f x)); [assumption|reflexivity]. Qed.

Lemma drop_while_ext {A} (p q : A -> bool) : (forall x, p x = q x) -> forall l, drop_while p l = drop_while q l.
Proof. intros E. induction l as [|x l IH]; [reflexivity|]. cbn. rewrite E. destruct (q x); [assumption|reflexivity]. Qed.

Lemma forallb_map' {A B} (f : A -> B) (p : B -> bool) : forall l, forallb p (map f l) = forallb (fun x => p (f x)) l.
Proof. induction l as [|x l IH]; [reflexivity|]. cbn. rewrite IH. reflexivity. Qed.
Lemma forallb_ext' {A} (p q : A -> bool) : (forall x, p x = q x) -> forall l, forallb p l = forallb q l.
Proof. intros E. induction l as [|x l IH]; [reflexivity|]. cbn. rewrite E, IH. reflexivity. Qed.

Lemma adjacent_form : forall its, k_adjacent (form_of its) = adjacent its.
Proof.
  intros. unfold k_adjacent, adjacent, form_of. rewrite !drop_while_map. rewrite forallb_map'.
  rewrite (drop_while_ext (fun x => k_sl (kind_of x)) is_isl k_sl_kind).
  rewrite (drop_while_ext (fun x => negb (k_sl (kind_of x))) is_iadv) by (intros; unfold is_iadv; rewrite k_sl_kind; reflexivity).
  apply forallb_ext'. intros. apply k_sl_kind.
Qed.

Lemma no_slice_before : forall pre T post, no_ns pre -> is_nonscalar T = true ->
  k_no_slice_before_ns (form_of (pre ++ T :: post)) = true -> slice_lens pre = [].
Proof.
  induction pre as [|it pre IH]; intros T post H HT Hk; [reflexivity|].
  apply no_ns_cons in H. destruct H as [H0 H]. destruct it as [l|sh l].
  - cbn in Hk. discriminate.
  - destruct sh; [|discriminate]. cbn. unfold k_no_slice_before_ns in *. cbn in Hk. eapply IH; eassumption.
Qed.

Lemma split_one : forall its, length (filter is_nonscalar its) = 1%nat ->
  exists pre sh l post, its = (pre ++ IAdv sh l :: post)%list /\ no_ns pre /\ no_ns post /\ is_nonscalar (IAdv sh l) = true.
Proof.
  induction its as [|it its IH]; intros H; [discriminate|]. cbn in H.
  destruct (is_nonscalar it) eqn:E.
  - cbn in H. destruct it as [l|sh l]; [discriminate|]. exists [], sh, l, its. repeat split.
    + intros x [].
    + intros x Hx. destruct (is_nonscalar x) eqn:Ex; [|reflexivity].
      assert (In x (filter is_nonscalar its)) as Hin by (apply filter_In; split; assumption).
      destruct (filter is_nonscalar its); [destruct Hin|discriminate].
    + assumption.
  - destruct (IH H) as (pre & sh & l & post & -> & H1 & H2 & H3). exists (it :: pre), sh, l, post. repeat split; try assumption.
    intros x [<-|Hx]; [assumption|apply H1; assumption].
Qed.

Lemma no_ns_of_count : forall its, length (filter is_nonscalar its) = 0%nat -> no_ns its.
Proof.
  intros its H x Hx. destruct (is_nonscalar x) eqn:Ex; [|reflexivity].
  assert (In x (filter is_nonscalar its)) as Hin by (apply filter_In; split; assumption).
  destruct (filter is_nonscalar its); [destruct Hin|discriminate].
Qed.

Lemma nonscalar_not_isl : forall it, is_nonscalar it = true -> is_isl it = false.
Proof. intros [l|sh l] H; [discriminate|reflexivity]. Qed.

(* on a good form NumPy's arrangement is the outer arrangement *)
Theorem arrangement_agrees : forall its, good_form (form_of its) = true -> np_arr its = Some (outer_arr 0 its).
Proof.
  intros its H. unfold good_form in H. rewrite nns_form in H. apply orb_true_iff in H. destruct H as [H|H].
  - apply agree_no_ns. apply no_ns_of_count. apply Nat.eqb_eq. assumption.
  - apply andb_true_iff in H. destruct H as [H1 H2]. apply Nat.eqb_eq in H1.
    destruct (split_one its H1) as (pre & sh & l & post & -> & Hpre & Hpost & HT).
    apply agree_one; try assumption.
    pose proof (nonscalar_not_isl _ HT) as HTi. unfold place.
    destruct (adjacent (pre ++ IAdv sh l :: post)) eqn:Ha.
    + apply place_adjacent; assumption.
    + rewrite adjacent_form, Ha in H2. cbn [orb] in H2. unfold sl_count.
      rewrite (no_slice_before pre _ post Hpre HT H2). reflexivity.
Qed.

(* ---- where they differ ---- *)
Lemma bcast_rev_length : forall a b c, bcast_rev a b = Some c -> length c = Nat.max (length a) (length b).
Proof.
  induction a as [|x a IH]; intros b c H; cbn in H.
  - injection H as <-. reflexivity.
  - destruct b as [|y b].
    + injection H as <-. cbn. reflexivity.
    + destruct (bdim x y); [|discriminate]. destruct (bcast_rev a b) eqn:E; [|discriminate]. injection H as <-.
      cbn. f_equal. apply IH. assumption.
Qed.
Lemma bcast_length : forall a b c, bcast a b = Some c -> length c = Nat.max (length a) (length b).
Proof.
  intros a b c H. unfold bcast in H. destruct (bcast_rev (rev a) (rev b)) eqn:E; [|discriminate]. injection H as <-.
  rewrite rev_length. rewrite (bcast_rev_length _ _ _ E). rewrite !rev_length. reflexivity.
Qed.

Definition sum_ranks (l : list (list Z)) : nat := fold_right (fun s n => (length s + n)%nat) 0%nat l.
Definition pos_ranks (l : list (list Z)) : nat := length (filter (fun s => negb (Nat.eqb (length s) 0)) l).

Lemma bcast_all_rank : forall l B, bcast_all l = Some B ->
  (length B <= sum_ranks l)%nat /\ ((2 <= pos_ranks l)%nat -> (length B < sum_ranks l)%nat) /\
  ((1 <= pos_ranks l)%nat -> (1 <= length B)%nat).
Proof.
  induction l as [|s l IH]; intros B H; cbn in H.
  - injection H as <-. cbn. repeat split; lia.
  - destruct (bcast_all l) as [r|] eqn:E; [|discriminate]. destruct (IH r eq_refl) as [I1 [I2 I3]].
    pose proof (bcast_length _ _ _ H) as HL. unfold pos_ranks in *. cbn [sum_ranks fold_right filter].
    fold (sum_ranks l). destruct (Nat.eqb (length s) 0) eqn:Es; cbn [negb length].
    + apply Nat.eqb_eq in Es. rewrite Es in *. cbn in HL. repeat split; lia.
    + apply Nat.eqb_neq in Es. cbn [length]. repeat split; lia.
Qed.

Lemma outer_rank : forall its j, length (fst (outer_arr j its)) = (length (slice_lens its) + sum_ranks (adv_shapes its))%nat.
Proof.
  induction its as [|it its IH]; intros j; [reflexivity|]. destruct it as [l|sh l]; cbn [outer_arr fst].
  - change (slice_lens (ISl l :: its)) with (zlen l :: slice_lens its).
    change (adv_shapes (ISl l :: its)) with (adv_shapes its). cbn [length]. rewrite IH. reflexivity.
  - change (slice_lens (IAdv sh l :: its)) with (slice_lens its).
    change (adv_shapes (IAdv sh l :: its)) with (sh :: adv_shapes its).
    rewrite app_length, IH. unfold sum_ranks. cbn [fold_right]. lia.
Qed.

Lemma pos_ranks_nns : forall its, pos_ranks (adv_shapes its) = length (filter is_nonscalar its).
Proof.
  induction its as [|it its IH]; [reflexivity|]. destruct it as [l|sh l].
  - exact IH.
  - change (adv_shapes (IAdv sh l :: its)) with (sh :: adv_shapes its). unfold pos_ranks in *. cbn [filter].
    destruct sh; cbn [length Nat.eqb negb is_nonscalar]; rewrite IH; reflexivity.
Qed.

(* two or more tensor indices of rank >= 1: whenever NumPy returns at all, its result has a smaller rank than the
   outer arrangement -- for every instance, hence always a different tensor *)
Theorem two_tensor_indices_rank_differs : forall its n,
  (2 <= length (filter is_nonscalar its))%nat -> np_arr its = Some n ->
  (length (fst n) < length (fst (outer_arr 0 its)))%nat.
Proof.
  intros its n H2 H. unfold np_arr in H. destruct (bcast_all (adv_shapes its)) as [B|] eqn:E; [|discriminate].
  injection H as <-. cbn [fst]. rewrite outer_rank. rewrite !app_length.
  pose proof (firstn_skipn (place its) (slice_lens its)) as F. apply (f_equal (@length Z)) in F. rewrite app_length in F.
  destruct (bcast_all_rank _ _ E) as [_ [I2 _]]. rewrite pos_ranks_nns in I2. specialize (I2 H2). lia.
Qed.

(* the witness instance of a form *)
Lemma form_of_wit : forall f, form_of (wit f) = f.
Proof.
  induction f as [|k f IH]; [reflexivity|].
  change (form_of (wit (k :: f))) with (kind_of (wit_item k) :: form_of (wit f)). rewrite IH. f_equal.
  destruct k; [reflexivity|]. cbn. rewrite repeat_length. reflexivity.
Qed.

Lemma outer_head_two : forall pre rest, no_ns pre -> slice_lens pre <> [] ->
  (forall it, In it pre -> forall l, it = ISl l -> zlen l = 2) ->
  forall j, exists tl, fst (outer_arr j (pre ++ rest)) = 2 :: tl.
Proof.
  induction pre as [|it pre IH]; intros rest H Hs Hl j; [contradiction|].
  apply no_ns_cons in H. destruct H as [H0 H]. destruct it as [l|sh l].
  - cbn. rewrite (Hl (ISl l) (or_introl eq_refl) l eq_refl). eexists. reflexivity.
  - destruct sh; [|discriminate]. cbn. apply IH; try assumption.
    intros it Hin. apply Hl. right. assumption.
Qed.

Lemma wit_slices_two : forall f it, In it (wit f) -> forall l, it = ISl l -> zlen l = 2.
Proof.
  intros f it Hin l ->. unfold wit in Hin. apply in_map_iff in Hin. destruct Hin as [k [Hk _]].
  destruct k; cbn in Hk; [injection Hk as <-; reflexivity|discriminate].
Qed.

Lemma wit_adv_ones : forall f sh l, In (IAdv sh l) (wit f) -> exists r, sh = repeat 1 r.
Proof.
  intros f sh l Hin. unfold wit in Hin. apply in_map_iff in Hin. destruct Hin as [k [Hk _]].
  destruct k; cbn in Hk; [discriminate|]. injection Hk as <- _. eexists. reflexivity.
Qed.

Theorem wit_differs : forall f n, good_form f = false -> np_arr (wit f) = Some n -> fst n <> fst (outer_arr 0 (wit f)).
Proof.
  intros f n Hg Hn. rewrite <- (form_of_wit f) in Hg. set (its := wit f) in *.
  unfold good_form in Hg. rewrite nns_form in Hg. apply orb_false_iff in Hg. destruct Hg as [G0 G1].
  apply Nat.eqb_neq in G0.
  destruct (Nat.eqb (length (filter is_nonscalar its)) 1) eqn:E1.
  - (* one tensor index, advanced indices not adjacent, a slice in front of the tensor *)
    cbn in G1. apply orb_false_iff in G1. destruct G1 as [Ga Gs]. apply Nat.eqb_eq in E1.
    destruct (split_one its E1) as (pre & sh & l & post & Eits & Hpre & Hpost & HT).
    rewrite adjacent_form in Ga.
    assert (Hsl : slice_lens pre <> []).
    { intro Hnil. rewrite Eits in Gs. unfold k_no_slice_before_ns in Gs.
      assert (P : forall pre0, no_ns pre0 -> slice_lens pre0 = [] ->
                existsb k_sl (take_while (fun k => negb (k_ns k)) (form_of (pre0 ++ IAdv sh l :: post))) = false).
      { induction pre0 as [|it pre0 IH]; intros Hp Hz.
        - cbn. destruct sh; [discriminate|]. reflexivity.
        - apply no_ns_cons in Hp. destruct Hp as [Hp0 Hp]. destruct it as [l0|sh0 l0]; [discriminate|].
          destruct sh0; [|discriminate]. cbn. apply IH; assumption. }
      rewrite (P pre Hpre Hnil) in Gs. discriminate. }
    unfold np_arr in Hn. rewrite Eits in Hn. rewrite bcast_all_one in Hn by assumption.
    unfold place in Hn. rewrite <- Eits in Hn. rewrite Ga in Hn. injection Hn as <-. cbn [fst firstn app].
    rewrite Eits. destruct (outer_head_two pre (IAdv sh l :: post) Hpre Hsl) with (j := 0%nat) as [tl Htl].
    { intros it Hin. apply (wit_slices_two f). fold its. rewrite Eits. apply in_or_app. left. assumption. }
    rewrite Htl. destruct (wit_adv_ones f sh l) as [r Hr]; [fold its; rewrite Eits; apply in_or_app; right; left; reflexivity|].
    subst sh. destruct r; [discriminate|]. cbn. intro Hc. discriminate.
  - (* two or more tensor indices *)
    apply Nat.eqb_neq in E1.
    pose proof (two_tensor_indices_rank_differs its n ltac:(lia) Hn) as Hr.
    intro Hc. rewrite Hc in Hr. lia.
Qed.

(* the exact characterisation: the arrangements agree on every instance of a form iff the form is good *)
Theorem arrangement_agrees_iff : forall f,
  good_form f = true <-> (forall its, form_of its = f -> np_arr its = Some (outer_arr 0 its)).
Proof.
  intros f. split.
  - intros H its <-. apply arrangement_agrees. assumption.
  - intros H. destruct (good_form f) eqn:E; [reflexivity|]. exfalso.
    pose proof (H (wit f) (form_of_wit f)) as Hw. apply (wit_differs f _ E Hw). reflexivity.
Qed.

(* ---- from arrangements to the front ends ---- *)
Require Import OV.Index.ViewProofs.

Lemma np_index_length_eq : forall idx shape v, np_index shape idx = Some v -> length v = length shape.
Proof.
  induction idx as [|c idx IH]; intros shape v H.
  - cbn in H. injection H as <-. unfold full. apply map_length.
  - destruct shape as [|d shape]; [discriminate|]. cbn in H.
    destruct (sel_of d c); [|discriminate]. destruct (np_index shape idx) eqn:E; [|discriminate].
    injection H as <-. cbn. f_equal. apply IH. assumption.
Qed.

(* the form of an index expression on a tensor of the given rank: omitted trailing axes are slices *)
Definition full_form (shape : list Z) (aidx : list acomp) : list kind :=
  (map akind aidx ++ repeat KSl (length shape - length aidx))%list.

Lemma form_items : forall aidx v, (length aidx <= length v)%nat ->
  form_of (items aidx v) = (map akind aidx ++ repeat KSl (length v - length aidx))%list.
Proof.
  induction aidx as [|a aidx IH]; intros v H.
  - cbn [map app length]. rewrite Nat.sub_0_r. clear H. induction v as [|s v IHv]; [reflexivity|].
    cbn [items length repeat]. change (form_of (ISl (sel_data s) :: items [] v)) with (KSl :: form_of (items [] v)).
    rewrite IHv. reflexivity.
  - destruct v as [|s v]; [cbn in H; lia|]. cbn [items map app length Nat.sub].
    change (form_of ((match tshape a with None => ISl (sel_data s) | Some sh => IAdv sh (sel_data s) end) :: items aidx v))
      with (kind_of (match tshape a with None => ISl (sel_data s) | Some sh => IAdv sh (sel_data s) end) :: form_of (items aidx v)).
    rewrite IH by (cbn in H; lia). f_equal. unfold akind. destruct (tshape a); reflexivity.
Qed.

(* whenever a front end's op chain computes the per-axis view (the conclusion of the *_sound theorems of
   ViewProofs.v), its result on a good form is NumPy's result *)
Theorem adv_sound_of_view_sound : forall (run : list Z -> list comp -> option view) shape aidx n,
  (forall v, run shape (map flat aidx) = Some v -> np_index shape (map flat aidx) = Some v) ->
  (length aidx <= length shape)%nat ->
  good_form (full_form shape aidx) = true ->
  option_map (fun v => outer_arr 0 (items aidx v)) (run shape (map flat aidx)) = Some n ->
  np_nest shape aidx = Some n.
Proof.
  intros run shape aidx n Hs Hlen Hg H. destruct (run shape (map flat aidx)) as [v|] eqn:E; [|discriminate].
  cbn in H. injection H as <-. unfold np_nest. rewrite (Hs v eq_refl).
  apply arrangement_agrees. rewrite form_items by (rewrite (np_index_length_eq _ _ _ (Hs v eq_refl)); assumption).
  rewrite (np_index_length_eq _ _ _ (Hs v eq_refl)). exact Hg.
Qed.

(* one tensor-valued index of any rank among slices (A[I], A[:, I], A[i:j, I]) *)
Theorem conv_adv_one_tensor_sound : forall shape aidx n,
  dims_ok shape -> (length aidx <= length shape)%nat ->
  hazard_free shape (map flat aidx) = true -> one_tensor_no_int (map flat aidx) = true ->
  good_form (full_form shape aidx) = true ->
  conv_nest shape aidx = Some n -> np_nest shape aidx = Some n.
Proof.
  intros shape aidx n Hd Hlen Hh H1 Hg H. apply (adv_sound_of_view_sound (run_conv true)); try assumption.
  intros v Hv. apply (conv_one_tensor_sound true); try assumption. rewrite map_length. assumption.
Qed.

(* no tensor-valued index of rank >= 1 *)
Theorem conv_adv_basic_sound : forall shape aidx n,
  dims_ok shape -> (length aidx <= length shape)%nat ->
  hazard_free shape (map flat aidx) = true -> tensor_free (map flat aidx) = true ->
  good_form (full_form shape aidx) = true ->
  conv_nest shape aidx = Some n -> np_nest shape aidx = Some n.
Proof.
  intros shape aidx n Hd Hlen Hh H1 Hg H. apply (adv_sound_of_view_sound (run_conv true)); try assumption.
  intros v Hv. apply (conv_basic_sound true); try assumption. rewrite map_length. assumption.
Qed.

Theorem eager_adv_scalar_sound : forall shape aidx n,
  dims_nat shape -> (length aidx <= length shape)%nat ->
  hazard_free shape (map flat aidx) = true -> t1_free (map flat aidx) = true ->
  good_form (full_form shape aidx) = true ->
  eager_nest shape aidx = Some n -> np_nest shape aidx = Some n.
Proof.
  intros shape aidx n Hd Hlen Hh H1 Hg H. apply (adv_sound_of_view_sound (run_eager true)); try assumption.
  intros v Hv. apply (eager_basic_sound true); try assumption. rewrite map_length. assumption.
Qed.

(* the full statements: whatever a front end returns is NumPy's result *)
Definition conv_adv_full : Prop := forall shape aidx n,
  dims_ok shape -> (length aidx <= length shape)%nat -> hazard_free shape (map flat aidx) = true ->
  forallb wf_acomp aidx = true ->
  conv_nest shape aidx = Some n -> np_nest shape aidx = Some n.
Definition eager_adv_full : Prop := forall shape aidx n,
  dims_nat shape -> (length aidx <= length shape)%nat -> hazard_free shape (map flat aidx) = true ->
  forallb wf_acomp aidx = true ->
  eager_nest shape aidx = Some n -> np_nest shape aidx = Some n.
(* ... restricted to the good forms (not proved in general: the step from the Gather chain of conv_ops / eager_ops to the
   per-axis view is proved for the index classes above only and measured by the harness on the others) *)
Definition conv_adv_good_full : Prop := forall shape aidx n,
  dims_ok shape -> (length aidx <= length shape)%nat -> hazard_free shape (map flat aidx) = true ->
  good_form (full_form shape aidx) = true ->
  conv_nest shape aidx = Some n -> np_nest shape aidx = Some n.

(* the known findings, as instances *)
Definition two_1d_shape : list Z := [3; 4].
Definition two_1d_idx : list acomp := [AB (CT1 [0; 1]); AB (CT1 [1; 2])].            (* X[I, J] *)
Definition split_shape : list Z := [2; 3; 4].
Definition split_idx : list acomp := [AB (CInt 0); AB (CSlice BNone BNone BNone); AB (CT1 [-1])].   (* X[0, :, J] *)
Definition two_2d_idx : list acomp := [AB (CT1 [0]); ATN [2; 2] [-1; -1; 0; -1]].   (* X[I, J2] *)
Definition split_2d_idx : list acomp := [AB (CT0 0); AB (CSlice BNone BNone BNone); ATN [2; 2] [2; -2; -4; -2]].

Definition shapes_of (a b : option nest) : option (list Z * list Z) :=
  match a, b with Some x, Some y => Some (fst x, fst y) | _, _ => None end.

Example two_1d_values :
  shapes_of (conv_nest two_1d_shape two_1d_idx) (np_nest two_1d_shape two_1d_idx) = Some ([2; 2], [2])
  /\ shapes_of (eager_nest two_1d_shape two_1d_idx) (np_nest two_1d_shape two_1d_idx) = Some ([2; 2], [2])
  /\ good_form (full_form two_1d_shape two_1d_idx) = false.
Proof. vm_compute. repeat split. Qed.

Example split_values :
  shapes_of (conv_nest split_shape split_idx) (np_nest split_shape split_idx) = Some ([3; 1], [1; 3])
  /\ shapes_of (eager_nest split_shape split_idx) (np_nest split_shape split_idx) = Some ([3; 1], [1; 3])
  /\ good_form (full_form split_shape split_idx) = false.
Proof. vm_compute. repeat split. Qed.

Example two_2d_values :
  shapes_of (conv_nest [1; 1] two_2d_idx) (np_nest [1; 1] two_2d_idx) = Some ([1; 2; 2], [2; 2])
  /\ good_form (full_form [1; 1] two_2d_idx) = false.
Proof. vm_compute. repeat split. Qed.

Example split_2d_values :
  shapes_of (conv_nest [1; 1; 4] split_2d_idx) (np_nest [1; 1; 4] split_2d_idx) = Some ([1; 2; 2], [2; 2; 1])
  /\ good_form (full_form [1; 1; 4] split_2d_idx) = false.
Proof. vm_compute. repeat split. Qed.

Lemma conv_adv_full_refuted : ~ conv_adv_full.
Proof.
  intro H. pose proof two_1d_values as [V _].
  destruct (conv_nest two_1d_shape two_1d_idx) as [n|] eqn:E; [|discriminate].
  assert (Hn : np_nest two_1d_shape two_1d_idx = Some n).
  { apply H; try assumption; try reflexivity.
    repeat constructor; unfold MAXI; lia. }
  rewrite Hn in V. cbn in V. injection V as V1 V2. rewrite V1 in V2. discriminate V2.
Qed.

Lemma eager_adv_full_refuted : ~ eager_adv_full.
Proof.
  intro H. pose proof split_values as [_ [V _]].
  destruct (eager_nest split_shape split_idx) as [n|] eqn:E; [|discriminate].
  assert (Hn : np_nest split_shape split_idx = Some n).
  { apply H; try assumption; try reflexivity. repeat constructor; lia. }
  rewrite Hn in V. cbn in V. injection V as V1 V2. rewrite V1 in V2. discriminate V2.
Qed.

(* the witness of a form is an index expression: X of shape (2,..,2), every slice ':', every scalar 0, every tensor index
   zeros of shape (1,..,1); both front ends accept it *)
Lemma wit_realised : forall f, exists v,
  np_index (wit_shape f) (map flat (wit_idx f)) = Some v /\ items (wit_idx f) v = wit f.
Proof.
  induction f as [|k f [v [Hv Hi]]].
  - exists []. split; reflexivity.
  - destruct k as [|r].
    + exists (Keep [0; 1] :: v). split.
      * change (np_index (wit_shape (KSl :: f)) (map flat (wit_idx (KSl :: f))))
          with (match sel_of 2 (CSlice BNone BNone BNone), np_index (wit_shape f) (map flat (wit_idx f)) with
                | Some s, Some v0 => Some (s :: v0) | _, _ => None end).
        rewrite Hv. reflexivity.
      * change (items (wit_idx (KSl :: f)) (Keep [0; 1] :: v)) with (ISl [0; 1] :: items (wit_idx f) v). rewrite Hi. reflexivity.
    + destruct r as [|r].
      * exists (Pick 0 :: v). split.
        -- change (np_index (wit_shape (KAdv 0 :: f)) (map flat (wit_idx (KAdv 0 :: f))))
             with (match sel_of 2 (CT0 0), np_index (wit_shape f) (map flat (wit_idx f)) with
                   | Some s, Some v0 => Some (s :: v0) | _, _ => None end).
           rewrite Hv. reflexivity.
        -- change (items (wit_idx (KAdv 0 :: f)) (Pick 0 :: v)) with (IAdv [] [0] :: items (wit_idx f) v). rewrite Hi. reflexivity.
      * exists (Keep [0] :: v). split.
        -- change (np_index (wit_shape (KAdv (S r) :: f)) (map flat (wit_idx (KAdv (S r) :: f))))
             with (match sel_of 2 (CT1 [0]), np_index (wit_shape f) (map flat (wit_idx f)) with
                   | Some s, Some v0 => Some (s :: v0) | _, _ => None end).
           rewrite Hv. reflexivity.
        -- change (items (wit_idx (KAdv (S r) :: f)) (Keep [0] :: v))
             with (IAdv (repeat 1 (S r)) [0] :: items (wit_idx f) v). rewrite Hi. reflexivity.
Qed.

(* on a bad form NumPy's result for the witness expression is not the outer arrangement (what np_nest returns differs
   from what outer_nest returns, in the shape) *)
Theorem bad_form_witness : forall f, good_form f = false ->
  forall n m, np_nest (wit_shape f) (wit_idx f) = Some n -> outer_nest (wit_shape f) (wit_idx f) = Some m -> fst n <> fst m.
Proof.
  intros f Hg n m Hn Hm. destruct (wit_realised f) as [v [Hv Hi]].
  unfold np_nest in Hn. unfold outer_nest in Hm. rewrite Hv in Hn, Hm. cbn [option_map] in Hm. rewrite Hi in Hn, Hm.
  injection Hm as <-. apply (wit_differs f n Hg Hn).
Qed.

(* the hypotheses of the theorems above are satisfiable on non-trivial instances *)
Example one_tensor_rank2_instance :      (* X[1:, I], I of shape (2,2) with negative entries, X of shape (3,4,2) *)
  let shape := [3; 4; 2] in
  let aidx := [AB (CSlice (BConst 1) BNone BNone); ATN [2; 2] [0; -1; 2; 1]] in
  hazard_free shape (map flat aidx) = true /\ one_tensor_no_int (map flat aidx) = true /\
  good_form (full_form shape aidx) = true /\
  option_map fst (conv_nest shape aidx) = Some [2; 2; 2; 2] /\ conv_nest shape aidx = np_nest shape aidx.
Proof. vm_compute. repeat split. Qed.

Example good_form_instance :             (* X[:, 0, I, i, :]: one block of advanced indices; X[I, :, 0]: nothing in front of I *)
  good_form [KSl; KAdv 0; KAdv 2; KAdv 0; KSl] = true /\ good_form [KAdv 1; KSl; KAdv 0] = true /\
  good_form [KAdv 0; KSl; KAdv 1] = false /\ good_form [KSl; KAdv 0; KSl; KAdv 1] = false /\
  good_form [KAdv 1; KAdv 1] = false /\ good_form [KAdv 1; KSl; KAdv 2] = false.
Proof. vm_compute. repeat split. Qed.

Example eager_scalar_instance :          (* eager X[i, 1:, j] with rank-0 tensors *)
  let shape := [3; 4; 2] in
  let aidx := [AB (CT0 (-2)); AB (CSlice (BConst 1) BNone BNone); AB (CT0 1)] in
  t1_free (map flat aidx) = true /\ good_form (full_form shape aidx) = true /\
  eager_nest shape aidx = np_nest shape aidx /\ option_map fst (eager_nest shape aidx) = Some [3].
Proof. vm_compute. repeat split. Qed.

(* ---- the general theorems for the converter (AdvConvProofs.v: the chain computes the per-axis view for every tuple) ---- *)
Require Import OV.Index.AdvConvProofs.

Theorem conv_adv_good_sound : conv_adv_good_full.
Proof.
  intros shape aidx n Hd Hlen Hh Hg H. apply (adv_sound_of_view_sound (run_conv true)); try assumption.
  intros v Hv. apply conv_view_sound_all; try assumption. rewrite map_length. assumption.
Qed.

(* no spurious errors: on a good form where NumPy returns, the converter's chain returns the same *)
Theorem conv_adv_good_complete : forall shape aidx n,
  dims_ok shape -> hazard_free shape (map flat aidx) = true ->
  conv_accepts (map flat aidx) = true -> conv_minus1_ok (map flat aidx) = true ->
  good_form (full_form shape aidx) = true ->
  np_nest shape aidx = Some n -> conv_nest shape aidx = Some n.
Proof.
  intros shape aidx n Hd Hh Ha Hm Hg H. unfold np_nest in H.
  destruct (np_index shape (map flat aidx)) as [v|] eqn:E; [|discriminate].
  pose proof (np_index_length _ _ _ E) as Hlen. rewrite map_length in Hlen.
  unfold conv_nest. rewrite (conv_view_complete_all shape (map flat aidx) v Hd Hh Ha Hm E). cbn [option_map].
  rewrite arrangement_agrees in H.
  - exact H.
  - rewrite form_items by (rewrite (np_index_length_eq _ _ _ E); assumption).
    rewrite (np_index_length_eq _ _ _ E). exact Hg.
Qed.

(* on any form: what the converter returns is the outer arrangement of NumPy's per-axis view, and it returns whenever that
   view exists (so on a bad form the converter is never rescued by an error: it returns the outer arrangement) *)
Theorem conv_nest_is_outer_nest : forall shape aidx,
  dims_ok shape -> (length aidx <= length shape)%nat -> hazard_free shape (map flat aidx) = true ->
  conv_accepts (map flat aidx) = true -> conv_minus1_ok (map flat aidx) = true ->
  conv_nest shape aidx = outer_nest shape aidx.
Proof.
  intros shape aidx Hd Hlen Hh Ha Hm. unfold conv_nest, outer_nest.
  destruct (np_index shape (map flat aidx)) as [v|] eqn:E.
  - rewrite (conv_view_complete_all _ _ _ Hd Hh Ha Hm E). reflexivity.
  - destruct (run_conv true shape (map flat aidx)) as [v|] eqn:E'; [|reflexivity].
    rewrite (conv_view_sound_all shape (map flat aidx) v) in E; try assumption; [discriminate|rewrite map_length; assumption].
Qed.

Example conv_good_complete_instance :     (* X[0, I, 1:] with a constant int beside a rank-2 tensor index, X of shape (2,4,3) *)
  let shape := [2; 4; 3] in
  let aidx := [AB (CInt 0); ATN [2; 2] [0; -1; 2; 1]; AB (CSlice (BConst 1) BNone BNone)] in
  hazard_free shape (map flat aidx) = true /\ conv_accepts (map flat aidx) = true /\ conv_minus1_ok (map flat aidx) = true /\
  good_form (full_form shape aidx) = true /\
  option_map fst (np_nest shape aidx) = Some [2; 2; 2] /\ conv_nest shape aidx = np_nest shape aidx.
Proof. vm_compute. repeat split. Qed.
