(* C14 -- process-wide state in general, four classes.  ProcessState.v covers operations whose only access to state
   that outlives them is through keyed memo tables.  Here an operation may touch three kinds of long-lived state:
     tables  T : memo tables (module-level dictionaries, functools caches, Opset.cache)            -- class "keyed"
     cells   C : fields of pass / rule / rule-set / matcher objects, module globals
                   reset_value c = Some v : re-initialised to v when an operation starts          -- class "reset"
                   reset_value c = None   : never re-initialised; the operation has to write it
                                            before it reads it, on every path                      -- class "must-def"
     logs    L : containers an operation only appends to and no operation reads                   -- class "append-only"
   A history is a list of ARBITRARY operations of this language (also ones that are not well behaved, also ones whose
   result is an error value); only the target has to be well behaved.
   No proofs in this file (StateClassesProofs.v). *)
From Coq Require Import List String Bool.
Require Import OV.Determinism.KeyedCache OV.Determinism.ProcessState.
Import ListNotations.

Section Classes.
  Variables T X K V R C L : Type.
  Variable T_eq_dec : forall a b : T, {a = b} + {a <> b}.
  Variable K_eq_dec : forall a b : K, {a = b} + {a <> b}.
  Variable C_eq_dec : forall a b : C, {a = b} + {a <> b}.
  Variable L_eq_dec : forall a b : L, {a = b} + {a <> b}.
  Variable k : T -> X -> K.
  Variable f : T -> X -> V.
  Variable reset_value : C -> option V.
  Variable dflt : C -> V.            (* what a cell holds in a fresh process (set by the constructor / at import) *)

  Inductive cop :=
  | CDone (r : R)
  | CAsk (t : T) (x : X) (cont : V -> cop)
  | CGet (c : C) (cont : V -> cop)
  | CPut (c : C) (v : V) (cont : cop)
  | CLog (l : L) (v : V) (cont : cop).

  Record cstate := { tabs : T -> list (K * V); cells : C -> V; logs : L -> list V }.
  Definition cfresh : cstate := {| tabs := fun _ => []; cells := dflt; logs := fun _ => [] |}.

  Fixpoint exec (o : cop) (s : cstate) : R * cstate :=
    match o with
    | CDone r => (r, s)
    | CAsk t x cont =>
        let res := request K_eq_dec (k t) (f t) (tabs s t) x in
        exec (cont (fst res)) {| tabs := upd_table T_eq_dec (tabs s) t (snd res); cells := cells s; logs := logs s |}
    | CGet c cont => exec (cont (cells s c)) s
    | CPut c v cont =>
        exec cont {| tabs := tabs s; cells := fun c' => if C_eq_dec c' c then v else cells s c'; logs := logs s |}
    | CLog l v cont =>
        exec cont {| tabs := tabs s; cells := cells s; logs := fun l' => if L_eq_dec l' l then v :: logs s l' else logs s l' |}
    end.

  (* the start of every operation: cells of class "reset" are re-initialised *)
  Definition cbegin (s : cstate) : cstate :=
    {| tabs := tabs s; cells := fun c => match reset_value c with Some v => v | None => cells s c end; logs := logs s |}.
  Definition crun (o : cop) (s : cstate) : R * cstate := exec o (cbegin s).
  Fixpoint cafter (h : list cop) (s : cstate) : cstate :=
    match h with [] => s | o :: r => cafter r (snd (crun o s)) end.

  (* the must-definition discipline: a cell is read only where it is certainly defined *)
  Fixpoint defined_before_read (defd : C -> bool) (o : cop) : Prop :=
    match o with
    | CDone _ => True
    | CAsk _ _ cont => forall v, defined_before_read defd (cont v)
    | CGet c cont => defd c = true /\ forall v, defined_before_read defd (cont v)
    | CPut c _ cont => defined_before_read (fun c' => if C_eq_dec c' c then true else defd c') cont
    | CLog _ _ cont => defined_before_read defd cont
    end.
  Definition reset_cells : C -> bool := fun c => match reset_value c with Some _ => true | None => false end.
  Definition well_behaved (o : cop) : Prop := defined_before_read reset_cells o.

  Definition four_class_history_independent : Prop :=
    forall (h : list cop) (o : cop), well_behaved o -> fst (crun o (cafter h cfresh)) = fst (crun o cfresh).
End Classes.
Arguments CDone {T X V R C L} r.
Arguments CAsk {T X V R C L} t x cont.
Arguments CGet {T X V R C L} c cont.
Arguments CPut {T X V R C L} c v cont.
Arguments CLog {T X V R C L} l v cont.

(* translator data (Gen/StateInventory.v): one record per piece of state that outlives an operation *)
Inductive state_class :=
| SKeyed (key_params fun_params : list string)   (* keyed by everything the result depends on *)
| SReset                                          (* reset at the start of every operation / constructed per operation *)
| SMustDef                                        (* written before read on every path (must-definition check) *)
| SAppendOnly                                     (* only appended to, never read by a result *)
| SImport                                         (* written only while its module is imported: the same in every process *)
| SExperiment (ops : list string)                 (* none of the above shown: exercised by the named history experiments *)
| SNone.                                          (* nothing: the obligation fails *)

Record inv_site := { iv_module : string; iv_name : string; iv_class : state_class }.
Definition inv_ok (s : inv_site) : bool :=
  match iv_class s with
  | SKeyed kp fp => forallb (fun p => smem p kp) fp
  | SReset | SMustDef | SAppendOnly | SImport => true
  | SExperiment ops => negb (match ops with [] => true | _ => false end)
  | SNone => false
  end.
Definition bad_inventory (l : list inv_site) : list string :=
  map (fun s => (iv_module s ++ ":" ++ iv_name s)%string) (filter (fun s => negb (inv_ok s)) l).
Definition experiments_of (l : list inv_site) : list string :=
  flat_map (fun s => match iv_class s with SExperiment ops => ops | _ => [] end) l.
Definition in_four_classes (s : inv_site) : bool :=
  match iv_class s with SKeyed _ _ | SReset | SMustDef | SAppendOnly | SImport => true | _ => false end.

(* witness for the refutation: one cell that is never reset, read without being written *)
Definition leak_get : cop unit unit nat nat unit unit := CGet tt (fun v => CDone v).
Definition leak_put (n : nat) : cop unit unit nat nat unit unit := CPut tt n (CDone 0).
