(* C13 (session 6, round 2): initializers OWNED BY SUBGRAPHS under skip_initializers.  Statements only.

   ONNX scopes the names of a subgraph to that subgraph: the two branches of an If, or the bodies of two Loop nodes, may
   each own an initializer "W" with different contents.  _translate_graph_body runs for every subgraph too: without the
   option such an initializer is printed as a Constant line inside the branch / body; with skip_initializers every
   initializer of more than _SMALL_TENSOR_SIZE elements, of whatever graph, becomes a parameter of make_model, keyed by its
   PYTHON name -- and the exporter raises when the key is already present.  Model: Export/SubInits.v (`export_si`, a
   transformation of the graph in front of export_cf; representation of a subgraph that owns initializers: g_inits = their
   names, the first nodes = the Constant nodes the exporter makes for them, which is the ONNX meaning under OV.Graph.Sem).

   C13_subinit_refuses_iff         with the option the exporter refuses iff two skipped initializers (main graph or nested, of
                                   any graphs) get the same Python name -- or the graph without them is refused for another reason
   C13_subinit_refuses_iff_names   for a renamer injective on the skipped names (the exporter's own is: Props/C13_rename.v):
                                   iff two skipped initializers have the same ONNX name (sibling branches, two Loop bodies, or
                                   a subgraph's initializer called like one of the main graph)
   C13_subinit_lifts_injectively   otherwise make_model takes exactly one parameter per skipped initializer, main graph's first,
                                   then the nested ones in traversal order (then-branch before else-branch), pairwise distinct
   C13_subinit_skip_is_lift        and the program is literally the one printed WITHOUT the option for the graph in which every
                                   skipped initializer is a leading graph input (C13_export_skip_is_lift extended to nested ones)
   C13_subinit_no_owner            no subgraph owns an initializer: export_si is export_cf (all earlier theorems unchanged)
   C13_subinit_noskip_sound_partial   option off, use_operators on or off: eval_script (export g) = eval_graph g for graphs whose
                                   subgraphs own initializers (the nested soundness theorem through the desugared graph)
   C13_subinit_example             non-vacuity: siblings "W"/"W" refused; "W"/"w.0" lifted as (W, w_0); the small one stays a line

   NOT proved (kept visible as C13_subinit_skip_sound_full): the SEMANTIC half with the option on for nested initializers --
   evaluating the lifted graph on (values of all skipped initializers ++ xs) equals evaluating the original graph (hoisting a
   Constant out of a branch into an outer binding needs the name not to be mentioned outside the subgraph that owns it; for
   the main graph's initializers this is C13_export_skip_sound_partial).  The round-trip oracle runs it on every generated case. *)
From Coq Require Import List String ZArith Bool.
Import ListNotations.
Require Import OV.Gen.ExportTables OV.Export.Cleanup OV.Graph.Syntax OV.Graph.Names OV.Graph.Sem OV.Script.Syntax OV.Script.PySem
               OV.Export.Emit OV.Export.EmitCF OV.Export.EmitOpts OV.Export.SubInits OV.Export.SubInitsProofs.
Local Open Scope string_scope.

Definition C13_subinit_skip_sound_full : Prop :=
  forall (V : Type) sem truth trip of_nat of_bool limit globals kw prename rename infun use_ops fname ivals g f sk senv nenv,
    export_si kw prename rename infun use_ops None true fname ivals g = Some (f, sk) ->
    init_env V sem (skipped_ivals ivals) = Some senv -> init_env V sem (nested_skipped_vals g) = Some nenv ->
    exists fuel0, forall fp fg xs, fuel0 <= fp -> fuel0 <= fg ->
      eval_script V sem truth trip of_nat limit globals fp (closure_params f sk) (map snd senv ++ map snd nenv ++ xs)%list =
      match init_env V sem ivals with
      | Some outer => eval_graph V sem truth trip of_nat of_bool limit fg outer g xs
      | None => None
      end.

Theorem C13_subinit_refuses_iff : forall kw prename rename infun use_ops inline fname ivals g,
  let g' := strip_top true g in
  let rm := fst (scan rename infun inline true ivals g') in
  export_si kw prename rename infun use_ops inline true fname ivals g = None <->
  (nodupb (map (tr_with rename rm) (all_skipped ivals g)) = false \/
   export_cf kw prename rename infun use_ops inline true fname ivals g' = None).
Proof. exact export_si_refuses_iff. Qed.
Print Assumptions C13_subinit_refuses_iff.

Theorem C13_subinit_refuses_iff_names : forall kw prename rename infun use_ops inline fname ivals g,
  let g' := strip_top true g in
  let rm := fst (scan rename infun inline true ivals g') in
  (forall x y, In x (all_skipped ivals g) -> In y (all_skipped ivals g) -> tr_with rename rm x = tr_with rename rm y -> x = y) ->
  (export_si kw prename rename infun use_ops inline true fname ivals g = None <->
   (nodupb (all_skipped ivals g) = false \/ export_cf kw prename rename infun use_ops inline true fname ivals g' = None)).
Proof. exact rename_inj_refuses_iff. Qed.
Print Assumptions C13_subinit_refuses_iff_names.

Theorem C13_subinit_lifts_injectively : forall kw prename rename infun use_ops inline fname ivals g f sk,
  export_si kw prename rename infun use_ops inline true fname ivals g = Some (f, sk) ->
  let rm := fst (scan rename infun inline true ivals (strip_top true g)) in
  sk = map (tr_with rename rm) (all_skipped ivals g) /\ NoDup sk /\
  List.length sk = List.length (skipped_ivals ivals) + List.length (nested_skipped g).
Proof. exact export_si_lifts_injectively. Qed.
Print Assumptions C13_subinit_lifts_injectively.

Theorem C13_subinit_skip_is_lift : forall kw prename rename infun use_ops fname ivals g f sk,
  export_si kw prename rename infun use_ops None true fname ivals g = Some (f, sk) ->
  export_cf kw prename rename infun use_ops None false fname (kept_ivals ivals) (lift_all ivals g) =
    Some ({| f_name := f_name f; f_tparams := (map prename (all_skipped ivals g) ++ f_tparams f)%list;
             f_aparams := f_aparams f; f_body := f_body f |}, []).
Proof. exact export_si_is_lift. Qed.
Print Assumptions C13_subinit_skip_is_lift.

Theorem C13_subinit_no_owner : forall kw prename rename infun use_ops inline skip fname ivals g,
  owns_nested g = false ->
  (skip = true -> nodupb (map (tr_with rename (fst (scan rename infun inline true ivals g))) (map fst (skipped_ivals ivals))) = true) ->
  export_si kw prename rename infun use_ops inline skip fname ivals g =
  export_cf kw prename rename infun use_ops inline skip fname ivals g.
Proof. exact export_si_no_owner. Qed.
Print Assumptions C13_subinit_no_owner.

Theorem C13_subinit_markers_not_read : forall (V : Type) sem truth trip of_nat of_bool limit fuel outer g args,
  eval_graph V sem truth trip of_nat of_bool limit fuel outer (strip_top false g) args =
  eval_graph V sem truth trip of_nat of_bool limit fuel outer g args.
Proof. exact eval_strip_top_false. Qed.
Print Assumptions C13_subinit_markers_not_read.

Theorem C13_subinit_noskip_sound_partial :
  forall (V : Type) sem truth trip of_nat of_bool limit globals kw prename rename infun,
    (forall v, sem "" "Identity" [] [Some v] = Some [v]) -> (forall b, truth (of_bool b) = Some b) ->
    forall brk,
    (forall v b, truth v = Some b -> exists r, sem "" "Not" [] [Some v] = Some [r] /\ truth r = Some (negb b)) ->
    (brk = true -> forall v, exists b, truth v = Some b) ->
    forall use_ops fname ivals g f sk,
    export_si kw prename rename infun use_ops None false fname ivals g = Some (f, sk) ->
    nested_ops_okb kw prename rename infun brk use_ops ivals (strip_top false g) = true ->
    forall fp fg xs, depth_graph (strip_top false g) <= S fp -> depth_graph (strip_top false g) <= S fg ->
      eval_script V sem truth trip of_nat limit globals (S (S fp)) f xs =
      match init_env V sem ivals with
      | Some outer => eval_graph V sem truth trip of_nat of_bool limit (S (S fg)) outer g xs
      | None => None
      end.
Proof. exact export_si_noskip_sound. Qed.
Print Assumptions C13_subinit_noskip_sound_partial.

Theorem C13_subinit_example :
  export_si kwlist (cleanup kwlist) (cleanup kwlist) true None None true "g" [] (g_siblings "W" w3) = None /\
  nested_skipped (g_siblings "W" w3) = ["W"; "W"] /\
  (exists f, export_si kwlist (cleanup kwlist) (cleanup kwlist) true None None false "g" [] (g_siblings "W" w3) = Some (f, []) /\
             f_body f = [SIf (EVar "b")
                             [SAssign "W" (ECall (COp "Constant") [] [("value", KLit w6a)]); SAssign "t" (ECall (COp "Mul") [Some (EVar "x"); Some (EVar "W")] []);
                              SAssign "y" (EVar "t")]
                             [SAssign "W" (ECall (COp "Constant") [] [("value", KLit w6b)]); SAssign "k" (ECall (COp "Constant") [] [("value", KLit w3)]);
                              SAssign "e0" (ECall (COp "Add") [Some (EVar "x"); Some (EVar "W")] []);
                              SAssign "e" (ECall (COp "Mul") [Some (EVar "e0"); Some (EVar "k")] []); SAssign "y" (EVar "e")];
                         SReturn [EVar "y"]]) /\
  (exists f, export_si kwlist (cleanup kwlist) (cleanup kwlist) true None None true "g" [] (g_siblings "w.0" w3) = Some (f, ["W"; "w_0"]) /\
             f_body f = [SIf (EVar "b")
                             [SAssign "t" (ECall (COp "Mul") [Some (EVar "x"); Some (EVar "W")] []); SAssign "y" (EVar "t")]
                             [SAssign "k" (ECall (COp "Constant") [] [("value", KLit w3)]);
                              SAssign "e0" (ECall (COp "Add") [Some (EVar "x"); Some (EVar "w_0")] []);
                              SAssign "e" (ECall (COp "Mul") [Some (EVar "e0"); Some (EVar "k")] []); SAssign "y" (EVar "e")];
                         SReturn [EVar "y"]]) /\
  g_ins (lift_all [] (g_siblings "w.0" w3)) = ["W"; "w.0"; "x"; "b"].
Proof. exact export_si_example. Qed.
Print Assumptions C13_subinit_example.
