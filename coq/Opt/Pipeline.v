(* The pass pipeline of onnxscript.optimizer._optimizer.optimize_ir as data (read from the source on every run into
   Gen/OptPipeline.v by harness/c03_pipeline.py) and the shape the soundness argument needs of it; the semantics of
   ir.passes.Sequential / PassManager(steps, early_stop) over stages that may fail and report `modified`.
   No proofs in this file. *)
From Coq Require Import List String ZArith Bool.
Require Import OV.Graph.Syntax.
Import ListNotations.
Local Open Scope string_scope.

Record pass_desc := mkPass { p_name : string; p_kwargs : list (string * string) }.

(* passes with a Gallina model and a soundness theorem / passes whose soundness is a named Section hypothesis *)
Definition modelled_passes : list string := ["FoldConstantsPass"; "RemoveUnusedNodesPass"; "CommonSubexpressionEliminationPass"].
Definition assumed_passes : list string :=
  ["InlinePass"; "RewritePass"; "RemoveUnusedFunctionsPass"; "RemoveUnusedOpsetsPass"; "LiftConstantsToInitializersPass";
   "LiftSubgraphInitializersToMainGraphPass"; "DeduplicateInitializersPass"; "OutputFixPass"; "NameFixPass"].

Fixpoint index_of (x : string) (l : list string) (i : nat) : option nat :=
  match l with [] => None | y :: t => if String.eqb x y then Some i else index_of x t (S i) end.
Definition before (a b : string) (l : list string) : bool :=
  match index_of a l 0, index_of b l 0 with Some i, Some j => Nat.ltb i j | _, _ => false end.
Fixpoint kw (k : string) (l : list (string * string)) : option string :=
  match l with [] => None | (x, v) :: t => if String.eqb k x then Some v else kw k t end.
Definition kw_is (k v : string) (p : pass_desc) : bool := match kw k (p_kwargs p) with Some w => String.eqb v w | None => false end.
Definition find_pass (n : string) (l : list pass_desc) : option pass_desc := find (fun p => String.eqb (p_name p) n) l.
Definition last_name (l : list string) : string := last l "".

Fixpoint list_eq_dec_names (a b : list string) : bool :=
  match a, b with [], [] => true | x :: s, y :: t => String.eqb x y && list_eq_dec_names s t | _, _ => false end.

(* what the soundness argument uses of the list (NOT a copy of it):
   - nothing un-modelled and un-assumed is present;
   - in the loop the folder runs before the rewriter and dead-node removal after it (rules leave dead nodes behind; the
     folder's input redirection leaves dead Identity nodes);
   - dead-node removal runs again right after the loop;
   - every Constant node is lifted (lift_all_constants=True, size_limit=0) BEFORE common-subexpression elimination, whose
     Python-equality key identifies Constant<value_float = 0.0> with Constant<value_float = -0.0> (Opt/CseProofs.v:
     cse_python_key_refuted); initializers are de-duplicated before it as well;
   - OutputFix and NameFix come last, NameFix at the very end (the rewriter and the folder create names that may clash);
   - the loop is wired to num_iterations / stop_if_no_change, the prefix is exactly [InlinePass] under `inline`. *)
Definition pipeline_ok (prefix_guard : string) (prefix : list pass_desc) (loop : list pass_desc) (steps early_stop : string)
           (post : list pass_desc) : bool :=
  let names l := map p_name l in
  forallb (fun n => mem n modelled_passes || mem n assumed_passes) (names prefix ++ names loop ++ names post)%list &&
  String.eqb prefix_guard "inline" && list_eq_dec_names (names prefix) ["InlinePass"] &&
  String.eqb steps "num_iterations" && String.eqb early_stop "stop_if_no_change" &&
  before "FoldConstantsPass" "RewritePass" (names loop) && before "RewritePass" "RemoveUnusedNodesPass" (names loop) &&
  match names post with "RemoveUnusedNodesPass" :: _ => true | _ => false end &&
  before "LiftConstantsToInitializersPass" "CommonSubexpressionEliminationPass" (names post) &&
  before "DeduplicateInitializersPass" "CommonSubexpressionEliminationPass" (names post) &&
  before "LiftSubgraphInitializersToMainGraphPass" "DeduplicateInitializersPass" (names post) &&
  match find_pass "LiftConstantsToInitializersPass" post with
  | Some p => kw_is "lift_all_constants" "True" p && kw_is "size_limit" "0" p
  | None => false
  end &&
  match find_pass "CommonSubexpressionEliminationPass" post with Some p => match p_kwargs p with [] => true | _ => false end | None => false end &&
  before "CommonSubexpressionEliminationPass" "OutputFixPass" (names post) && before "OutputFixPass" "NameFixPass" (names post) &&
  String.eqb (last_name (names post)) "NameFixPass".

(* ---- ir.passes.Sequential / PassManager over model transformers that may raise (None) and report `modified`; M = what a
   pass transforms (a graph, or a graph with its table of initializer values) *)
Definition mstage (M : Type) := M -> option (M * bool).

Fixpoint run_seq {M} (l : list (mstage M)) (g : M) : option (M * bool) :=
  match l with
  | [] => Some (g, false)
  | s :: t => match s g with
              | Some (g1, m1) => match run_seq t g1 with Some (g2, m2) => Some (g2, m1 || m2) | None => None end
              | None => None
              end
  end.

(* PassManager(passes, steps, early_stop): for _ in range(steps): run all; if early_stop and not modified: break *)
Fixpoint run_manager {M} (steps : nat) (early_stop : bool) (body : list (mstage M)) (g : M) : option (M * bool) :=
  match steps with
  | O => Some (g, false)
  | S k => match run_seq body g with
           | Some (g1, m1) =>
             if early_stop && negb m1 then Some (g1, m1)
             else match run_manager k early_stop body g1 with Some (g2, m2) => Some (g2, m1 || m2) | None => None end
           | None => None
           end
  end.

(* optimize_ir(model, num_iterations, stop_if_no_change, inline): Sequential([Inline]? ++ [PassManager(loop)] ++ post) *)
Definition optimize_ir_model {M} (inline : bool) (num_iterations : nat) (stop_if_no_change : bool)
           (prefix loop post : list (mstage M)) : mstage M :=
  run_seq ((if inline then prefix else []) ++ [run_manager num_iterations stop_if_no_change loop] ++ post)%list.
