(* C13 (session 6): _Exporter._handle_attrname_conflict -- a value whose Python name equals the name of an attribute
   parameter of the function is given an alternate name: the first of `name`, `name_0`, `name_1`, ... that is not among
   the names already used in the function; the alternate is remembered per Python name, and joins the used names.
     base   the wrapped renamer (unique names);  attrs  the attribute parameters;
     used0  the Python names of all names of the function (computed before the signature, when no conflict is known);
     seq    the ONNX names in the order in which the node phase first translates them.
   The parameters of the `def` line are translated before the attribute parameters are registered: they keep `base`.
   No proofs in this file (model for the correspondence check only). *)
From Coq Require Import List String Bool.
Require Import OV.Export.Cleanup OV.Export.Unique.
Import ListNotations.
Local Open Scope string_scope.

Section Attr.
  Variable base : string -> string.
  Variable attrs : list string.

  Fixpoint attr_go (seq : list string) (alts : list (string * string)) (used : list string) : option (list (string * string)) :=
    match seq with
    | [] => Some alts
    | x :: t =>
      let y := base x in
      if memb y attrs && negb (amem y alts) then
        match uniq_one y used with
        | Some c => attr_go t ((y, c) :: alts) (c :: used)
        | None => None
        end
      else attr_go t alts used
    end.
  Definition attr_map (used0 seq : list string) : option (list (string * string)) := attr_go seq [] used0.

  Definition attr_apply (om : option (list (string * string))) (x : string) : string :=
    let y := base x in
    if memb y attrs then
      match om with
      | Some m => match alookup y m with Some c => c | None => y end
      | None => y
      end
    else y.
End Attr.
