"""C10 -- when does onnxscript._framework_apis.torch_2_9.convert_version raise?

Coq: Pass2.torch_2_9_convert_r (inline pass that may refuse; native converter in the probed variant), theorems
C10_torch_2_9_raises_iff / _unadapted (Props/C10_pass2.v).  Here the real function is run on the inputs of each cause --
QuantizeLinear(int32 x, float scale) below 19 going to 19..22 (pre-check), "" and "ai.onnx" imported at different versions
(opset conflict), no "" import with a target above the maximum (range), a function importing another default-domain opset
than the model (InlinePass refuses), a node stamped above the target (raised during the visit) -- and on controls that return;
outcome class, exception class and the final state are compared with the model inside Coq (Pass2Std.tr_disagreeing), the
cause the model computes is reported, and the property is observed directly: a refused conversion leaves the model as it was.
"""
from __future__ import annotations

import numpy as np

from harness import common
from harness import c10_fallback as cfb
from harness.common import cbool, clist, cz


def _plain(s, imports=None, stamp=None, ql=None):
    from onnx import TensorProto as TP
    from onnx import helper

    def make():
        import onnx_ir as ir
        nodes = [helper.make_node("Relu", ["x"], ["a"]), helper.make_node("Neg", ["a"], ["y"])]
        g = helper.make_graph(nodes, "g", [helper.make_tensor_value_info("x", TP.FLOAT, [2, 3])], [helper.make_tensor_value_info("y", TP.FLOAT, [2, 3])])
        m = ir.from_proto(helper.make_model(g, opset_imports=[helper.make_opsetid("", s)], ir_version=9, producer_name="osverif-c10"))
        if imports is not None:
            for k in ("", "ai.onnx"):
                m.opset_imports.pop(k, None)
            m.opset_imports.update(imports)
        if stamp is not None:
            list(m.graph)[1].version = stamp
        return m
    return make


def _ql(K, s, xt, nested=False):
    def make():
        import onnx_ir as ir
        from onnx import TensorProto as TP
        from onnx import helper
        proto, _ = K._ql_model(s, xt)
        if nested:
            q = proto.graph.node[0]
            br = lambda tag: helper.make_graph([helper.make_node("QuantizeLinear", list(q.input), [tag])], tag, [], [helper.make_tensor_value_info(tag, TP.UINT8, [4])])
            g = helper.make_graph([helper.make_node("If", ["c"], ["y"], then_branch=br("yt"), else_branch=br("ye"))], "g",
                                  list(proto.graph.input) + [helper.make_tensor_value_info("c", TP.BOOL, [])], list(proto.graph.output))
            proto = helper.make_model(g, opset_imports=[helper.make_opsetid("", s)], ir_version=9, producer_name="osverif-c10")
        return ir.from_proto(proto)
    return make


def _func(ms, fs):
    def make():
        import onnx_ir as ir
        from onnx import TensorProto as TP
        from onnx import helper
        fn = helper.make_function("local", "F", ["x"], ["y"], [helper.make_node("Relu", ["x"], ["y"])], opset_imports=[helper.make_opsetid("", fs)])
        g = helper.make_graph([helper.make_node("F", ["x"], ["y"], domain="local"), helper.make_node("Neg", ["y"], ["z"])], "g",
                              [helper.make_tensor_value_info("x", TP.FLOAT, [2])], [helper.make_tensor_value_info("z", TP.FLOAT, [2])])
        return ir.from_proto(helper.make_model(g, opset_imports=[helper.make_opsetid("", ms), helper.make_opsetid("local", 1)], functions=[fn], ir_version=9))
    return make


def _inputs(K, lo, hi):
    from onnx import TensorProto as TP
    out = []
    for t in (19, 21, 22, 23, hi):
        out.append(("ql-int32", _ql(K, 18, TP.INT32), t, "refused" if 19 <= t < 23 else "returns"))
        out.append(("ql-float", _ql(K, 18, TP.FLOAT), t, "returns"))
    out.append(("ql-int32-in-if", _ql(K, 18, TP.INT32, nested=True), 20, "refused"))
    out.append(("ql-int32-in-if", _ql(K, 18, TP.INT32, nested=True), 23, "returns"))
    out.append(("ql-int32-at-19", _ql(K, 19, TP.INT32), 21, "returns"))        # already written for 19: not this converter's business
    out.append(("conflict", _plain(19, {"": 19, "ai.onnx": 20}), 21, None))   # the inline pass may drop the unused import: measured
    out.append(("conflict", _plain(19, {"": 20, "ai.onnx": 19}), 22, None))
    out.append(("same-both", _plain(19, {"": 19, "ai.onnx": 19}), 21, "returns"))
    out.append(("ai-onnx-only", _plain(19, {"ai.onnx": 19}), 21, None))
    out.append(("ai-onnx-only", _plain(19, {"ai.onnx": 19}), hi + 1, None))     # no "" import: version_supported says yes whatever the target
    out.append(("function-other-opset", _func(20, 19), 21, "inline"))
    out.append(("function-other-opset", _func(19, 20), 21, "inline"))
    out.append(("function-same-opset", _func(20, 20), 22, "returns"))
    out.append(("stamped-above-target", _plain(19, stamp=22), 21, "visit"))
    out.append(("stamped-at-target", _plain(19, stamp=21), 21, "returns"))
    out.append(("plain", _plain(19), 21, "returns"))
    out.append(("plain", _plain(hi), hi, "returns"))
    out.append(("below-min", _plain(lo - 2), lo, "returns"))                    # not natively supported: goes to the C API, never raises
    return out


def run(ctx, K, st, fx):
    import onnx_ir as ir
    import onnx_ir.passes.common as cp
    from onnxscript._framework_apis import torch_2_9
    from onnxscript.version_converter import _c_api_utils
    lo, hi = st["lo"], st["hi"]
    limit = _c_api_utils._BIG_TENSOR_SIZE_LIMIT
    lits, metas = [], []
    outcomes = {}
    for kind, make, t, expect in _inputs(K, lo, hi):
        coder = cfb.Coder()
        sig = lambda m: cfb.ir_sig(m.graph, coder, lambda name, tn: 1)
        # oracle `inline_r`, measured on a fresh copy built the same way
        mi = make()
        try:
            ir.passes.Sequential(cp.InlinePass(), cp.RemoveUnusedFunctionsPass(), cp.RemoveUnusedOpsetsPass())(mi)
            inl = (K.x_model(mi), sig(mi))
        except Exception:  # noqa: BLE001 -- the refusal is the observation
            inl = None
        m = make()
        before = (K.x_model(m), sig(m))
        h = K._quiet_logging()
        h.skips = 0
        err = None
        try:
            torch_2_9.convert_version(m, t)
        except Exception as e:  # noqa: BLE001
            err = e
        after = (K.x_model(m), sig(m))
        goes_native = inl is not None and inl[0][0] != t and (inl[0][0] is None or lo <= inl[0][0] <= t <= hi)
        if inl is not None and not goes_native and inl[0][0] != t:
            # C-API branch: not this family's business (c10_fallback compares it); only "never raises" is judged here
            if err is not None:
                ctx.violation("C10:torch_2_9:unsupported-request:raises", f"torch_2_9.convert_version {kind} ->{t}: raised {type(err).__name__}", {"kind": kind, "t": t})
            ctx.case(("torch-raises", kind, "capi", err is None))
            outcomes["capi"] = outcomes.get("capi", 0) + 1
            continue
        if err is None:
            obs = f"(RODone {K.c_model(after[0])} {cfb.c_gsig(after[1])} {h.skips}%nat)"
            got = "returns"
        elif inl is None:
            obs = "RORaisedInline"
            got = "inline"
        else:
            obs = f"(RORaisedNative {K.exc_class(err)} {K.c_model(after[0])} {cfb.c_gsig(after[1])})"
            got = "raises"
        c_inl = "None" if inl is None else f"(Some ({K.c_model(inl[0])}, {cfb.c_gsig(inl[1])}))"
        lits.append(f"(RCase {cbool(fx['own'])} {cbool(fx['refuse'])} {fx['minchk']} {K.c_flags(fx)} {cz(limit)} {c_inl} {cz(t)} {obs})")
        metas.append((kind, t, got, type(err).__name__ if err else None))
        outcomes[got] = outcomes.get(got, 0) + 1
        ctx.case(("torch-raises", kind, got, t))
        rep = {"family": "torch_2_9-raises", "input": kind, "t": t, "outcome": got, "error": str(err)[:160] if err else None}
        # what this family expects of the code as it stands (variant with the QuantizeLinear pre-check)
        want = {"refused": "raises" if fx["refuse"] else "returns", "visit": "raises", "inline": "inline", "returns": "returns", None: got}[expect]
        if got != want:
            ctx.tie_broken("correspondence", f"torch_2_9-raises:{kind}", f"->{t}: expected `{want}`, observed `{got}` ({rep['error']})")
        # the property, directly: a refused conversion leaves the model as it was (modulo the inlining that precedes it)
        if err is not None and kind != "stamped-above-target":
            ref = before if inl is None else inl
            if after[0] != ref[0] or after[1] != ref[1]:
                ctx.violation(f"C10:torch_2_9:{kind}:raised-but-modified", f"torch_2_9.convert_version({kind}, {t}) raised {type(err).__name__} and left the "
                              "model changed", dict(rep, before=repr(ref)[:600], after=repr(after)[:600]))
    body = ("Definition cs : list rcase := " + clist(lits) + ".\nEval vm_compute in (tr_disagreeing 0 cs).\nEval vm_compute in (map rc_cause cs).")
    ok, vals, raw = ctx.coq_eval(["OV.Version.Model", "OV.Version.Model2", "OV.Version.Adapters", "OV.Version.Std", "OV.Version.CApi", "OV.Version.Fallback",
                                  "OV.Version.FallbackStd", "OV.Version.Pass2", "OV.Version.Pass2Std"], body, name="c10_torch_raises")
    bad = None
    causes = {}
    if not ok or len(vals) < 2:
        ctx.tie_broken("correspondence", "torch_2_9-raises-evaluation", raw[-600:])
    else:
        bad = [metas[j] for j in common.parse_nat_list(vals[0])]
        if bad:
            ctx.tie_broken("correspondence", "torch_2_9-raises", f"{len(bad)} case(s) where torch_2_9.convert_version differs from Pass2.torch_2_9_convert_r "
                           f"(outcome class / exception class / final state); first (input, t, outcome, error): {bad[:4]}")
        names = {0: "none", 1: "range", 2: "opset-conflict", 3: "pre-check", 4: "during-visit"}
        cs = common.parse_nat_list(vals[1])
        for (kind, t, got, _), c in zip(metas, cs):
            causes[f"{kind}->{t}"] = f"{got}/{names.get(c, c)}"
            # the cause the model computes and the observed outcome must tell the same story
            if (c != 0) != (got == "raises"):
                ctx.tie_broken("correspondence", f"torch_2_9-raises-cause:{kind}", f"->{t}: model cause `{names.get(c, c)}` but observed `{got}`")
    ctx.obligation("correspondence: _framework_apis.torch_2_9.convert_version on the inputs of every cause of C10_torch_2_9_raises_iff (QuantizeLinear pre-check, "
                   "opset conflict, range without a default import, InlinePass refusal, node above the target) and on controls = Pass2.torch_2_9_convert_r: "
                   "outcome class, exception class, final state; cause computed by the model consistent with the outcome", bad == [],
                   f"{bad and len(bad)} disagreeing of {len(lits)}; outcomes {outcomes}")
    ctx.cover(torch_2_9_raises={"cases": len(lits), "outcomes": outcomes, "causes": causes})
