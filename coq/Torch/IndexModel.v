(* C08 (fourth group) -- advanced indexing: aten_index (core.py, _aten_index_onnx) and aten_index_put with integer index tensors.
   Axes are modelled as a list of LABELS of an arbitrary type A (instantiated with the extents for shapes): a statement about
   every label list says which input axis ends up at which output position, i.e. that the Transposes around GatherND /
   ScatterND route the data where PyTorch's advanced indexing puts it.  m : list bool is the mask of the `indices` list
   (true = an index tensor, false = None; missing trailing entries = None); B = the axes of the broadcast index tensors.
   No proofs in this file. *)
From Coq Require Import ZArith List Bool String.
Require Import OV.Torch.Onnx OV.Torch.Onnx2 OV.Torch.Aten.
Import ListNotations.

Section Axes.
Context {A : Type}.
(* Transpose(perm): output axis i is input axis perm[i] *)
Definition permute (p : list nat) (l : list A) : option (list A) := omap_all (nth_error l) p.
(* the axes that carry an index tensor / that do not (a short mask leaves the trailing axes alone) *)
Fixpoint select (m : list bool) (l : list A) : list A :=
  match m, l with b :: m', x :: l' => if b then x :: select m' l' else select m' l' | _, _ => [] end.
Fixpoint reject (m : list bool) (l : list A) : list A :=
  match m, l with
  | b :: m', x :: l' => if b then reject m' l' else x :: reject m' l'
  | [], l => l
  | _, [] => []
  end.
End Axes.

Fixpoint pos_of (v : bool) (i : nat) (m : list bool) : list nat :=
  match m with [] => [] | b :: m' => ((if Bool.eqb b v then [i] else []) ++ pos_of v (S i) m')%list end.
Definition count_true (m : list bool) : nat := List.length (filter (fun b => b) m).
Fixpoint lead_false (m : list bool) : nat := match m with false :: m' => S (lead_false m') | _ => O end.
(* _are_consecutive(positions of the index tensors) *)
Fixpoint after_true (m : list bool) : bool :=
  match m with [] => true | true :: m' => after_true m' | false :: m' => forallb negb m' end.
Fixpoint contiguousb (m : list bool) : bool :=
  match m with [] => true | false :: m' => contiguousb m' | true :: m' => after_true m' end.

(* ------------------------------------------------------------------ PyTorch (TensorAdvancedIndexing: index tensors adjacent -> the broadcast axes
   replace them in place; otherwise they go to the front) *)
Definition torch_index_axes {A} (m : list bool) (B s : list A) : list A :=
  if contiguousb m then (firstn (lead_false m) s ++ B ++ skipn (lead_false m + count_true m) s)%list
  else (B ++ reject m s)%list.

(* ------------------------------------------------------------------ _aten_index_onnx
   reordered_positions = sorted(range(len(indices)), key = (is None, i)) + range(len(indices), rank); Transpose; GatherND(batch_dims = 0)
   gives B ++ (the axes without index); adjacent index tensors: Transpose(perm) with
   perm = range(b, b + f) + range(b) + range(b + f, result_rank), b = max index rank, f = first index position *)
Definition index_perm (m : list bool) (r : nat) : list nat :=
  (pos_of true 0 m ++ pos_of false 0 m ++ seq (List.length m) (r - List.length m))%list.
Definition final_perm (b f rr : nat) : list nat := (seq b f ++ seq 0 b ++ seq (b + f) (rr - (b + f)))%list.
Definition aten_index_axes {A} (m : list bool) (B s : list A) : option (list A) :=
  obind (permute (index_perm m (List.length s)) s) (fun t =>
    let G := (B ++ skipn (count_true m) t)%list in
    if contiguousb m then permute (final_perm (List.length B) (lead_false m) (List.length s - count_true m + List.length B)) G
    else Some G).

(* ------------------------------------------------------------------ aten_index_put: indices padded with None to the rank; perm = advanced positions + None positions;
   transposed = Transpose(self, perm); ScatterND(transposed, index, Expand(values', B ++ none extents)); Transpose(inverse_perm).
   Adjacent index tensors: values is unsqueezed in front to the target rank and transposed with
   values_perm = range(f, f + b) + range(f) + range(f + b, target_rank) *)
Definition pad_mask (m : list bool) (r : nat) : list bool := (m ++ repeat false (r - List.length m))%list.
Definition put_perm (m : list bool) (r : nat) : list nat := (pos_of true 0 (pad_mask m r) ++ pos_of false 0 (pad_mask m r))%list.
Fixpoint index_of (j : nat) (p : list nat) : nat :=
  match p with [] => O | x :: p' => if Nat.eqb x j then O else S (index_of j p') end.
Definition inverse_perm (p : list nat) : list nat := map (fun j => index_of j p) (seq 0 (List.length p)).
Definition values_perm (b f tr : nat) : list nat := (seq f b ++ seq 0 f ++ seq (f + b) (tr - (f + b)))%list.
(* the axes of the updates ScatterND receives: values laid out as PyTorch broadcasts it (against torch_index_axes), transposed *)
Definition aten_put_values_axes {A} (m : list bool) (B s : list A) : option (list A) :=
  let V := torch_index_axes m B s in
  if contiguousb m then permute (values_perm (List.length B) (lead_false m) (List.length V)) V else Some V.
(* what ScatterND expects: B followed by the axes without index *)
Definition put_target_axes {A} (m : list bool) (B s : list A) : list A := (B ++ reject m s)%list.
(* the result: inverse transposition of the transposed self *)
Definition aten_index_put_axes {A} (m : list bool) (s : list A) : option (list A) :=
  obind (permute (put_perm m (List.length s)) s) (fun t => permute (inverse_perm (put_perm m (List.length s))) t).

(* ------------------------------------------------------------------ shapes: the broadcast of the index shapes *)
Fixpoint bcast_all (ss : list (list Z)) : option (list Z) :=
  match ss with
  | [] => Some []
  | s :: t => obind (bcast_all t) (fun r => bcast_shape s r)
  end.
Definition aten_index_shape (m : list bool) (idx : list (list Z)) (s : list Z) : option (list Z) :=
  obind (bcast_all idx) (fun B => aten_index_axes m B s).
Definition torch_index_shape (m : list bool) (idx : list (list Z)) (s : list Z) : option (list Z) :=
  if (Nat.leb (List.length m) (List.length s)) && (Nat.ltb 0 (count_true m)) && (Nat.eqb (count_true m) (List.length idx))
  then option_map (fun B => torch_index_axes m B s) (bcast_all idx) else None.

(* ------------------------------------------------------------------ skeletons, projected to Transpose / Gather / GatherND / ScatterND / the Unsqueeze of values *)
Local Open Scope string_scope.
Definition zl (p : list nat) : list Z := map Z.of_nat p.
Definition skel_index (m : list bool) (b r : nat) : skel :=
  ([("Transpose", [zl (index_perm m r)]); ("GatherND", [[0%Z]])]
   ++ (if contiguousb m then [("Transpose", [zl (final_perm b (lead_false m) (r - count_true m + b))])] else []))%list.
Definition skel_index_put (m : list bool) (b r vrank : nat) : skel :=
  let tr := (b + (r - count_true m))%nat in
  ([("Gather", [[0%Z]; zl (pos_of false 0 (pad_mask m r))]); ("Transpose", [zl (put_perm m r)])]
   ++ (if contiguousb m then ((if Nat.ltb vrank tr then [("Unsqueeze", [zl (seq 0 (tr - vrank))])] else [])
                              ++ [("Transpose", [zl (values_perm b (lead_false m) tr)])])%list else [])
   ++ [("ScatterND", []); ("Transpose", [zl (inverse_perm (put_perm m r))])])%list.
