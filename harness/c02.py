"""C02 -- every proto the converter emits is well-formed ONNX; bad programs are refused (DESIGN.md section 5, C02).

Tie (V): for every generated program the real @script decorator accepts, the real FunctionProto and
ModelProto are turned into OV.Graph.Syntax literals (harness/graphlit.py) and the verified checkers
`wf_graphb`, `no_input_returned`, `imports_ok` (coq/Graph/Wf.v; soundness `wf_graphb_sound` in
coq/Graph/WfProofs.v, completeness `wf_graphb_complete` in coq/Graph/WfCompleteProofs.v, exported by Props/C02.v and
Props/C02_complete.v: true <-> the declarative rules hold, so a `false` verdict is a proof that the proto violates
them) are evaluated on them inside Coq.  Direct oracle:
onnx.checker (check_model full_check=True / check_function).  Near-miss stream: one grammar-violating
mutation per program must be refused at decoration time with one of the exception classes the source
raises on purpose; an accepted near miss is checked like any accepted program.

Subscript stream: programs of the same grammar with tensor subscripts at every nesting position (c01_gen.gen_subscript_program
+ corpus/C01/subscript.json).  Script/Syntax.v has no subscript expression, so for these there is no converter-model theorem:
the verified checkers are evaluated on the real protos and onnx.checker is run, as for every other accepted program.

Near-miss stream 2 (harness/c02_near.py, session 6): about 110 further construct kinds on accepted base programs.
Refusal tie (coq/Script/Refuse.v, C02_defective_never_accepted): on model-expressible near misses the class and the
source line of the statement at the path computed by the verified detector are compared in Coq with the real exception.

Round 3 (harness/c02_domains.py): (A) one function using two versions of the standard opset, both orders, default by first use /
by default_opset=, operators whose calling convention changed in between: refused with a located exception or valid protos;
(B) main -> script functions of >= 3 custom domains reached only through other script functions (chains, diamonds; calls inside
if / loop bodies): `model_imports_ok` (coq/Graph/ModelImports.v; C02_model_imports_declarative: every domain used by the main graph
or by the body of ANY model-local function is imported by the model, every function imports what its body uses) is evaluated in
Coq on every real ModelProto of every stream, with the functions and their imports (graphlit.model_funs_lit); onnxruntime must
load these models and compute the numpy reading.

Name-resolution near misses (c01_gen.name_near_miss): a variable assigned on only one path (one branch of an if, the body
of a loop that may run zero times) and used afterwards, whose name also denotes a module-level global / closure variable /
module-level script function / converter-generated value name.  In Python the name is local to the function and unbound on
the other path, so the program must be refused whatever the module contains; acceptance is a violation.
"""
from __future__ import annotations

import collections
import traceback

from harness import c01_gen, c01_run, c02_near, common, graphlit
from harness.common import clist

PROPERTY = "C02"
LEVEL = "proof"


def crash_site(e):
    """Site of an internal crash; a crash inside the subscript translation is keyed by what it was doing."""
    import traceback as _tb
    frames = [fr for fr in _tb.extract_tb(e.__traceback__) if "onnxscript" in fr.filename]
    for fr in frames:
        if fr.name == "_translate_subscript_expr" and '"Identity"' in (fr.line or "") and "_add_usage" in str(e):
            return "converter._translate_subscript_expr:identity-of-unindexed-value"
    return c01_run.crash_site(e)


def classify_checker_error(txt):
    if "value_float' expect" in txt or "value_int' expect" in txt or "ref_attr" in txt or "Unrecognized attribute" in txt and "@" in txt:
        return "attr-ref-in-model-graph"
    if "expect a" in txt and "Attribute" in txt:
        return "attr-ref-in-model-graph"
    if "ShapeInferenceError" in txt or "TypeInferenceError" in txt or "InferenceError" in txt:
        return "inference-error"
    if "No opset import for domain" in txt:
        return "nested-domain-not-imported"
    if "ValidationError" in txt:
        return "validation-error"
    return "other"


# what a `false` verdict proves (Props/C02_complete.v): the checkers are complete, not only sound
REFUTES = {
    "wf_graphb": "by C02_wf_false_refutes / C02_wf_false_cases the proto violates the declarative rules: a use is not defined before it in "
                 "this graph or an enclosing one, a subgraph output is not produced inside, outputs repeat, or a value name is defined twice "
                 "across the graph and its nested subgraphs",
    "no_input_returned": "by C02_no_input_returned_false some graph input is listed as a graph output",
    "imports_ok": "by C02_imports_false a domain is imported twice or a node (at some nesting depth) uses a domain that is not imported",
    "model_imports_ok": "by C02_model_imports_false the model imports a domain twice, or a node of the main graph uses a domain the model does not "
                        "import, or a model-local function imports a domain twice or its body uses a domain that the function or the MODEL does "
                        "not import (the functions are part of the model: C02_model_imports_declarative)",
}


def regenerate(ctx):
    """Props/C02.v also exports a theorem about the converter model, which depends on the generated tables."""
    from harness import c01
    c01.regenerate(ctx)


class Collected:
    """Protos of accepted programs waiting for the verified checkers (evaluated in Coq in batches)."""

    def __init__(self):
        self.items = []   # (graph literal, imports literal, meta)
        self.funs = {}    # index in items -> Coq `list mfun` (ModelProto only: imports + body of every model-local function)

    def add(self, glit, ilit, meta, funs=None):
        if funs is not None:
            self.funs[len(self.items)] = funs
        self.items.append((glit, ilit, meta))


def observe_accepted(ctx, mod, prog, source, stream, kind, coll, stats):
    """All C02 observations on one accepted module: checker + literals for the verified checkers."""
    import onnx

    fnames = [h["name"] for h in prog["subs"]] + [prog["name"]]
    for fname in fnames:
        f = getattr(mod, fname, None)
        if f is None or not hasattr(f, "to_function_proto"):
            continue
        replay = {"stream": stream, "near_miss": kind, "function": fname, "source": source}
        # ---- FunctionProto
        try:
            fp = f.to_function_proto()
        except Exception as e:  # noqa: BLE001
            ctx.violation(f"C02:to_function_proto-raises:{type(e).__name__}@{crash_site(e)}",
                          f"to_function_proto() of an accepted program raised {e!r}", replay)
            continue
        err = c01_run.check_function(fp, extra_imports=[("this", 1)])
        stats["function_protos"] += 1
        if err is not None:
            cls_f = classify_checker_error(err)
            if cls_f != "nested-domain-not-imported" and c01_run.subgraph_lists_value_twice(fp):
                cls_f = "subgraph-lists-a-value-twice"
            ctx.violation(f"C02:check_function:{cls_f}",
                          f"onnx.checker.check_function rejects the FunctionProto of an accepted program: {err[:300]}", replay)
        if not c01_run.single_version_imports(fp.opset_import):
            ctx.violation("C02:function:domain-imported-twice", "FunctionProto imports a domain more than once", replay)
        top_domains = {n.domain for n in fp.node}
        imported = {o.domain for o in fp.opset_import}
        hints = {"wf": "subgraph-lists-a-value-twice" if c01_run.subgraph_lists_value_twice(fp) else "other",
                 "input_returned": "returned-through-alias-while-parameter-name-rebound"
                 if any(o in set(fp.input) and o in c01_run.names_assigned(f) for o in fp.output) else "other",
                 "imports": "domain-used-only-in-subgraph" if top_domains <= imported else "other"}
        coll.add(graphlit.function_lit(fp), graphlit.imports_lit(fp.opset_import),
                 dict(replay, proto="function", nodes=len(fp.node), hints=hints))
        # ---- ModelProto (only the function under test; a function with required attributes cannot be a model)
        if fname != prog["name"]:
            continue
        required = any(a[2] is None for a in prog["aparams"])
        try:
            mp = f.to_model_proto()
        except ValueError as e:
            if required and "required attributes" in str(e):
                stats["model_refused_required_attr"] += 1
                continue
            ctx.violation(f"C02:to_model_proto-raises:ValueError@{crash_site(e)}", f"to_model_proto() raised {e!r}", replay)
            continue
        except Exception as e:  # noqa: BLE001
            ctx.violation(f"C02:to_model_proto-raises:{type(e).__name__}@{crash_site(e)}", f"to_model_proto() raised {e!r}", replay)
            continue
        stats["model_protos"] += 1
        err = c01_run.check_model(mp)
        if err is not None:
            cls = classify_checker_error(err)
            has_attr = bool(prog["aparams"])
            if cls == "attr-ref-in-model-graph" or (has_attr and model_has_attr_refs(mp)):
                key = "C02:check_model:attribute-parameter-reference-left-in-model-graph"
            elif cls == "inference-error" and c01_run.loops_listed_in_two_orders(f, mod):
                key = "C02:check_model:loop-state-listed-in-two-orders"
            elif c01_run.subgraph_lists_value_twice(fp):
                key = "C02:check_model:subgraph-lists-a-value-twice"
            elif "Field 'shape' of 'type' is required but missing" in err and "[...]" in source:
                key = "C02:check_model:unknown-rank-annotation:value-info-without-shape"
            else:
                key = f"C02:check_model:{cls}"
            ctx.violation(key, f"onnx.checker.check_model(full_check=True) rejects the ModelProto of an accepted program: {err[:300]}", replay)
        elif model_has_attr_refs(mp):
            ctx.violation("C02:check_model:attribute-parameter-reference-left-in-model-graph",
                          "ModelProto main graph still refers to attribute parameters (ref_attr_name) of the function it was made from", replay)
        if not c01_run.single_version_imports(mp.opset_import):
            ctx.violation("C02:model:domain-imported-twice", "ModelProto imports a domain more than once", replay)
        from harness import c02_domains
        coll.add(graphlit.graph_lit(mp.graph), graphlit.imports_lit(mp.opset_import),
                 dict(replay, proto="model", nodes=len(mp.graph.node), hints=dict(hints, imports="other", model_imports=c02_domains.model_imports_hint(mp))),
                 funs=graphlit.model_funs_lit(mp))
        for lf in mp.functions:
            coll.add(graphlit.function_lit(lf), graphlit.imports_lit(lf.opset_import),
                     dict(replay, proto="model-local-function", function=lf.name, nodes=len(lf.node), hints={"wf": "other", "input_returned": "other", "imports": "other"}))


def model_has_attr_refs(mp):
    def g_has(g):
        for n in g.node:
            for a in n.attribute:
                if a.ref_attr_name:
                    return True
                if a.type == a.GRAPH and g_has(a.g):
                    return True
                if a.type == a.GRAPHS and any(g_has(x) for x in a.graphs):
                    return True
        return False
    return g_has(mp.graph)


def eval_checkers(ctx, coll, stats):
    """Evaluate wf_graphb / no_input_returned / imports_ok in Coq on everything collected, and model_imports_ok (main graph +
    the bodies and imports of all model-local functions, Graph/ModelImports.v) on every ModelProto."""
    items = coll.items
    B = 150
    bodies, slices = [], []
    for lo in range(0, len(items), B):
        chunk = items[lo:lo + B]
        defs = "\n".join(f"Definition g{i} : graph := {g}." for i, (g, _im, _m) in enumerate(chunk))
        lst = clist([f"(g{i}, {im})" for i, (_g, im, _m) in enumerate(chunk)])
        mlst = clist([f"({i}, g{i}, {chunk[i][1]}, {coll.funs[lo + i]})" for i in range(len(chunk)) if (lo + i) in coll.funs])
        body = (defs + f"\nDefinition cases : list (graph * list string) := {lst}.\n"
                "Fixpoint failing (chk : graph * list string -> bool) (i : nat) (l : list (graph * list string)) : list nat :=\n"
                "  match l with [] => [] | c :: t => (if chk c then [] else [i]) ++ failing chk (S i) t end.\n"
                "Eval vm_compute in (failing (fun c => wf_graphb (fst c)) 0 cases).\n"
                "Eval vm_compute in (failing (fun c => no_input_returned (fst c)) 0 cases).\n"
                "Eval vm_compute in (failing (fun c => imports_ok (snd c) (fst c)) 0 cases).\n"
                f"Definition mcases : list (nat * graph * list string * list mfun) := {mlst}.\n"
                "Eval vm_compute in (flat_map (fun c => let '(i, g, im, fs) := c in if model_imports_ok im g fs then [] else [i]) mcases).\n")
        bodies.append(body)
        slices.append(lo)
    results = c01_run.coq_eval_par(ctx, graphlit.REQUIRES + ["OV.Graph.ModelImports"], bodies, "c02_wf")
    names = ["wf_graphb", "no_input_returned", "imports_ok", "model_imports_ok"]
    bad_total = collections.Counter()
    for lo, (ok, vals, raw) in zip(slices, results):
        if not ok or len(vals) != 4:
            ctx.tie_broken("checker", "verified-checkers-evaluation", raw[-1500:])
            continue
        for name, v in zip(names, vals):
            for i in common.parse_nat_list(v):
                glit, ilit, meta = items[lo + i]
                bad_total[name] += 1
                proto = meta["proto"].replace("model-local-function", "function")
                key = f"C02:{name}:{proto}"
                if name == "wf_graphb" and meta["hints"].get("wf", "other") != "other":
                    key += ":" + meta["hints"]["wf"]
                if name == "no_input_returned":
                    key += ":" + meta["hints"]["input_returned"]
                elif name == "imports_ok":
                    key += ":" + meta["hints"]["imports"]
                elif name == "model_imports_ok":
                    key += ":" + meta["hints"].get("model_imports", "other")
                if meta["proto"] == "model-local-function":
                    continue   # the same FunctionProto is judged once, as the function under test of its own program
                ctx.violation(key,
                              f"verified checker {name} = false on the real {meta['proto']} proto of an accepted program: " + REFUTES[name],
                              {k: meta[k] for k in ("stream", "near_miss", "function", "source", "proto")})
    stats["checker_false"] = sum(bad_total.values())
    ctx.obligation(f"verified checkers wf_graphb / no_input_returned / imports_ok evaluated in Coq on {len(items)} real protos", bool(results) or not items)
    n_fun = sum(1 for i in coll.funs if coll.funs[i] != "[]")
    ctx.obligation(f"verified checker model_imports_ok (main graph + bodies and imports of all model-local functions; C02_model_imports_declarative) "
                   f"evaluated in Coq on {len(coll.funs)} real ModelProtos ({n_fun} with model-local functions)", (bool(results) or not items) and n_fun > 0)
    return bad_total


def model_side_tie(ctx, model_side, stats):
    """The tie of C02_translate_wf_straightline_partial (a theorem about the converter *model*) to converter.py, and
    evidence for C02_translate_wf_full: on programs of the valid stream, inside Coq,
      (a) the model's graph = the real function_ir, names included (Script/Corr.v; where they differ the model's `legacy`
          switch -- the confirmed defects the model repairs -- must explain it),
      (b) wf_graphb / no_input_returned hold of the model's graph (straight-line programs: the theorem; others: the full
          statement observed)."""
    from harness import c01
    cases, lcases, meta = [], [], []
    for (i, prog, src, mod, exc, events) in model_side:
        d = c01.Decorated(i, prog, src, mod, exc, events)
        for fp in d.funcs:
            if exc is not None and fp["name"] not in events:
                continue
            try:
                txt, _loops, acc = c01.translate_case(d, fp)
                ltxt = c01.translate_case(d, fp, legacy=True)[0]     # the unrepaired code lists the loop state twice
            except TypeError:
                continue          # a construct Script/Syntax.v has no constructor for
            cases.append(txt)
            lcases.append(ltxt)
            straight = all(st[0] in ("assign", "tassign", "return") for st in fp["body"])
            meta.append((d, fp, acc, straight))
    B = 40
    bodies = []
    for lo in range(0, len(cases), B):
        bodies.append(f"Open Scope string_scope.\nDefinition cases : list tcase := {clist(cases[lo:lo + B])}.\n"
                      f"Definition lcases : list tcase := {clist(lcases[lo:lo + B])}.\n"
                      "Eval vm_compute in (tdisagreeing false 0 cases).\n"
                      "Eval vm_compute in (tdisagreeing true 0 lcases).\n"
                      "Fixpoint notwf (i : nat) (l : list tcase) : list nat :=\n"
                      "  match l with [] => [] | c :: t => (match model_of false c with Some g => if wf_graphb g && no_input_returned g then [] else [i] | None => [] end) ++ notwf (S i) t end.\n"
                      "Eval vm_compute in (notwf 0 cases).\n")
    res = c01_run.coq_eval_par(ctx, c01.SCRIPT_REQ + ["OV.Graph.Wf", "OV.Script.Translate", "OV.Script.Corr"], bodies, "c02_model")
    differ, unexplained, notwf = [], [], []
    ok_eval = bool(res) or not cases
    for k, (ok, vals, raw) in enumerate(res):
        if not ok or len(vals) != 3:
            ctx.tie_broken("correspondence", "translate:model-evaluation", raw[-1500:])
            ok_eval = False
            continue
        d0 = set(common.parse_nat_list(vals[0]))
        d1 = set(common.parse_nat_list(vals[1]))
        differ += [k * B + j for j in sorted(d0)]
        unexplained += [k * B + j for j in sorted(d0 & d1)]
        notwf += [k * B + j for j in common.parse_nat_list(vals[2])]
    for j in unexplained[:3]:
        d, fp, acc, _s = meta[j]
        ctx.tie_broken("correspondence", "translate:" + fp["name"],
                       ("real converter " + ("accepted" if acc else "refused") + ", Script/Translate.v differs, on\n") + d.source)
    for j in notwf[:3]:
        d, fp, acc, straight = meta[j]
        ctx.tie_broken("proof" if straight else "correspondence", "translate_wf:" + fp["name"],
                       "wf_graphb / no_input_returned is false of the graph Script/Translate.v produces for\n" + d.source)
    n_straight = sum(1 for m in meta if m[3] and m[2])
    ctx.obligation(f"correspondence translate (tie of C02_translate_wf_*): Script/Translate.v = real function_ir on {len(cases)} functions of the valid "
                   f"stream ({n_straight} straight-line and accepted; {len(differ) - len(unexplained)} differences explained by the confirmed defects "
                   "the model repairs)", ok_eval and not unexplained)
    ctx.obligation(f"C02_translate_wf_full observed: wf_graphb && no_input_returned = true of the model's graph for every one of the {len(cases)} functions "
                   "the model accepts (nested if / for / while included)", ok_eval and not notwf)
    ctx.cover(translate_wf_theorem_class=dict(
        theorem="C02_translate_wf_all (every program the converter model accepts; no syntactic class)",
        generated_functions=len(cases), accepted_by_the_real_converter=sum(1 for m in meta if m[2]),
        inside_the_proved_class=sum(1 for j, m in enumerate(meta) if m[2] and j not in set(unexplained)),
        note="a function is inside the class when the real converter accepts it and Script/Translate.v produces the same graph "
             "(names included); refused programs are outside (nothing is emitted)"))
    ctx.cover(model_side_functions=len(cases), model_side_straightline_accepted=n_straight, model_differs_explained_by_known_defects=len(differ) - len(unexplained),
              model_differs_unexplained=len(unexplained), model_graph_not_wf=len(notwf))


def subscript_stream(ctx, wd, rng, n, coll, stats):
    feats = collections.Counter()
    progs = c01_gen.load_subscript_corpus()
    n_corpus = len(progs)
    progs = progs + [c01_gen.gen_subscript_program(rng, i) for i in range(n)]
    for i, prog in enumerate(progs):
        src = c01_gen.to_source(prog)
        mod, exc = c01_run.load(wd, f"c02_s{i}", src)
        ctx.case(("subscript", ("corpus:" + prog["name"]) if i < n_corpus else c01_gen.shape_key(prog)))
        for ft in prog["features"]:
            feats[ft] += 1
        if i == n_corpus:
            ctx.sample({"stream": "subscript", "source": src})
        if exc is not None:
            cls = c01_run.exc_class(exc)
            stats["subscript_refused"] += 1
            if cls not in c01_run.DESCRIPTIVE:
                ctx.violation(f"C02:crash:{cls}@{crash_site(exc)}",
                              f"the decorator crashed with an internal {cls} ({str(exc)[:120]!r}) instead of refusing the program with a located message",
                              {"stream": "subscript", "source": src, "traceback": "".join(traceback.format_exception(exc))[-1500:]})
        else:
            stats["subscript_accepted"] += 1
            observe_accepted(ctx, mod, prog, src, "subscript", None, coll, stats)
    ctx.obligation("subscript stream not degenerate: at least half of its programs are accepted by the decorator",
                   stats["subscript_accepted"] * 2 >= len(progs), f"accepted {stats['subscript_accepted']} of {len(progs)}")
    return feats


def name_resolution_stream(ctx, wd, rng, reps, stats):
    """Every (where, clash) combination on `reps` base programs each."""
    outcome = collections.Counter()
    k = 0
    for rep in range(reps):
        for where in c01_gen.NAME_WHERE:
            for clash in c01_gen.NAME_CLASH:
                base = c01_gen.gen_program(rng, 9000 + k, straight=(k % 3 == 0))
                src, var = c01_gen.name_near_miss(base, where, clash, rng)
                mod, exc = c01_run.load(wd, f"c02_r{k}", src)
                k += 1
                ctx.case(("name-resolution", where, clash))
                if k <= 2:
                    ctx.sample({"stream": "name-resolution", "where": where, "clash": clash, "source": src})
                where_cls = "loop-body-only" if where in ("for-body-only", "while-body-only") else "if-branch-only"
                clash_cls = "module-global" if clash.startswith("module-global") else clash
                replay = {"stream": "name-resolution", "where": where, "clash": clash, "variable": var, "source": src}
                if exc is None:
                    outcome[f"{where} x {clash} -> accepted"] += 1
                    stats["name_near_miss_accepted"] += 1
                    detail = ""
                    try:
                        f = getattr(mod, base["name"])
                        err = c01_run.check_model(f.to_model_proto())
                        detail = "; the emitted model " + ("passes onnx.checker, nothing flags it later" if err is None else "is malformed: " + err[:200])
                    except Exception as e:  # noqa: BLE001
                        detail = f"; to_model_proto() then raises {type(e).__name__}: {str(e)[:120]}"
                    ctx.violation(f"C02:near-miss-accepted:{where_cls}:{clash_cls}",
                                  f"`{var}` is assigned on only one path ({where}) and used afterwards, i.e. unbound on the other path in Python, "
                                  f"yet the decorator accepted the program because the name also denotes a {clash}{detail}", replay)
                else:
                    cls = c01_run.exc_class(exc)
                    outcome[f"{where} x {clash} -> {cls}"] += 1
                    stats["name_near_miss_refused"] += 1
                    if cls not in c01_run.DESCRIPTIVE:
                        ctx.violation(f"C02:crash:{cls}@{crash_site(exc)}",
                                      f"the decorator crashed with an internal {cls} ({str(exc)[:120]!r}) instead of refusing the program with a located message",
                                      dict(replay, traceback="".join(traceback.format_exception(exc))[-1500:]))
    return outcome


def nested_def_probe(ctx, wd, stats):
    """Outside the generator's grammar: a nested function definition with its own return annotation (the construct
    Scan / SequenceMap bodies are written with).  Accepted => the ModelProto passes the checker in strict mode."""
    from harness import c01
    mod, exc = c01_run.load(wd, "c02_nested_def", c01.NESTED_DEF_SRC)
    ctx.case(("valid", "corpus:cf_nested_def"))
    if exc is not None:
        stats["nested_def_refused"] += 1
        if type(exc).__name__ not in c01_run.DESCRIPTIVE:
            ctx.violation(f"C02:crash:{type(exc).__name__}@{crash_site(exc)}", f"decorator crashed on a nested function definition: {exc!r}",
                          {"source": c01.NESTED_DEF_SRC})
        return
    try:
        mp = mod.cf_nested_def.to_model_proto()
    except Exception as e:  # noqa: BLE001
        ctx.violation(f"C02:to_model_proto-raises:{type(e).__name__}@{crash_site(e)}", f"to_model_proto() raised {e!r}", {"source": c01.NESTED_DEF_SRC})
        return
    err = c01_run.check_model(mp)
    if err is not None:
        declared = int(mp.graph.output[0].type.tensor_type.elem_type)
        key = ("C02:check_model:nested-def-return-annotation-overwrites-enclosing-return-types" if declared != 1
               else f"C02:check_model:{classify_checker_error(err)}")
        ctx.violation(key, "the return annotation of a nested function definition replaces the enclosing function's declared return types; "
                           f"onnx.checker.check_model(full_check=True) rejects the ModelProto: {err[:300]}",
                      {"source": c01.NESTED_DEF_SRC, "declared_output_elem_type": declared})


def near2_stream(ctx, wd, rng, n_bases, coll, stats):
    import time as _time
    _t0 = _time.time()
    """Second near-miss stream (harness/c02_near.py): every mutation kind on `n_bases` base programs the decorator accepts.
    Refused => exception class the source raises on purpose (anything else is an internal crash); the reported line is
    compared with the marked line of the mutation (statistics).  Accepted => kinds marked "refuse" are violations (the
    construct has no ONNX reading / Python raises on some path); the protos of every accepted program must be buildable,
    pass onnx.checker and the verified checkers."""
    outcome = collections.Counter()
    pos = collections.Counter()
    bases, tries = [], 0
    while len(bases) < n_bases and tries < 6 * n_bases:
        prog = c01_gen.gen_program(rng, 7000 + tries, straight=(tries % 3 == 0))
        tries += 1
        _m, exc = c01_run.load(wd, f"c02_q{tries}", c01_gen.to_source(prog))
        if exc is None:
            bases.append(prog)
    for bi, prog in enumerate(bases):
        for kind in c02_near.NEAR_MISS_KINDS2:
            src = c02_near.mutate2(prog, kind, rng)
            mod, exc = c01_run.load(wd, f"c02_q{bi}_{kind}".replace("-", "_"), src)
            ctx.case(("near-miss-2", kind))
            if bi == 0 and kind in ("break-with-else-clause", "use-before-def-in-for-first-iteration"):
                ctx.sample({"stream": "near-miss-2", "kind": kind, "source": src})
            replay = {"stream": "near-miss-2", "near_miss": kind, "source": src}
            if exc is not None:
                cls = c01_run.exc_class(exc)
                stats["near2_refused"] += 1
                if cls not in c01_run.DESCRIPTIVE:
                    outcome[f"{kind} -> crash {cls}"] += 1
                    ctx.violation(f"C02:crash:{cls}@{crash_site(exc)}",
                                  f"the decorator crashed with an internal {cls} ({str(exc)[:120]!r}) instead of refusing the program with a located message",
                                  dict(replay, traceback="".join(traceback.format_exception(exc))[-1500:]))
                    continue
                outcome[f"{kind} -> {cls}"] += 1
                has, okpos = c02_near.position_ok(src, prog["name"], exc)
                pos["names-the-marked-line" if okpos else ("names-another-line" if has else "no-position")] += 1
                if not okpos:
                    pos[("other-line: " if has else "no-position: ") + kind] += 1
                continue
            stats["near2_accepted"] += 1
            outcome[f"{kind} -> accepted"] += 1
            f = getattr(mod, prog["name"], None)
            problem, detail = None, ""
            try:
                fp = f.to_function_proto()
            except Exception as e:  # noqa: BLE001
                fp, problem, detail = None, f"to_function_proto-raises:{type(e).__name__}", f"to_function_proto() raised {str(e)[:200]!r}"
            if fp is not None:
                err = c01_run.check_function(fp, extra_imports=[("this", 1)])
                if err is not None:
                    problem, detail = f"check_function:{classify_checker_error(err)}", f"onnx.checker.check_function rejects the FunctionProto: {err[:300]}"
                else:
                    hints = {"wf": "other", "input_returned": "other", "imports": "other"}
                    coll.add(graphlit.function_lit(fp), graphlit.imports_lit(fp.opset_import),
                             dict(replay, function=prog["name"], proto="function", nodes=len(fp.node), hints=hints))
                    # untyped inputs / outputs: the strict checker is required only when they are typed
                    if not (kind in c02_near.SKIP_MODEL_CHECK or any(a[2] is None for a in prog["aparams"])):
                        try:
                            mp = f.to_model_proto()
                            err = c01_run.check_model(mp)
                            if err is not None and not ("Field 'shape' of 'type' is required but missing" in err and "[...]" in src):
                                problem, detail = f"check_model:{classify_checker_error(err)}", f"onnx.checker.check_model(full_check=True) rejects the ModelProto: {err[:300]}"
                        except Exception as e:  # noqa: BLE001
                            problem, detail = f"to_model_proto-raises:{type(e).__name__}", f"to_model_proto() raised {str(e)[:200]!r}"
            if problem is not None or c02_near.EXPECT[kind] == "refuse":
                ctx.violation(f"C02:near-miss-accepted:{kind}" + (":" + problem if problem else ""),
                              f"near miss `{kind}` was accepted by the decorator"
                              + ("; " + detail if problem else " (a construct without ONNX reading, or one Python itself rejects / treats differently)"), replay)
    stats["near2_seconds"] = int(_time.time() - _t0)
    ctx.cover(near2_bases=len(bases), near2_kinds=len(c02_near.NEAR_MISS_KINDS2), near2_outcomes=dict(sorted(outcome.items())),
              near2_reported_position=dict(sorted(pos.items())))
    ctx.obligation("near-miss stream 2 not degenerate: base programs found and most mutations refused",
                   len(bases) == n_bases and stats["near2_refused"] > stats["near2_accepted"],
                   f"bases {len(bases)}, refused {stats['near2_refused']}, accepted {stats['near2_accepted']}")


def refusal_tie(ctx, wd, rng, n_bases, stats):
    """Tie of C02_defective_never_accepted (coq/Script/Refuse.v): on model-expressible near misses (and two valid shapes)
    the detector's class and the source line of the statement at the detector's path are compared, inside Coq, with the
    class and line of the exception the real decorator raised (Refuse.refusal_agrees)."""
    cases, meta = [], []
    tries, nb = 0, 0
    dist = collections.Counter()
    while nb < n_bases and tries < 6 * n_bases:
        prog = c01_gen.gen_program(rng, 8000 + tries, straight=(tries % 3 == 0))
        tries += 1
        _m, exc = c01_run.load(wd, f"c02_t{tries}", c01_gen.to_source(prog))
        if exc is not None:
            continue
        nb += 1
        for kind in c02_near.MODEL_KINDS:
            q = c02_near.mutate_model(prog, kind, rng)
            src = c02_near.to_source2(q)
            _mod, exc2 = c01_run.load(wd, f"c02_t{tries}_{kind}".replace("-", "_"), src)
            ctx.case(("refusal-tie", kind))
            if exc2 is not None and c01_run.exc_class(exc2) not in c01_run.DESCRIPTIVE:
                ctx.violation(f"C02:crash:{c01_run.exc_class(exc2)}@{crash_site(exc2)}",
                              f"the decorator crashed with an internal {c01_run.exc_class(exc2)} instead of refusing the program with a located message",
                              {"stream": "refusal-tie", "near_miss": kind, "source": src})
                continue
            try:
                cases.append(c02_near.rcase_lit(q, src, exc2))
            except TypeError:
                continue
            rc = ("accepted", 0) if exc2 is None else c02_near.real_class(exc2, src, q["name"])
            dist[f"{kind} -> {rc[0] or 'other-class'}"] += 1
            meta.append((kind, src, rc, exc2))
    B = 30
    bodies = []
    for lo in range(0, len(cases), B):
        bodies.append(f"Open Scope string_scope.\nDefinition cases : list rcase := {clist(cases[lo:lo + B])}.\n"
                      "Eval vm_compute in (map refusal_agrees cases).\n")
    from harness import c01
    # other builders share coq/ and may have rebuilt Gen/ScriptTables.vo since the start of a long run: make sure the
    # compiled detector is consistent with the libraries it is loaded with (a no-op when nothing changed)
    ctx.build(["Script/Refuse.vo"])
    res = c01_run.coq_eval_par(ctx, c01.SCRIPT_REQ + ["OV.Script.Translate", "OV.Script.Refuse"], bodies, "c02_refuse")
    verdicts, ok_eval = [], bool(res) or not cases
    for ok, vals, raw in res:
        if not ok or len(vals) != 1:
            ctx.tie_broken("correspondence", "refusal:model-evaluation", raw[-1500:])
            ok_eval = False
            continue
        verdicts += common.parse_nat_list(vals[0])
    what = {1: "the detector finds a defect but the real decorator accepted the program",
            2: "the real decorator refused with a modelled class but the detector finds nothing",
            3: "refusal class differs", 4: "reported source line differs from the line of the statement at the detector's path"}
    bad = [(j, v) for j, v in enumerate(verdicts) if v != 0]
    for j, v in bad[:3]:
        kind, src, rc, exc2 = meta[j]
        if v == 1:
            ctx.violation(f"C02:near-miss-accepted:{kind}:model-refuses",
                          "the converter model provably refuses this program (C02_defective_never_accepted) but the real decorator accepted it",
                          {"stream": "refusal-tie", "near_miss": kind, "source": src})
        else:
            ctx.tie_broken("correspondence", "refusal:" + kind, f"{what[v]}; real = {rc}; {str(exc2)[:300]}\n{src}")
    located = sum(1 for m in meta if m[2][0] not in ("", "accepted"))
    ctx.obligation(f"refusal correspondence (tie of C02_defective_never_accepted): class and source line of the real exception = class and line of the "
                   f"statement at the path computed by Script/Refuse.v, evaluated in Coq on {len(cases)} model-expressible near misses "
                   f"({located} refused with a modelled class, {sum(1 for m in meta if m[2][0] == 'accepted')} accepted)",
                   ok_eval and len(verdicts) == len(cases) and not bad)
    ctx.cover(refusal_tie_cases=len(cases), refusal_tie_outcomes=dict(sorted(dist.items())), refusal_tie_disagreements=len(bad))


def run(ctx):
    ctx.assume("onnx.checker (check_model full_check=True, check_function) is an oracle: its C++ code is outside the model")
    ctx.assume("generated programs are well typed under the ONNX reading (typed grammar); the checker is only run on such programs")
    ctx.trust("harness/graphlit.py: printer from the real protos to OV.Graph.Syntax literals")
    ctx.check_props()
    ctx.build(["Script/Corr.vo", "Script/Refuse.vo"])        # the model-side tie evaluates Script/Corr.v, which depends on the regenerated Gen/Analysis.v
    quick = ctx.tier == "quick"
    n_prog = 220 if quick else 3000
    rng = ctx.rng
    wd = c01_run.Workdir()
    stats = collections.Counter()
    refusal = collections.Counter()
    nm_outcome = collections.Counter()
    feats = collections.Counter()
    coll = Collected()
    model_side = []
    n_model = 90 if quick else 700
    try:
        nested_def_probe(ctx, wd, stats)
        corpus = c01_gen.load_corpus()
        for i in range(-len(corpus), n_prog):
            straight = (i % 10 == 0)
            prog = corpus[i + len(corpus)] if i < 0 else c01_gen.gen_program(rng, i, straight=straight)
            src = c01_gen.to_source(prog)
            with c01_run.ConverterTrace() as tr:
                mod, exc = c01_run.load(wd, f"c02_m{i}".replace("-", "c"), src)
            if len(model_side) < n_model:
                model_side.append((i, prog, src, mod, exc, tr.events))
            key = c01_gen.shape_key(prog)
            ctx.case(("valid", key))
            for ft in prog["features"]:
                feats[ft] += 1
            if 0 <= i < 2:
                ctx.sample({"stream": "valid", "source": src})
            if exc is not None:
                cls = c01_run.exc_class(exc)
                stats["valid_refused"] += 1
                refusal[cls + ": " + str(exc).replace("ERROR: ", "").split("\n")[0][:70]] += 1
                if cls not in c01_run.DESCRIPTIVE:
                    ctx.violation(f"C02:crash:{cls}@{crash_site(exc)}",
                                  f"the decorator crashed with an internal {cls} ({str(exc)[:120]!r}) instead of refusing the program with a located message",
                                  {"stream": "valid", "source": src, "traceback": "".join(traceback.format_exception(exc))[-1500:]})
            else:
                stats["valid_accepted"] += 1
                observe_accepted(ctx, mod, prog, src, "valid", None, coll, stats)
            # ---- near miss: one grammar-violating mutation of the same program
            kind = c01_gen.NEAR_MISS_KINDS[(i + len(corpus) + rng.randrange(3)) % len(c01_gen.NEAR_MISS_KINDS)]
            nsrc = c01_gen.mutate(prog, kind, rng)
            mod2, exc2 = c01_run.load(wd, f"c02_n{i}".replace("-", "c"), nsrc)
            ctx.case(("near-miss", kind, key.split("/")[0][:12]))
            if 0 <= i < 2:
                ctx.sample({"stream": "near-miss", "kind": kind, "source": nsrc})
            if exc2 is None:
                nm_outcome[kind + " -> accepted"] += 1
                stats["near_miss_accepted"] += 1
                observe_accepted(ctx, mod2, prog, nsrc, "near-miss", kind, coll, stats)
            else:
                cls = c01_run.exc_class(exc2)
                nm_outcome[kind + " -> " + cls] += 1
                stats["near_miss_refused"] += 1
                stats["near_miss_refusal_with_position"] += 1 if c01_run.has_position(exc2) else 0
                if cls not in c01_run.DESCRIPTIVE:
                    ctx.violation(f"C02:crash:{cls}@{crash_site(exc2)}",
                                  f"the decorator crashed with an internal {cls} ({str(exc2)[:120]!r}) instead of refusing the program with a located message",
                                  {"stream": "near-miss", "near_miss": kind, "source": nsrc,
                                   "traceback": "".join(traceback.format_exception(exc2))[-1500:]})
        # ---- subscript stream + name-resolution near misses (own generator: the streams above are unchanged)
        import random as _random
        sub_rng = _random.Random(rng.getrandbits(64))
        sub_feats = subscript_stream(ctx, wd, sub_rng, 60 if quick else 900, coll, stats)
        name_outcome = name_resolution_stream(ctx, wd, sub_rng, 2 if quick else 12, stats)
        near_rng = _random.Random(sub_rng.getrandbits(64))      # own generator: the streams above are unchanged
        near2_stream(ctx, wd, near_rng, 2 if quick else 10, coll, stats)
        refusal_tie(ctx, wd, near_rng, 3 if quick else 20, stats)
        from harness import c02_names
        names_rng = _random.Random(near_rng.getrandbits(64))    # own generator: the streams above are unchanged
        c02_names.stream(ctx, wd, names_rng, 30 if quick else 200, 3, coll, model_side, stats, observe_accepted, crash_site)
        from harness import c02_domains
        dom_rng = _random.Random(names_rng.getrandbits(64))     # own generator: the streams above are unchanged
        c02_domains.mixed_opset_stream(ctx, wd, dom_rng, coll, stats)
        c02_domains.domain_chain_stream(ctx, wd, dom_rng, 20 if quick else 150, coll, stats)
        bad = eval_checkers(ctx, coll, stats)
        model_side_tie(ctx, model_side, stats)
    finally:
        wd.close()
    accepted = stats["valid_accepted"]
    ctx.obligation("generator not degenerate: at least half of the valid stream is accepted by the decorator", accepted * 2 >= n_prog,
                   f"accepted {accepted} of {n_prog}")
    ctx.cover(subscript_rule="c01_gen.gen_subscript_program: the same grammar with tensor subscripts as expressions at every nesting position "
                             "(integer indices, slices with literal / omitted / run-time INT64 bounds incl. 0 and negative steps, multi-axis, "
                             "the same constants in sibling scopes) + the named shapes of corpus/C01/subscript.json",
              name_resolution_rule="every combination of where the only assignment is (then / else / if without else / nested if / for body / "
                                   "while body) x what else the name denotes (nothing, module float / int / array, closure variable, module-level "
                                   "script function, converter-generated name) inserted into a generated program; must be refused")
    ctx.cover(rule="typed random programs of the ONNX Script subset (<=3 tensor params, <=2 attribute params, if/for/while nested to depth 2, "
                   "trailing break, one/both-branch definitions, loop-carried and captured variables, sub-function calls, Split/TopK, literals "
                   "in every operand position, names colliding with converter-generated names) + one grammar-violating mutation each; "
                   "distinct key = control-flow skeleton of the program (valid) / mutation kind x skeleton prefix (near miss)",
              programs=n_prog, **{k: v for k, v in stats.items()},
              protos_checked_in_coq=len(coll.items),
              verified_checker_false=dict(bad),
              valid_refusals=dict(refusal.most_common(12)),
              near_miss_outcomes=dict(sorted(nm_outcome.items())),
              feature_counts=dict(sorted(feats.items())),
              subscript_stream_feature_counts=dict(sorted(sub_feats.items())),
              name_resolution_near_miss_outcomes=dict(sorted(name_outcome.items())))
    ctx.assume("subscript stream: Script/Syntax.v has no subscript expression, so C02_translate_wf_* say nothing about programs containing "
               "subscripts; for those well-formedness is established per generated program only (verified checkers evaluated in Coq on "
               "the real protos + onnx.checker)")
    if ctx.tier == "thorough":
        ctx.coqchk(["Props.C02"])
