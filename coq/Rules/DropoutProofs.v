From Coq Require Import List Bool ZArith.
Require Import OV.Rules.Dropout OV.Rules.Cast.
Import ListNotations.

Section DropoutLaws.
  Variable F : Type.
  Variable zero one : F.
  Variable mul : F -> F -> F.
  Variable scale_of : F -> F.
  Hypothesis mul_one_l : forall v, mul one v = v.
  Hypothesis scale_zero : scale_of zero = one.          (* 1 / (1 - 0) = 1 *)

  (* dropout_inference_rule: training_mode = 0 => identity, for every ratio and mask *)
  Theorem dropout_inference_sound : forall ratio mask x, dropout F zero mul scale_of false ratio mask x = x.
  Proof. reflexivity. Qed.

  (* dropout_zero_rule: ratio = 0 => identity also in training mode (the Bernoulli(1) mask keeps every element) *)
  Theorem dropout_zero_sound : forall training mask x,
    length mask = length x -> (forall m, In m mask -> m = true) ->
    dropout F zero mul scale_of training zero mask x = x.
  Proof.
    intros [|] mask x Hl Hm; [|reflexivity]. unfold dropout. rewrite scale_zero.
    revert x Hl. induction mask as [|m mask IH]; intros [|v x] Hl; cbn in *; try discriminate; [reflexivity|].
    rewrite (Hm m (or_introl eq_refl)), mul_one_l. f_equal. apply IH; [intros; apply Hm; right; assumption|congruence].
  Qed.
End DropoutLaws.

(* a ratio that is only close to 0 in training mode is not the identity (the attribute is compared exactly) *)
Theorem dropout_small_ratio_refuted : exists (scale_of : Z -> Z) mask x,
  dropout Z 0%Z Z.mul scale_of true 1%Z mask x <> x.
Proof. exists (fun _ => 2%Z), [true], [3%Z]. vm_compute. discriminate. Qed.

Section CastLaws.
  Variable V : Type.
  Variable cast : Z -> Z -> V -> V.
  Hypothesis cast_same : forall d v, cast d d v = v.     (* operator document: a Cast to the type the tensor has *)
  (* CastIdentity (no_op_cast_rule): x.dtype known and equal to `to` => Cast = Identity; an unknown dtype never fires *)
  Theorem cast_identity_sound : forall xd to v, ci_check (Some xd) to = true -> cast_node V cast xd to v = v.
  Proof. intros xd to v H. unfold ci_check in H. apply Z.eqb_eq in H. subst. apply cast_same. Qed.
  Theorem cast_identity_unknown_dtype : forall to, ci_check None to = false.
  Proof. reflexivity. Qed.
End CastLaws.

Example dropout_example :
  dropout Z 0%Z Z.mul (fun r => if Z.eqb r 0 then 1 else 2)%Z true 0%Z [true; true] [3; 4]%Z = [3; 4]%Z /\
  dropout_zero_matches (Some true) = true /\ dropout_zero_matches None = false /\
  dropout_inference_matches (Some 0%Z) = true /\ dropout_inference_matches (Some 1%Z) = false.
Proof. repeat split; reflexivity. Qed.
