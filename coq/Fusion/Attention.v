(* C19 model: ort_fusions/attention.py (AttentionFusion, the four rules has_past x no_slice).
     pattern:  q = MatMul(input, Wq), k = MatMul(input, Wk), v = MatMul(input, Wv)          [no_slice]
               (or one MatMul(input, qkv_weight) sliced on the last axis at the hidden sizes -- C19_attention_packed_projection)
               com.microsoft.MultiHeadAttention(q, k, v, qkv_bias, None, attention_bias, [past_key, past_value]; num_heads)
               with past: past_key / past_value = past[0] / past[1] (Slice + Squeeze), present = Concat(Unsqueeze(pk), Unsqueeze(pv), axis 0)
     rewrite:  com.microsoft.Attention(input, Concat(Wq, Wk, Wv, axis=1) | qkv_weight, qkv_bias, None, past, attention_bias;
                                       num_heads, qkv_hidden_sizes = [Dq, Dk, Dv], scale)
   Operator documents: MultiHeadAttention adds bias[0:Dq], bias[Dq:Dq+Dk], bias[Dq+Dk:] to query, key, value and then attends
   with num_heads heads; Attention projects the input with the packed weight, adds the packed bias, splits the result at
   qkv_hidden_sizes and attends in the same way; `past` is [2, B, N, P, Dh] and `present` is key and value stacked on axis 0.
   Everything after the projections -- head splitting, scale, softmax, mask, both MatMuls, for every B, S, num_heads -- is ONE
   arbitrary function [core] of the three projected row lists (its own theorems: C19_mha_split_merge ...).
   [dot] (row x column) and [add] are arbitrary operations; rows = the B*S token rows of `input`, weights by columns.
   No proofs in this file. *)
From Coq Require Import List Arith.
Require Import OV.Fusion.Field.
Import ListNotations.

Section Att.
  Variable A : Type.
  Variable dot : list A -> list A -> A.
  Variable add : A -> A -> A.
  Variable Out : Type.

  (* MatMul(input, W) + b, row by row *)
  Definition project (rows : list (list A)) (W : list (list A)) (b : list A) : list (list A) :=
    map (fun row => map2 add (map (dot row) W) b) rows.

  (* MultiHeadAttention on already projected q, k, v with the packed bias operand *)
  Variable core : list (list A) -> list (list A) -> list (list A) -> Out.
  Definition mha_with_bias (q k v : list (list A)) (dq dk : nat) (bias : list A) : Out :=
    let addb := fun (b : list A) (m : list (list A)) => map (fun r => map2 add r b) m in
    core (addb (firstn dq bias) q) (addb (firstn dk (skipn dq bias)) k) (addb (skipn (dq + dk) bias) v).
  Definition matmul (rows : list (list A)) (W : list (list A)) : list (list A) := map (fun row => map (dot row) W) rows.
  Definition att_pattern (rows : list (list A)) (Wq Wk Wv : list (list A)) (bias : list A) : Out :=
    mha_with_bias (matmul rows Wq) (matmul rows Wk) (matmul rows Wv) (length Wq) (length Wk) bias.
  (* com.microsoft.Attention with qkv_hidden_sizes = [dq, dk, dv] *)
  Definition att_fused (rows : list (list A)) (W : list (list A)) (bias : list A) (dq dk dv : nat) : Out :=
    let P := project rows W bias in
    core (map (firstn dq) P) (map (fun r => firstn dk (skipn dq r)) P) (map (fun r => firstn dv (skipn (dq + dk) r)) P).

  (* the packed variant of the pattern (no_slice = False): projected = MatMul(input, qkv_weight) sliced on the last axis at
     [0, e1), [e1, e2), [e2, e3 >= hidden); the bias slices are added by MultiHeadAttention *)
  Definition att_pattern_slice (rows : list (list A)) (W : list (list A)) (bias : list A) (dq dk : nat) : Out :=
    let P := matmul rows W in
    mha_with_bias (map (firstn dq) P) (map (fun r => firstn dk (skipn dq r)) P) (map (skipn (dq + dk)) P) dq dk bias.

  (* with past / present: flat tensors; past = past_key ++ past_value (leading axis of extent 2) *)
  Variable core_past : list (list A) -> list (list A) -> list (list A) -> list A -> list A -> Out * list A * list A.
  Definition half (past : list A) : nat := length past / 2.
  Definition att_pattern_past (rows : list (list A)) (Wq Wk Wv : list (list A)) (bias past : list A) : list A * Out :=
    let addb := fun (b : list A) (m : list (list A)) => map (fun r => map2 add r b) m in
    let dq := length Wq in let dk := length Wk in
    let '(o, pk, pv) := core_past (addb (firstn dq bias) (matmul rows Wq)) (addb (firstn dk (skipn dq bias)) (matmul rows Wk))
                                  (addb (skipn (dq + dk) bias) (matmul rows Wv))
                                  (firstn (half past) past) (skipn (half past) past) in
    (pk ++ pv, o).                       (* the rule returns (present, attention) *)
  Definition att_fused_past (rows : list (list A)) (W : list (list A)) (bias past : list A) (dq dk dv : nat) : list A * Out :=
    let P := project rows W bias in
    let '(o, pk, pv) := core_past (map (firstn dq) P) (map (fun r => firstn dk (skipn dq r)) P) (map (fun r => firstn dv (skipn (dq + dk) r)) P)
                                  (firstn (half past) past) (skipn (half past) past) in
    (pk ++ pv, o).
End Att.
