(* C17 -- the finite, regenerated statement: every generated class (Gen/OpsetMethods.v, re-extracted from
   onnxscript/onnx_opset/_impl/*.py on every check) passes the computable test against every ONNX schema
   (Gen/OpsetSchemas.v, re-extracted from onnx.defs).  Proved by evaluation; an edited default, version,
   parameter or forwarded name makes this file fail to compile. *)
From Coq Require Import List String ZArith Bool.
Import ListNotations.
Require Import OV.Registry.OpsetMethod OV.Registry.OpsetMethodProofs.
Require OV.Gen.OpsetMethods OV.Gen.OpsetSchemas.

Definition gen_schemas := OV.Gen.OpsetSchemas.schemas.
Definition gen_classes := OV.Gen.OpsetMethods.classes.

Lemma gen_registry_ok : registry_ok gen_schemas gen_classes = true.
Proof. vm_compute. reflexivity. Qed.

Lemma gen_sound : forall c, In c gen_classes ->
  forall op s, dyn_getitem gen_schemas c op = Some s -> s_deprecated s = false ->
    (covered c = true -> exists m, static_lookup gen_classes c op = Some m) /\
    forall m, static_lookup gen_classes c op = Some m ->
      static_schema gen_schemas m = Some s /\ mirrors m s /\
      forall V (a : args V) pe ke, bind m a = Some (pe, ke) ->
        exists n, call_method gen_schemas m a = Some n /\ n_inputs n = strip (a_pos a) /\ node_equiv s n (bare_node s a).
Proof. exact (registry_sound _ _ gen_registry_ok). Qed.

Lemma gen_coverage : forall c, In c gen_classes -> covered c = true ->
  forall op s, dyn_getitem gen_schemas c op = Some s -> s_deprecated s = false ->
    exists m, static_lookup gen_classes c op = Some m.
Proof. intros c I C op s R D. destruct (gen_sound c I op s R D) as [H _]. auto. Qed.

Lemma gen_dynamic : forall c, In c gen_classes -> forall op,
    (dyn_contains gen_schemas c op = true <-> exists s, dyn_getitem gen_schemas c op = Some s) /\
    (forall s, dyn_getitem gen_schemas c op = Some s -> s_deprecated s = false -> getattr_schema gen_schemas gen_classes c op = Some s) /\
    (dyn_getitem gen_schemas c op = None -> getattr_schema gen_schemas gen_classes c op = None /\ static_lookup gen_classes c op = None).
Proof. exact (dynamic_lookup_agrees _ _ gen_registry_ok). Qed.

(* the generated data is not degenerate: the hypotheses of gen_sound are met by opset13.Softmax *)
Example gen_nonempty :
  match find_class gen_classes "Opset13" with
  | Some c => match static_lookup gen_classes c "Softmax", dyn_getitem gen_schemas c "Softmax" with
              | Some m, Some s => negb (s_deprecated s) && Z.eqb (s_since s) 13 && covered c
              | _, _ => false
              end
  | None => false
  end = true.
Proof. vm_compute. reflexivity. Qed.
