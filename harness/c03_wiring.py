"""Translator (Python ast, fail-closed) of how the options of the public optimizer entry points reach FoldConstantsPass /
PassManager: optimize -> optimize_ir (two call sites), optimize_ir -> FoldConstantsPass / PassManager / `if inline`,
_constant_folding.fold_constants -> FoldConstantsPass, optimizer.fold_constants -> _constant_folding.fold_constants.
Writes coq/Gen/OptWiring.v: for every (function, parameter) the list of (callee, keyword) it is handed to; Opt/WiringShape.v
proves that every option reaches its callee under the expected name at every call site and that nothing else is passed."""
from __future__ import annotations

import ast
import os

from harness import common
from harness.common import clist, cstr

FILES = {"optimize": ("onnxscript/optimizer/__init__.py", "optimize"),
         "optimize_ir": ("onnxscript/optimizer/_optimizer.py", "optimize_ir"),
         "fold_constants": ("onnxscript/optimizer/_constant_folding.py", "fold_constants")}
CALLEES = {"optimize": {"optimize_ir"}, "optimize_ir": {"FoldConstantsPass", "PassManager"},
           "fold_constants": {"FoldConstantsPass"}}


class Unrecognised(Exception):
    pass


def _callee_name(call):
    f = call.func
    return f.attr if isinstance(f, ast.Attribute) else (f.id if isinstance(f, ast.Name) else None)


def _check_forwarder(repo):
    """optimizer.fold_constants(model, *args, **kwargs) hands *args, **kwargs on unchanged at every call site"""
    tree = ast.parse(open(os.path.join(repo, "onnxscript/optimizer/__init__.py")).read())
    fn = next((n for n in tree.body if isinstance(n, ast.FunctionDef) and n.name == "fold_constants"), None)
    if fn is None:
        raise Unrecognised("optimizer.fold_constants not found")
    if not (fn.args.vararg and fn.args.vararg.arg == "args" and fn.args.kwarg and fn.args.kwarg.arg == "kwargs" and len(fn.args.args) == 1 and not fn.args.kwonlyargs):
        raise Unrecognised("optimizer.fold_constants: signature is not (model, *args, **kwargs)")
    calls = [c for c in ast.walk(fn) if isinstance(c, ast.Call) and _callee_name(c) == "fold_constants"]
    if not calls or any(ast.unparse(c) != "constant_folding.fold_constants(model, *args, **kwargs)" for c in calls):
        raise Unrecognised("optimizer.fold_constants does not forward (model, *args, **kwargs) unchanged")
    return len(calls)


def parse(repo):
    _check_forwarder(repo)
    table = []          # (function, parameter, has_default_src, [(callee, keyword, site index)])
    sites = {}
    for fn_key, (path, name) in FILES.items():
        tree = ast.parse(open(os.path.join(repo, path)).read())
        fn = next((n for n in tree.body if isinstance(n, ast.FunctionDef) and n.name == name), None)
        if fn is None:
            raise Unrecognised(f"{name} not found in {path}")
        if fn.args.vararg or fn.args.kwarg:
            raise Unrecognised(f"{name}: *args / **kwargs in the signature")
        # a pass hoisted into a single-use local right before its use reads as the expression in place (harness/c01_pynorm.py
        # inline_single_use): the call sites keep their nesting and therefore their indices
        from harness import c01_pynorm as PN
        fn = PN.inline_single_use(fn)
        params = [a.arg for a in fn.args.args + fn.args.kwonlyargs][1:]           # without `model`
        pos_defaults = dict(zip([a.arg for a in fn.args.args][::-1], [ast.unparse(d) for d in fn.args.defaults][::-1]))
        kw_defaults = {a.arg: (ast.unparse(d) if d is not None else None) for a, d in zip(fn.args.kwonlyargs, fn.args.kw_defaults)}
        defaults = {**pos_defaults, **kw_defaults}
        calls = [c for c in ast.walk(fn) if isinstance(c, ast.Call) and _callee_name(c) in CALLEES[fn_key]]
        if not calls:
            raise Unrecognised(f"{name}: no call of {sorted(CALLEES[fn_key])}")
        uses = {p: [] for p in params}
        for k, c in enumerate(calls):
            cal = _callee_name(c)
            if any(kw.arg is None for kw in c.keywords) or any(isinstance(a, ast.Starred) for a in c.args):
                raise Unrecognised(f"{name}: starred arguments in a call of {cal}")
            for kw in c.keywords:
                names = {n.id for n in ast.walk(kw.value) if isinstance(n, ast.Name)} & set(params)
                if names and not (isinstance(kw.value, ast.Name)):
                    raise Unrecognised(f"{name}: option {sorted(names)} is transformed before it reaches {cal}.{kw.arg}: {ast.unparse(kw.value)[:60]}")
                if isinstance(kw.value, ast.Name) and kw.value.id in uses:
                    uses[kw.value.id].append((cal, kw.arg, k))
            for a in c.args[1:] if cal in ("optimize_ir", "fold_constants") else []:
                if isinstance(a, ast.Name) and a.id in uses:
                    raise Unrecognised(f"{name}: option {a.id} passed positionally to {cal}")
        # `if inline:` counts as the use of `inline` in optimize_ir
        for node in ast.walk(fn):
            if isinstance(node, ast.If) and isinstance(node.test, ast.Name) and node.test.id in uses:
                uses[node.test.id].append(("if", node.test.id, 0))
        sites[fn_key] = [(_callee_name(c), k) for k, c in enumerate(calls)]
        for p in params:
            table.append((fn_key, p, defaults.get(p), uses[p]))
    return table, sites


def regenerate(ctx):
    try:
        table, sites = parse(common.REPO)
    except Unrecognised as e:
        ctx.tie_broken("translator", "optimizer option wiring", str(e))
        return None
    except Exception as e:
        ctx.tie_broken("translator", "optimizer option wiring", f"{type(e).__name__}: {e}")
        return None
    rows = [f"({cstr(f)}, {cstr(p)}, {cstr(d if d is not None else '<required>')}, "
            f"{clist([f'({cstr(c)}, {cstr(k)}, {s}%nat)' for c, k, s in uses])})" for f, p, d, uses in table]
    site_rows = [f"({cstr(f)}, {clist([f'({cstr(c)}, {k}%nat)' for c, k in cs])})" for f, cs in sites.items()]
    text = ("(* GENERATED by harness/c03_wiring.py - do not edit *)\nFrom Coq Require Import List String.\nImport ListNotations.\nLocal Open Scope string_scope.\n\n"
            "(* (function, option, default as written, [(callee, keyword, call site)]) *)\n"
            f"Definition wiring : list (string * string * string * list (string * string * nat)) := {clist(rows)}.\n"
            "(* (function, [(callee, call site)]) *)\n"
            f"Definition call_sites : list (string * list (string * nat)) := {clist(site_rows)}.\n")
    ctx.gen("OptWiring", text)
    return {"options": len(table), "sites": {f: len(c) for f, c in sites.items()}}
