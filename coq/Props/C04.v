(* C04 -- optimize() is total on valid models; the result is valid and keeps the interface.  Statements only.

   Full statement (visible, not proved as a whole): for every checker-valid executable model M and option tuple,
   optimize / rewrite / fold_constants return without raising; the result passes the checker (unique names, topological
   order in every graph, every reference visible in scope, every domain imported, nothing referenced removed); the
   declared graph inputs / outputs keep names, order and types; initializers that are also graph inputs are never
   folded.  Totality and validity of the real code are OBSERVED by the harness (exceptions; onnx.checker; the verified
   checkers wf_graphb / imports_ok of Graph/Wf.v evaluated in Coq on the real outputs).  Proved about the model of the
   FoldConstants pass (Opt/Fold.v):
     * C04_output_replacement_preserves_signature / C04_fold_model_preserves_signature: inputs and outputs of the graph
       (names, order) are untouched, also when graph outputs are replaced by their symbolic value;
     * C04_graph_input_consumer_never_folded: the generic folding path keeps every node that consumes a graph input;
     * C04_guarded_value_invisible / C04_guarded_if_not_inlined: with the graph-input guard in _get_numpy_value no partial
       evaluator can read the default of an initializer-input; C04_initializer_inputs_never_folded: then the soundness
       theorem of the pass holds for EVERY binding of the graph inputs, i.e. for every override value;
     * C04_unguarded_initializer_input_folded_refuted: without that guard the faithful model inlines an If on the
       default of an overridable condition (the harness reports which of the two the current source is, and replays
       the witness on the real code);
     * C04_clear_keeps_graph_input_defaults / C04_clear_without_guard_drops_default: the same for
       _clear_unused_initializers.
     * C04_dce_preserves_signature / C04_cse_preserves_signature / C04_dce_keeps_input_initializers: the models of onnx_ir's
       dead-node removal and common-subexpression elimination keep the graph's inputs and outputs; an initializer that is
       a graph input (overridable default) or a graph output is never dropped as unused.
   Not proved: wf_graphb of the result from wf_graphb of the input (evaluated instead on every real output). *)
From Coq Require Import List String ZArith Bool.
Require Import OV.Graph.Syntax OV.Graph.Sem OV.Graph.Names OV.Gen.FoldTables.
Require Import OV.Opt.Fold OV.Opt.SemLemmas OV.Opt.FoldProofs OV.Opt.FoldTheorems OV.Opt.Validity.
Require Import OV.Opt.Dce OV.Opt.DceProofs OV.Opt.Cse OV.Opt.CseProofs.
Import ListNotations.
Local Open Scope list_scope.
Local Open Scope string_scope.

Theorem C04_output_replacement_preserves_signature :
  forall V ref_eval const_val attr_of_val v_dtype v_dims v_ints v_tensor pe strict cfg depth fuel bound st g st' g' news tr,
    fold_graph V ref_eval const_val attr_of_val v_dtype v_dims v_ints v_tensor pe strict cfg depth fuel bound st g = OK (st', g', news, tr) ->
    g_ins g' = g_ins g /\ g_outs g' = g_outs g.
Proof. exact output_replacement_preserves_signature. Qed.
Print Assumptions C04_output_replacement_preserves_signature.

Theorem C04_fold_model_preserves_signature :
  forall V ref_eval const_val attr_of_val v_dtype v_dims v_ints v_zero v_tensor fresh strict depth fuel cfg bound st g funs st' g' funs' tr gsem,
    fold_model V ref_eval const_val attr_of_val v_dtype v_dims v_ints v_zero v_tensor fresh strict depth fuel cfg bound st g funs
      = OK (st', g', funs', tr, gsem) ->
    g_ins g' = g_ins g /\ g_outs g' = g_outs g.
Proof. exact fold_model_preserves_signature. Qed.
Print Assumptions C04_fold_model_preserves_signature.

Theorem C04_graph_input_consumer_never_folded : forall V ref_eval v_dims v_tensor cfg isf st n x,
  In x (present (n_ins n)) -> In x (c_graph_inputs cfg) ->
  exists r, generic_fold V ref_eval v_dims v_tensor cfg isf st n = DKeep V r st.
Proof. exact graph_input_consumer_never_folded. Qed.
Print Assumptions C04_graph_input_consumer_never_folded.

Theorem C04_guarded_value_invisible : forall V v_dtype v_dims v_ints st x dt lim, mem x (s_guard V st) = true ->
  numpy_value V v_dtype v_dims st (Some x) dt lim = None /\ bool_value V v_dtype v_dims v_ints st (Some x) = None /\
  ((forall ds, assoc x (s_sym V st) <> Some (SShape ds)) -> shape_value V v_dtype v_dims v_ints st (Some x) = None).
Proof. exact guarded_value_invisible. Qed.
Print Assumptions C04_guarded_value_invisible.

Theorem C04_guarded_if_not_inlined : forall V v_dtype v_dims v_ints st n x, in_at n 0 = Some x -> mem x (s_guard V st) = true ->
  pe_if V v_dtype v_dims v_ints st n = PNone V st.
Proof. exact guarded_if_not_inlined. Qed.
Print Assumptions C04_guarded_if_not_inlined.

(* the invariant the soundness theorem starts from holds for every binding of the graph inputs: with
   C03_fold_pass_sound_partial, evaluation of the folded graph agrees with the original for all override values *)
Theorem C04_initializer_inputs_never_folded : forall V (st : state V) gi outer,
  s_sym V st = [] ->
  (forall x c, assoc x (s_const V st) = Some c -> mem x (s_guard V st) = false ->
               ~ In x gi /\ forall v, lookup outer x = Some v -> v = c) ->
  forall args e0, bind gi args outer = Some e0 -> inv V st e0.
Proof. exact inv_initial_all_inputs. Qed.
Print Assumptions C04_initializer_inputs_never_folded.

Theorem C04_unguarded_initializer_input_folded_refuted :
  In "c" (c_graph_inputs w_cfg) /\
  match decide Z z_ref (fun _ => DT_BOOL) (fun _ => []) (fun z => Some [z]) (fun _ => true) (pe_none Z) w_cfg false w_state w_node with
  | DInline _ _ [Node "" "Neg" [Some "x"] ["y"] [] []] _ => True
  | _ => False
  end.
Proof. exact unguarded_initializer_input_folded_refuted. Qed.
Print Assumptions C04_unguarded_initializer_input_folded_refuted.

Theorem C04_clear_keeps_graph_input_defaults : clear_keeps_graph_inputs = true ->
  forall V cfg (st : state V) candidates i, In i (s_inits V st) -> In i (c_graph_inputs cfg) ->
    In i (s_inits V (clear_unused_initializers V cfg st candidates)).
Proof. exact (fun K V => clear_keeps_graph_input_defaults V K). Qed.
Print Assumptions C04_clear_keeps_graph_input_defaults.

Theorem C04_clear_without_guard_drops_default : clear_keeps_graph_inputs = false ->
  forall V, exists cfg (st : state V) candidates i, In i (s_inits V st) /\ In i (c_graph_inputs cfg) /\
    ~ In i (s_inits V (clear_unused_initializers V cfg st candidates)).
Proof. exact (fun K V => clear_without_guard_drops_default V K). Qed.
Print Assumptions C04_clear_without_guard_drops_default.

Theorem C04_dce_preserves_signature : forall g, g_ins (dce g) = g_ins g /\ g_outs (dce g) = g_outs g.
Proof. exact dce_signature. Qed.
Print Assumptions C04_dce_preserves_signature.

Theorem C04_dce_keeps_input_initializers : forall g x, In x (g_inits g) -> In x (g_ins g) \/ In x (g_outs g) -> In x (g_inits (dce g)).
Proof. exact dce_keeps_input_initializers. Qed.
Print Assumptions C04_dce_keeps_input_initializers.

Theorem C04_cse_preserves_signature : forall g, g_ins (cse g) = g_ins g /\ g_outs (cse g) = g_outs g.
Proof. exact cse_signature. Qed.
Print Assumptions C04_cse_preserves_signature.
