(* C05, family _remove_optional_bias.py: property theorems (statements only, closed by `exact`). *)
From Coq Require Import ZArith QArith List Ring.
Require Import OV.Rules.OptionalBias OV.Rules.OptionalBiasProofs.
Import ListNotations.
Open Scope Z_scope.

Theorem C05_optbias_conv_zero_bias :
  forall (F : Type) (zero one : F) (add mul sub : F -> F -> F) (opp : F -> F),
  ring_theory zero one add mul sub opp (@eq F) ->
  forall ws xs, conv_b F zero add mul ws xs zero = conv_nob F zero add mul ws xs.
Proof. exact conv_zero_bias. Qed.
Print Assumptions C05_optbias_conv_zero_bias.

Theorem C05_optbias_gemm_zero_c :
  forall (F : Type) (zero one : F) (add mul sub : F -> F -> F) (opp : F -> F),
  ring_theory zero one add mul sub opp (@eq F) ->
  forall alpha beta ws xs, gemm_c F zero add mul alpha beta ws xs zero = gemm_noc F zero add mul alpha ws xs.
Proof. exact gemm_zero_c. Qed.
Print Assumptions C05_optbias_gemm_zero_c.

Theorem C05_optbias_qlinearconv_zero_bias :
  forall (F : Type) (zero one : F) (add mul sub : F -> F -> F) (opp : F -> F),
  ring_theory zero one add mul sub opp (@eq F) ->
  forall requant ws xs, qconv_b F zero add mul requant ws xs zero = qconv_nob F zero add mul requant ws xs.
Proof. exact qconv_zero_bias. Qed.
Print Assumptions C05_optbias_qlinearconv_zero_bias.

Theorem C05_optbias_nonzero_refuted : exists ws xs b, conv_b Z 0 Z.add Z.mul ws xs b <> conv_nob Z 0 Z.add Z.mul ws xs.
Proof. exact conv_nonzero_bias_refuted. Qed.
Print Assumptions C05_optbias_nonzero_refuted.

Theorem C05_optbias_all_zero : forall l i, all_zero l = true -> (nth i l 0%Q == 0)%Q.
Proof. exact all_zero_nth. Qed.
Print Assumptions C05_optbias_all_zero.

Theorem C05_optbias_inputs_without_bias : forall (A : Type) (ins : list A) (b : A), removelast (ins ++ [b]) = ins.
Proof. exact inputs_without_bias. Qed.
Print Assumptions C05_optbias_inputs_without_bias.

Theorem C05_optbias_fixed_valid : forall p n, ob_rule true p = Some n ->
  schema_valid (ob_op p) (ob_opset p) n = true /\ ob_bias_graph_input p = false /\
  exists l, ob_bias p = Some l /\ all_zero l = true.
Proof. exact ob_fixed_valid. Qed.
Print Assumptions C05_optbias_fixed_valid.

Theorem C05_optbias_gemm_old_opset_refuted : exists p n,
  ob_rule false p = Some n /\ schema_valid (ob_op p) (ob_opset p) n = false.
Proof. exact ob_impl_gemm_old_opset_refuted. Qed.
Print Assumptions C05_optbias_gemm_old_opset_refuted.

Theorem C05_optbias_valid_from_opset_11 : forall p n, 11 <= ob_opset p -> ob_rule false p = Some n ->
  schema_valid (ob_op p) (ob_opset p) n = true.
Proof. exact ob_impl_valid_from_opset_11. Qed.
Print Assumptions C05_optbias_valid_from_opset_11.
