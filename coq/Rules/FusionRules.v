(* C05 side of the rules exported by onnxscript/rewriter/rules/fusion (_layer_norm, _rms_normalization, _rotary_embedding,
   _gqa).  The algebra lives in coq/Fusion (C19, imported read-only); this file states, per rule, the *side conditions
   under which the rule may fire* as an executable predicate over everything the pattern, `check` and `rewrite` read from
   the host -- including the conditions the property names: unknown type/shape, non-constant operand, a value that is only
   approximately the required one, an attribute left at a non-trivial default -- and the host semantics they guard.
   The correspondence is one-directional (C05): wherever the real rule fires, the predicate must hold.
   No proofs in this file. *)
From Coq Require Import List ZArith Bool Arith.
Require Import OV.Fusion.Field OV.Fusion.Norm OV.Fusion.Rotary OV.Fusion.Attn.
Import ListNotations.

(* a constant exponent of Pow as a fraction; the pattern needs exactly 2 *)
Inductive sq_form := SqMulF | SqPowF (num den : Z).
Definition sq_exact (s : sq_form) : bool :=
  match s with SqMulF => true | SqPowF n d => (0 <? d)%Z && (n =? 2 * d)%Z end.
Definition olz_is (l : option (list Z)) (v : Z) : bool :=
  match l with Some [x] => Z.eqb x v | _ => false end.
Definition oz_is (a : option Z) (v : Z) : bool := match a with Some x => Z.eqb x v | None => false end.

(* ------------------------------------------------------------------------------------------ LayerNormFusion *)
Record ln_host := {
  lh_xdt : option dtype;                 (* element type of x; None = not known to the rewriter *)
  lh_eps_singleton : bool;               (* epsilon is a constant of the model with exactly one element *)
  lh_axes1 : option (list Z); lh_axes2 : option (list Z);   (* constant `axes` operand of the two ReduceMean; None = not constant *)
  lh_keepdims1 : option Z; lh_keepdims2 : option Z;         (* keepdims attribute as written; None = absent *)
  lh_sq : sq_form; lh_norm : norm_alt }.
Definition ln_fires (h : ln_host) : option (Z * Z) :=
  if olz_is (lh_axes1 h) (-1) && olz_is (lh_axes2 h) (-1) && oz_is (lh_keepdims1 h) 1 && oz_is (lh_keepdims2 h) 1
     && sq_exact (lh_sq h)
  then match lh_xdt h with Some d => ln_check_rewrite d (lh_eps_singleton h) | None => None end
  else None.

(* ------------------------------------------------------------------------------------------ RmsNormFusion *)
Record rms_host := {
  rh_xdt : option dtype; rh_sdt : option dtype;
  rh_compute : option dtype;             (* Cast(x, to=..) alternative matched *)
  rh_eps_float_singleton : bool;
  rh_axes : option (list Z); rh_keepdims : option Z; rh_noop : option Z;   (* noop_with_empty_axes as written *)
  rh_exp : sq_form;                      (* always a Pow here *)
  rh_mul_order : bool }.
Definition rms_fires (h : rms_host) : option (Z * Z) :=
  if olz_is (rh_axes h) (-1) && oz_is (rh_keepdims h) 1 && oz_is (rh_noop h) 0 && sq_exact (rh_exp h)
  then match rh_xdt h, rh_sdt h with
       | Some x, Some s => rms_check_rewrite x s (rh_compute h) (rh_eps_float_singleton h)
       | _, _ => None
       end
  else None.

Section NormSem.
  Variable F : Type.
  Variable o : fops F.
  Variable sqrt : F -> F.
  Variable powr : F -> Z -> Z -> F.      (* ONNX Pow with the constant exponent num/den: abstract *)
  Definition sq_sem (s : sq_form) (d : list F) : list F :=
    match s with SqMulF => vmul o d d | SqPowF n m => map (fun v => powr v n m) d end.
  (* what the matched sub-graph computes on one row of the last axis (its meaning when both reductions are over
     axes = [-1] with keepdims = 1, which is what ln_fires / rms_fires demand) *)
  Definition ln_host_sem (h : ln_host) (x scale : list F) (eps : F) : list F :=
    let d := deviation F o x in
    let std := sqrt (fadd o (mean o (sq_sem (lh_sq h) d)) eps) in
    let normalized := match lh_norm h with NormRecip => smap (fmul o) d (recip o std) | NormDiv => smap (fdiv o) d std end in
    vmul o normalized scale.
  Definition rms_host_sem (h : rms_host) (x scale : list F) (eps : F) : list F :=
    let r := sqrt (fadd o (mean o (sq_sem (rh_exp h) x)) eps) in
    let normalized := smap (fmul o) x (recip o r) in
    if rh_mul_order h then vmul o normalized scale else vmul o scale normalized.
End NormSem.

(* ------------------------------------------------------------------------------------------ RotaryEmbedding23Fusion *)
Record rot_host := {
  ro_rank : option nat;                  (* rank of x; None = shape unknown *)
  ro_dim1 : option Z; ro_dim3 : option Z;         (* static num_heads / head_size, None = symbolic or unknown *)
  ro_s1 : option Z; ro_e1 : option Z; ro_s2 : option Z; ro_e2 : option Z;   (* one-element constants, None = not constant *)
  ro_one1 : option Z; ro_one2 : option Z }.                                 (* Unsqueeze axes operands *)
Definition rot_fires (h : rot_host) : option Z :=
  match ro_rank h, ro_s1 h, ro_e1 h, ro_s2 h, ro_e2 h with
  | Some r, Some s1, Some e1, Some s2, Some e2 =>
      if oz_is (ro_one1 h) 1 && oz_is (ro_one2 h) 1 then rot_check r (ro_dim1 h) (ro_dim3 h) s1 e1 s2 e2 else None
  | _, _, _, _, _ => None
  end.

(* ------------------------------------------------------------------------------------------ PartialRotaryEmbedding23Fusion *)
Record partial_host := {
  ph_end1 : option Z; ph_start2 : option Z;       (* one-element integer constants, None = not constant *)
  ph_has_dim_attr : bool; ph_interleaved : option Z }.
Definition partial_fires (h : partial_host) : option Z :=
  match ph_end1 h, ph_start2 h with
  | Some e, Some s => partial_check e s (ph_has_dim_attr h) (ph_interleaved h)
  | _, _ => None
  end.

(* ------------------------------------------------------------------------------------------ OnnxGroupQueryAttention
   shapes: None = unknown; a dim is its static size, symbolic dims are encoded by the harness as distinct negative numbers
   (one number per name), unnamed unknown dims as pairwise distinct numbers below -1000.
   names: B=0 H=1 S=2 D=3 Hkv=4 P=5 T=6 ("S+P") G=7 *)
Record gqa_host := {
  gh_query : option (list Z); gh_key : option (list Z); gh_value : option (list Z);
  gh_past_key : option (list Z); gh_past_value : option (list Z);
  gh_present_key : option (list Z); gh_present_value : option (list Z);   (* outputs of Expand => Reshape *)
  gh_expand_key : option (list Z); gh_expand_value : option (list Z);     (* outputs of Expand *)
  gh_is_causal : option Z }.
(* the check as read: the seven check_shape calls *)
Definition gqa_bindings_impl (h : gqa_host) : option bindings :=
  let b1 := check_shape (Some []) (gh_query h) [0; 1; 2; 3]%nat in
  let b2 := check_shape b1 (gh_key h) [0; 4; 2; 3]%nat in
  let b3 := check_shape b2 (gh_value h) [0; 4; 2; 3]%nat in
  let b4 := check_shape b3 (gh_past_key h) [0; 4; 5; 3]%nat in
  let b5 := check_shape b4 (gh_past_value h) [0; 4; 5; 3]%nat in
  let b6 := check_shape b5 (gh_present_key h) [0; 1; 6; 3]%nat in
  check_shape b6 (gh_present_value h) [0; 1; 6; 3]%nat.
Definition gqa_fires_impl (h : gqa_host) : bool := match gqa_bindings_impl h with Some _ => true | None => false end.
(* sound side condition: in addition the Expand outputs are [B, Hkv, G, T, D] with H = Hkv * G (static), and the
   Attention node does not ask for a causal mask (which the fused node would align differently once it owns the past) *)
Definition gqa_fires (h : gqa_host) : bool :=
  let b7 := check_shape (gqa_bindings_impl h) (gh_expand_key h) [0; 4; 7; 6; 3]%nat in
  let b8 := check_shape b7 (gh_expand_value h) [0; 4; 7; 6; 3]%nat in
  match b8 with
  | Some b =>
      match lookup b 1, lookup b 4, lookup b 7 with
      | Some hq, Some hkv, Some g => (0 <? hkv)%Z && (0 <? g)%Z && (hq =? hkv * g)%Z
      | _, _, _ => false
      end && match gh_is_causal h with None => true | Some v => (v =? 0)%Z end
  | None => false
  end.

Section Gqa23.
  Variable A : Type.
  Variable d0 : A.
  Variable attn : list (list A) -> list (list A) -> list (list A) -> option (list (list A)) -> list (list A).
  (* ONNX Attention-23 on 4-D operands Q [B,H,S,Dh], K, V [B,Hkv,T,Dh] (operator document): query head h attends
     key/value head h / (H / Hkv); K, V are the present key/value (Concat(past, current) on the sequence axis, which the
     operator does itself when past_key / past_value are given and the host does with Concat(axis=-2)) *)
  Definition attention23 (B S T H Hkv Dh : nat) (q k v : list A) (mask : nat -> nat -> option (list (list A))) : list A :=
    stack_heads A d0 B H S Dh (fun b h =>
      attn (mat_at A d0 H S Dh q b h) (mat_at A d0 Hkv T Dh k b (h / (H / Hkv))) (mat_at A d0 Hkv T Dh v b (h / (H / Hkv))) (mask b h)).
  Definition gqa23_host (B S T Hkv G Dh : nat) (q kseq vseq : list A) mask : list A :=
    attention23 B S T (Hkv * G) (Hkv * G) Dh q (repeat_kv A d0 B Hkv G T Dh kseq) (repeat_kv A d0 B Hkv G T Dh vseq) mask.
  Definition gqa23_fused (B S T Hkv G Dh : nat) (q kseq vseq : list A) mask : list A :=
    attention23 B S T (Hkv * G) Hkv Dh q kseq vseq mask.
End Gqa23.

(* ------------------------------------------------------------------------------------------ correspondence *)
Inductive fcase :=
  | FLn (h : ln_host) (fired : bool)
  | FRms (h : rms_host) (fired : bool)
  | FRot (h : rot_host) (fired : bool)
  | FPartial (h : partial_host) (fired : bool)
  | FGqa (h : gqa_host) (fired : bool).
Definition is_some {X} (o : option X) : bool := match o with Some _ => true | None => false end.
(* what the implementation did must be permitted by the side condition; not firing is always permitted *)
Definition fagrees (c : fcase) : bool :=
  match c with
  | FLn h f => implb f (is_some (ln_fires h))
  | FRms h f => implb f (is_some (rms_fires h))
  | FRot h f => implb f (is_some (rot_fires h))
  | FPartial h f => implb f (is_some (partial_fires h))
  | FGqa h f => implb f (gqa_fires h)
  end.
Fixpoint fdisagreeing (i : nat) (l : list fcase) : list nat :=
  match l with [] => [] | c :: t => (if fagrees c then [] else [i]) ++ fdisagreeing (S i) t end.
(* the two directions for the rules whose model is exact on the generated hosts (attributes emitted by rewrite) *)
Definition fattrs (c : fcase) (obs : option (Z * Z)) : bool :=
  match c with
  | FLn h true => oz2_eqb (ln_fires h) obs
  | FRms h true => oz2_eqb (rms_fires h) obs
  | _ => true
  end.
Fixpoint adisagreeing (i : nat) (l : list (fcase * option (Z * Z))) : list nat :=
  match l with [] => [] | (c, o) :: t => (if fattrs c o then [] else [i]) ++ adisagreeing (S i) t end.
