(* C10 -- correspondence cases for the fallback state machine (Fallback.v) on the registry and bounds read from the live
   module.  No proofs in this file. *)
From Coq Require Import ZArith List Bool String.
Import ListNotations.
Require Import OV.Gen.VersionTables OV.Version.Model OV.Version.Model2 OV.Version.Adapters OV.Version.Std OV.Version.CApi
               OV.Version.Fallback.
Local Open Scope Z_scope.

(* what the harness observed on _ConvertVersionPassRequiresInline(target, fallback)(ir_model) *)
Inductive fobserved :=
| FODone (M : model) (g : gsig) (modified : bool) (nlog : nat)
| FORaised (c : ecls) (M : model) (g : gsig).

Definition agrees_f (r : fres) (o : fobserved) : bool :=
  match r, o with
  | FDone St0 md l, FODone M g md' n =>
    model_eqb (st_model St0) M && gsig_eqb (st_sig St0) g && Bool.eqb md md' && Nat.eqb (List.length l) n
  | FRaised e St0 _, FORaised c M g => ecls_eqb (cls_of e) c && model_eqb (st_model St0) M && gsig_eqb (st_sig St0) g
  | _, _ => false
  end.

(* one case: probed variant (own, refuse, minchk, fx), _BIG_TENSOR_SIZE_LIMIT, fallback, the state before, target,
   what onnx.version_converter.convert_version was given (None: it was not called), what it returned (None: it raised or
   was not called), the observation *)
Record fcase := FCase {
  fc_own : bool; fc_refuse : bool; fc_min : minvar; fc_fx : flags; fc_limit : Z; fc_fb : bool;
  fc_model : model; fc_sig : gsig; fc_t : Z;
  fc_seen : option (model * gsig); fc_answer : option (model * gsig); fc_obs : fobserved }.

Definition run_fcase (c : fcase) : bool :=
  let capi := fun (_ : state) (_ : Z) => match fc_answer c with Some (M2, g2) => Some (St M2 g2) | None => None end in
  agrees_f (requires_inline_call (fc_own c) (fc_refuse c) (fc_min c) (std_adapt (fc_fx c)) supported_min supported_max big_fuel
                                 (fc_limit c) capi (fc_fb c) (St (fc_model c) (fc_sig c)) (fc_t c)) (fc_obs c)
  && match fc_seen c with
     | None => true
     | Some (Ms, gs) => model_eqb (of_proto (fc_model c)) Ms && gsig_eqb (fst (call_onnx_api true (fc_limit c) (fc_sig c))) gs
     end.

Fixpoint fb_disagreeing (i : nat) (cs : list fcase) : list nat :=
  match cs with
  | [] => []
  | c :: r => (if run_fcase c then [] else [i]) ++ fb_disagreeing (S i) r
  end.

(* witnesses *)
Definition w_fb_model : model := Model (Some 20) None [relu; neg] [].
Definition w_fb_state : state := St w_fb_model w_capi.
(* an oracle that only re-labels the model and keeps the interface it was given *)
Definition relabel_capi (S0 : state) (t : Z) : option state :=
  Some (St (Model (Some t) None (m_graph (st_model S0)) []) (st_sig S0)).
Definition failing_capi (S0 : state) (t : Z) : option state := None.
Definition id_state (S0 : state) : state := S0.

(* onnxscript._framework_apis.torch_2_9.convert_version(model, t) returns the model only: PassResult.modified is not
   observable.  fc_model / fc_sig = the state after the real inline pass (oracle `inline`, measured); clean-up is the
   identity on the generated models (nothing unused; measured by the comparison itself) *)
Definition agrees_t (r : fres) (o : fobserved) : bool :=
  match r, o with
  | FDone St0 _ l, FODone M g _ n => model_eqb (st_model St0) M && gsig_eqb (st_sig St0) g && Nat.eqb (List.length l) n
  | FRaised e St0 _, FORaised c M g => ecls_eqb (cls_of e) c && model_eqb (st_model St0) M && gsig_eqb (st_sig St0) g
  | _, _ => false
  end.
Definition run_tcase (c : fcase) : bool :=
  let capi := fun (_ : state) (_ : Z) => match fc_answer c with Some (M2, g2) => Some (St M2 g2) | None => None end in
  let S1 := St (fc_model c) (fc_sig c) in
  agrees_t (torch_2_9_convert (fc_own c) (fc_refuse c) (fc_min c) (std_adapt (fc_fx c)) supported_min supported_max big_fuel
                              (fc_limit c) capi (fun _ => S1) id_state S1 (fc_t c)) (fc_obs c)
  && match fc_seen c with
     | None => true
     | Some (Ms, gs) => model_eqb (of_proto (fc_model c)) Ms && gsig_eqb (fst (call_onnx_api true (fc_limit c) (fc_sig c))) gs
     end.
Fixpoint tw_disagreeing (i : nat) (cs : list fcase) : list nat :=
  match cs with
  | [] => []
  | c :: r => (if run_tcase c then [] else [i]) ++ tw_disagreeing (S i) r
  end.
