(* C19 model: ort_fusions/instance_to_group_normalization.py
     Reshape(x, [0, g, -1]) -> InstanceNormalization(ones, zeros, epsilon) -> Reshape(x.shape) -> Mul(weight_full) -> Add(bias_full)
       ==>  Transpose(NHWC) -> com.microsoft.GroupNorm(gamma, beta, groups = g, epsilon) -> Transpose(NCHW)
   One (sample, group): the group's channels, each a row of H*W elements.  No proofs here. *)
From Coq Require Import List ZArith Bool.
Require Import OV.Fusion.Field.
Import ListNotations.

Section Sem.
  Variable F : Type.
  Variable o : fops F.
  Variable sqrt : F -> F.

  Definition variance (v : list F) : F :=
    let m := mean o v in mean o (map (fun x => fmul o (fsub o x m) (fsub o x m)) v).
  (* ONNX InstanceNormalization on one (sample, channel) row:  y = scale * (x - mean) / sqrt(variance + epsilon) + B *)
  Definition inst_norm_row (v : list F) (scale bias eps : F) : list F :=
    let m := mean o v in
    let sd := sqrt (fadd o (variance v) eps) in
    map (fun x => fadd o (fdiv o (fmul o scale (fsub o x m)) sd) bias) v.
  (* Reshape back to [N,C,H,W]: the flat group row is cut into channels of the original lengths *)
  Fixpoint split_like (shape : list (list F)) (flat : list F) : list (list F) :=
    match shape with
    | [] => []
    | c :: t => firstn (length c) flat :: split_like t (skipn (length c) flat)
    end.
  (* Mul(weight_full [C,1,1]) then Add(bias_full [C,1,1]): one factor / offset per channel *)
  Fixpoint affine (chans : list (list F)) (w b : list F) : list (list F) :=
    match chans, w, b with
    | c :: ct, wc :: wt, bc :: bt => map (fun e => fadd o (fmul o e wc) bc) c :: affine ct wt bt
    | _, _, _ => []
    end.
  (* the matched pattern: Reshape [0,g,-1] concatenates the channels of the group into one InstanceNormalization row
     (weight 1, bias 0) *)
  Definition ign_pattern (chans : list (list F)) (w b : list F) (eps : F) : list (list F) :=
    affine (split_like chans (inst_norm_row (concat chans) (f1 o) (f0 o) eps)) w b.
  (* com.microsoft.GroupNorm (activation 0): statistics per (sample, group) over the group's channels and all
     positions, then gamma / beta per channel *)
  Definition gn_spec (chans : list (list F)) (gamma beta : list F) (eps : F) : list (list F) :=
    let all := concat chans in
    let m := mean o all in
    let sd := sqrt (fadd o (variance all) eps) in
    affine (map (map (fun x => fdiv o (fsub o x m) sd)) chans) gamma beta.
End Sem.

(* check_if_simulated_instance_norm_is_used.  Shapes are static sizes; -1 / 0 occur in the Reshape target only.
   [affine_guard] = false: as read at bbeff32 (weight_full / bias_full only tested for trailing 1s); true: the repair of
   C19:instance_to_group_norm:affine-of-length-1 (shape[0] of both must equal the channel count).  The harness probes
   which one the implementation is.  Result: the `groups` attribute. *)
Record gn_in := mk_gn_in {
  gn_norm_weight_ones : bool;          (* weight_for_norm constant, all 1 *)
  gn_norm_bias_zeros : bool;           (* bias_for_norm constant, all 0 *)
  gn_groups : Z;                       (* weight_for_norm.shape[0] *)
  gn_input : list Z;                   (* input_x.shape *)
  gn_weight_full : list Z; gn_bias_full : list Z;
  gn_adjusted : option (list Z);       (* constant value of the first Reshape's shape operand *)
  gn_original : option (list Z) }.     (* constant value of the second Reshape's shape operand *)
Fixpoint zlist_eqb (a b : list Z) : bool :=
  match a, b with [] , [] => true | x :: a', y :: b' => Z.eqb x y && zlist_eqb a' b' | _, _ => false end.
Definition all_ones (l : list Z) : bool := forallb (fun d => Z.eqb d 1) l.
Definition gn_check (affine_guard : bool) (i : gn_in) : option Z :=
  if (negb affine_guard || match gn_input i, gn_weight_full i, gn_bias_full i with
                           | _ :: c :: _, w0 :: _, b0 :: _ => Z.eqb w0 c && Z.eqb b0 c
                           | _, _, _ => false
                           end)
     && gn_norm_weight_ones i && gn_norm_bias_zeros i
     && Nat.eqb (length (gn_weight_full i)) (length (gn_input i) - 1) && Nat.eqb (length (gn_bias_full i)) (length (gn_input i) - 1)
     && Nat.eqb (length (gn_input i)) 4
     && all_ones (tl (gn_weight_full i)) && all_ones (tl (gn_bias_full i))
     && match gn_adjusted i with Some a => zlist_eqb a [0; gn_groups i; -1]%Z | None => false end
     && match gn_original i with Some s => zlist_eqb s (gn_input i) | None => false end
  then Some (gn_groups i) else None.
(* what the fused node needs of gamma / beta: C elements (they are flattened by Reshape([-1])) *)
Definition gn_affine_ok (i : gn_in) : bool :=
  match gn_input i with
  | [_; c; _; _] => Z.eqb (fold_right Z.mul 1%Z (gn_weight_full i)) c && Z.eqb (fold_right Z.mul 1%Z (gn_bias_full i)) c
  | _ => false
  end.
Inductive gn_case := CGn (affine_guard : bool) (i : gn_in) (observed : option Z).
Definition gn_agrees (c : gn_case) : bool :=
  match c with CGn ag i obs => match gn_check ag i, obs with Some a, Some b => Z.eqb a b | None, None => true | _, _ => false end end.
Fixpoint gn_disagreeing (k : nat) (cs : list gn_case) : list nat :=
  match cs with [] => [] | c :: t => (if gn_agrees c then [] else [k]) ++ gn_disagreeing (S k) t end.
