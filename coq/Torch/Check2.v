(* C08 (second group of families) -- correspondence checker: one `call2` per traced torch_lib call; the skeleton observed on
   the real traced graph and the output observed on onnxruntime are compared with the models of Aten2.v.
   Prints only indices (see `disagreeing2`).  No proofs in this file. *)
From Coq Require Import ZArith List Bool String.
Require Import OV.Torch.Onnx OV.Torch.Onnx2 OV.Torch.Spec2 OV.Torch.Aten OV.Torch.Aten2 OV.Torch.Check.
Import ListNotations.
Local Open Scope Z_scope.

Inductive call2 :=
| CDiagonal (fixed is_bool : bool) (s : list Z) (offset dim1 dim2 n2 : Z) (mats : list (list (list Z)))
| CMaxPool (fixed : bool) (e : Z) (s : list Z) (kernel stride padding dilation : ints) (ceil_mode : bool)
| CAvgPool (fixed : bool) (e : Z) (s : list Z) (kernel stride padding : ints) (ceil_mode count_include_pad : bool)
| CPadShape (s pad : list Z) (value : option Z)
| CPadAxis (s pad : list Z) (value : option Z) (a : Z) (xs : list (list Z)) (fill : list Z)   (* only axis a is padded *)
| CUnfold (zf : bool) (s : list Z) (dimension size step : Z) (xs : list (list Z))
| CUnbind (r dim n : Z) (xs : list (list Z))
| CGather (s : list Z) (dim : Z) (idx : list Z)
| CSoftmax (log_ squeeze_with_axes : bool) (s : list Z) (dim : Z)
| CSort (s : list Z) (dim : Z) (descending : bool).

Inductive result2 :=
| R2Shape (s : list Z)
| R2ShapeData (s : list Z) (d : list Z)
| R2List (l : list result2)
| R2Slabs (axis : Z) (xs : list (list Z))
| R2Windows (ws : list (list (list Z)))
| R2None
| R2Err.

Definition run_call2 (c : call2) : option result2 :=
  match c with
  | CDiagonal fx _ s off d1 d2 n2 mats =>
      obind (aten_diagonal_shape s off d1 d2) (fun sh =>
      obind (omap_all (fun m => if fx then aten_diag_matrix_fixed m n2 off else aten_diag_matrix m n2 off) mats) (fun rows =>
        Some (R2ShapeData sh (List.concat rows))))
  | CMaxPool fx e s k st p d cm => option_map R2Shape (if fx then aten_max_pool_shape_fixed e s k st p d cm else aten_max_pool_shape e s k st p d cm)
  | CAvgPool fx e s k st p cm _ => option_map R2Shape (if fx then aten_avg_pool_shape_fixed e s k st p cm else aten_avg_pool_shape e s k st p cm)
  | CPadShape s pad _ => option_map R2Shape (aten_pad_shape s pad)
  | CPadAxis s pad _ a xs fill =>
      obind (aten_pad_shape s pad) (fun sh =>
      obind (aten_pad_axis fill (zlen s) a xs pad) (fun ys => Some (R2List [R2Shape sh; R2Slabs a ys])))
  | CUnfold zf s d size step xs =>
      obind (aten_unfold_shape_v zf s d size step) (fun sh =>
        if zlen s =? 0 then Some (R2List [R2Shape sh; R2Windows [if zf && (size =? 0) then [[]] else xs]])
        else obind (aten_unfold xs size step) (fun ws => Some (R2List [R2Shape sh; R2Windows ws])))
  | CUnbind r dim _ xs => option_map (fun p => R2Slabs (fst p) (snd p)) (aten_unbind r dim xs)
  | CGather s dim idx => option_map R2Shape (aten_gather_shape s dim idx)
  | CSoftmax _ _ s dim => option_map R2Shape (aten_softmax_shape s dim)
  | CSort s dim _ => option_map R2Shape (aten_sort_shape s dim)
  end.

Definition skel_call2 (c : call2) : skel :=
  match c with
  | CDiagonal fx b s off d1 d2 _ _ => if fx then skel_diagonal_fixed b s off d1 d2 else skel_diagonal b s off d1 d2
  | CMaxPool fx e s k st p d cm => if fx then skel_max_pool_fixed e s k st p d cm else skel_max_pool e s k st p d cm
  | CAvgPool fx e s k st p cm cip => if fx then skel_avg_pool_fixed e s k st p cm cip else skel_avg_pool e s k st p cm cip
  | CPadShape s pad v => skel_pad s pad v
  | CPadAxis s pad v _ _ _ => skel_pad s pad v
  | CUnfold zf s d size step _ => skel_unfold_v zf s d size step
  | CUnbind _ dim n _ => skel_unbind dim n
  | CGather s dim idx => skel_gather s idx dim
  | CSoftmax l sq s dim => skel_softmax l sq s dim
  | CSort s dim desc => skel_sort s dim desc
  end.

Fixpoint result2_eqb (a b : result2) : bool :=
  match a, b with
  | R2Shape x, R2Shape y => lz_eqb x y
  | R2ShapeData x dx, R2ShapeData y dy => lz_eqb x y && lz_eqb dx dy
  | R2List x, R2List y =>
      (fix go (x y : list result2) : bool :=
         match x, y with
         | [], [] => true
         | p :: x', q :: y' => result2_eqb p q && go x' y'
         | _, _ => false
         end) x y
  | R2Slabs i x, R2Slabs j y => (i =? j) && slabs_eqb x y
  | R2Windows x, R2Windows y => list_eqb slabs_eqb x y
  | R2None, _ => true
  | R2Err, R2Err => true
  | _, _ => false
  end.

(* verdicts as in Check.v: 0 agree; 1 skeleton differs; 2 output differs from the model; 3 the model calls the graph
   invalid but the runtime produced a value; 4 output differs from the model while the model equals torch eager *)
Definition case2 := (call2 * skel * result2 * result2)%type.
Definition verdict2 (c : case2) : Z :=
  let '(cl, sk, obs, want) := c in
  match run_call2 cl with
  | None => match obs with
            | R2Err => 0
            | _ => if skel_eqb (skel_call2 cl) sk then 3 else 1
            end
  | Some r =>
    if negb (skel_eqb (skel_call2 cl) sk) then (match obs with R2Err => 2 | _ => 1 end)
    else if result2_eqb r obs then 0
    else if result2_eqb r want then 4 else 2
  end.
Fixpoint verdicts2 (i : nat) (cs : list case2) : list (nat * Z) :=
  match cs with
  | [] => []
  | c :: t => let v := verdict2 c in ((if v =? 0 then [] else [(i, v)]) ++ verdicts2 (S i) t)%list
  end.
Definition disagreeing2 (cs : list case2) : list nat :=
  flat_map (fun p => [fst p; Z.to_nat (snd p)]) (verdicts2 0 cs).
