"""C01 -- script functions mean the same eagerly, as an ONNX graph, and as plain Python (DESIGN.md section 5, C01).

Ties:  T  onnxscript/_internal/analysis.py -> coq/Gen/Analysis.v (regenerate; theorems re-proved against it)
       C  Gen/Analysis.v evaluated in Coq == real AstAnalyzer on every generated program (per statement path)
       C  translation skeleton of the real function_ir == Script/Translate.v evaluated in Coq
       direct oracle: eager == to_model_proto() on onnxruntime == one-node model calling to_function_proto() == NumPy reading
"""
from __future__ import annotations

import collections
import os

from harness import c01_analysis_py2v, c01_closure, c01_eager, c01_gen, c01_run, c01_tables_py2v, common
from harness.common import clist

PROPERTY = "C01"
LEVEL = "proof"
SCRIPT_REQ = ["OV.Graph.Syntax", "OV.Script.Syntax", "OV.Script.Sets", "OV.Gen.Analysis", "OV.Script.AnalysisAux"]


def regenerate(ctx):
    """Translators: analysis.py -> Gen/Analysis.v; primop_map / Tensor operator methods / opset-18 type variables -> Gen/ScriptTables.v."""
    path = os.path.join(common.REPO, "onnxscript", "_internal", "analysis.py")
    try:
        ctx.gen("Analysis", c01_analysis_py2v.translate(path))
    except c01_analysis_py2v.Untranslatable as e:
        ctx.tie_broken("translator", "analysis.py", f"{e.args[0]}: {e.args[1]}")
    try:
        ctx.gen("ScriptTables", c01_tables_py2v.translate(common.REPO))
    except c01_tables_py2v.Untranslatable as e:
        ctx.tie_broken("translator", "operator-tables", f"{e.args[0]}: {e.args[1]}")


# ----------------------------------------------------------------------------- analysis correspondence

def _cset(xs):
    return "[" + "; ".join(c01_gen._cs(x) for x in xs) + "]"


def _cpath(p):
    return "[" + "; ".join(str(k) for k in p) + "]"


def analysis_case(prog, fname_prog, source):
    rows, lrows = c01_run.analyzer_rows(source, fname_prog["name"], c01_gen.analysis_globals(prog))
    crow = clist([f"({_cpath(p)}, {_cset(a)}, {_cset(i)}, {_cset(o)})" for (p, a, i, o) in rows])
    clrow = clist([f"({_cpath(p)}, {_cset(a)}, {_cset(e)})" for (p, a, e) in lrows])
    return f"({c01_gen.coq_block(fname_prog['body'])}, {c01_gen.coq_globals(prog, fname_prog)}, {crow}, {clrow})", len(rows), len(lrows)


# ---- reference: upward-exposed uses of a loop body by plain data flow (a loop runs zero or more times), computed on the
# generated program itself.  What the real AstAnalyzer.exposed_uses reports for a loop body must contain it: a name it
# misses is read by some path of the body before being written there, and (when the body also assigns it) the converter
# does not carry it from one iteration to the next.

def _uv(e, acc):
    k = e[0]
    if k in ("var", "glob"):
        acc.add(e[1])
    elif k == "un":
        _uv(e[2], acc)
    elif k in ("bin", "cmp"):
        _uv(e[2], acc)
        _uv(e[3], acc)
    elif k in ("call", "fcall"):
        for a in e[2]:
            if a is not None:
                _uv(a, acc)
        for _kw, av in e[3]:
            if av[0] == "ref":
                acc.add(av[1])
    return acc


def _assigned_all(stmts, acc):
    for s in stmts:
        k = s[0]
        if k == "assign":
            acc.add(s[1])
        elif k == "tassign":
            acc.update(s[1])
        elif k == "if":
            _assigned_all(s[2], acc)
            _assigned_all(s[3], acc)
        elif k == "for":
            acc.add(s[1])
            _assigned_all(s[3], acc)
        elif k == "while":
            _assigned_all(s[2], acc)
    return acc


def _ref_exposed(stmts, live, const):
    live = set(live)
    for s in reversed(stmts):
        k = s[0]
        if k == "assign":
            live = (live - {s[1]}) | _uv(s[2], set())
        elif k == "tassign":
            live = (live - set(s[1])) | _uv(s[2], set())
        elif k == "if":
            c = const(s[1])
            if c is True:
                live = _ref_exposed(s[2], live, const)
            elif c is False:
                live = _ref_exposed(s[3], live, const)
            else:
                live = _ref_exposed(s[2], live, const) | _ref_exposed(s[3], live, const) | _uv(s[1], set())
        elif k == "for":
            r = set(live)
            while True:
                n = r | _ref_exposed(s[3], r, const)
                if n == r:
                    break
                r = n
            live = (r - {s[1]}) | _uv(s[2], set())
        elif k == "while":
            r = set(live) | {s[1]}
            while True:
                n = r | _ref_exposed(s[2], r, const)
                if n == r:
                    break
                r = n
            live = r
        elif k == "break_if":
            live = live | {s[1]}
        elif k == "return":
            live = set()
            for e in s[1]:
                _uv(e, live)
        else:
            raise TypeError(s)
    return live


def reference_exposed_rows(prog, fp):
    """[(path, reference upward-exposed uses of the loop body)] for every loop of function fp, paths as in c01_run.analyzer_rows."""
    truth = c01_gen.analysis_globals(prog)
    top = _assigned_all(fp["body"], set())

    def const(c):
        if c[0] in ("var", "glob") and c[1] not in top and c[1] in truth:
            return bool(truth[c[1]])
        return None
    out = []

    def block(stmts, prefix, start):
        for k, s in enumerate(stmts):
            path = prefix + [start + k]
            if s[0] == "if":
                block(s[2], path, 0)
                block(s[3], path, 1000)
            elif s[0] in ("for", "while"):
                body = s[3] if s[0] == "for" else s[2]
                out.append((path, _ref_exposed(body, set(), const)))
                block(body, path, 0)
    block(fp["body"], [], 0)
    return out


def exposed_uses_complete(prog, fp, source):
    """Names the reference says a loop body may read from outside / from an earlier iteration that the real exposed_uses omits."""
    _rows, lrows = c01_run.analyzer_rows(source, fp["name"], c01_gen.analysis_globals(prog))
    real = {tuple(p): set(e) for (p, _a, e) in lrows}
    missing = []
    for path, ref in reference_exposed_rows(prog, fp):
        if tuple(path) in real and not ref <= real[tuple(path)]:
            missing.append((path, sorted(ref - real[tuple(path)])))
    return missing, len(real)


def analysis_correspondence(ctx, programs):
    """programs: list of (prog, source).  Diff Gen/Analysis.v against the real AstAnalyzer."""
    cases, meta = [], []
    nrows = nl = 0
    for prog, src in programs:
        for fp in prog["subs"] + [prog]:
            try:
                txt, r, l = analysis_case(prog, fp, src)
            except Exception as e:  # noqa: BLE001 -- the real analyzer refuses the program (e.g. unsupported statement)
                continue
            cases.append(txt)
            meta.append((fp["name"], src))
            nrows += r
            nl += l
    B = 60
    bodies = []
    for lo in range(0, len(cases), B):
        bodies.append(f"Open Scope string_scope.\nDefinition cases : list acase := {clist(cases[lo:lo + B])}.\nEval vm_compute in (disagreeing 0 cases).")
    res = c01_run.coq_eval_par(ctx, SCRIPT_REQ + ["OV.Script.Corr"], bodies, "c01_analysis")
    bad = []
    for k, (ok, vals, raw) in enumerate(res):
        if not ok or not vals:
            ctx.tie_broken("correspondence", "analysis:model-evaluation", raw[-1200:])
            continue
        for i in common.parse_nat_list(vals[0]):
            bad.append(meta[k * B + i])
    for name, src in bad[:5]:
        ctx.tie_broken("correspondence", "analysis:" + name, "Gen/Analysis.v and the real AstAnalyzer disagree on\n" + src)
    # exposed_uses against the reference data flow (one direction: nothing the reference needs may be missing)
    incomplete, n_loops = [], 0
    for prog, src in programs:
        for fp in prog["subs"] + [prog]:
            try:
                miss, nl_ = exposed_uses_complete(prog, fp, src)
            except Exception:  # noqa: BLE001 -- the real analyzer refuses the program
                continue
            n_loops += nl_
            if miss:
                incomplete.append((fp["name"], src, miss))
    for name, src, miss in incomplete[:5]:
        ctx.tie_broken("correspondence", "analysis:" + name,
                       f"AstAnalyzer.exposed_uses omits names that the loop body may read before writing them (loop path, names): {miss} on\n" + src)
    ctx.obligation(f"exposed_uses complete: for {n_loops} loop bodies the real AstAnalyzer.exposed_uses contains every name a reference data flow "
                   f"(loops run zero or more times) finds read before written", not incomplete,
                   "; ".join(f"{n}: {m}" for n, _s, m in incomplete[:5]))
    ctx.obligation(f"correspondence analysis: Gen/Analysis.v (assigned_vars, live_in/out, exposed_uses) = real AstAnalyzer on {len(cases)} functions, "
                   f"{nrows} statements, {nl} loops", not bad and bool(res))
    ctx.cover(analysis_functions=len(cases), analysis_statement_rows=nrows, analysis_loop_rows=nl, analysis_disagreements=len(bad))
    return bad


# ----------------------------------------------------------------------------- decorating the generated programs for real

class Decorated:
    """One generated program run through the real front end."""

    def __init__(self, idx, prog, source, mod, exc, events):
        self.idx, self.prog, self.source, self.mod, self.exc, self.events = idx, prog, source, mod, exc, events
        self.funcs = prog["subs"] + [prog]

    @property
    def accepted(self):
        return self.exc is None

    def onnx_function(self, name):
        return getattr(self.mod, name, None) if self.mod is not None else None


def decorate_all(wd, programs, prefix="c01_m"):
    out = []
    for i, (prog, src) in enumerate(programs):
        with c01_run.ConverterTrace() as tr:
            mod, exc = c01_run.load(wd, f"{prefix}{i}", src)
        out.append(Decorated(i, prog, src, mod, exc, tr.events))
    return out


# ----------------------------------------------------------------------------- skeleton correspondence (Translate.v vs the real function_ir)

def _clit(v):
    return c01_gen.coq_lit(v)


def translate_case(d: Decorated, fp_prog, legacy=False):
    """Coq `tcase` literal for one function of a decorated program + bookkeeping."""
    from harness import graphlit
    name = fp_prog["name"]
    ev = d.events.get(name, [])
    try:
        orders, loops = c01_run.orders_from_events(ev, legacy=legacy)
    except AssertionError:
        orders, loops = [], []
    f = d.onnx_function(name)
    real = "None"
    if f is not None and hasattr(f, "to_function_proto"):
        fproto = c01_run.normalize_copy_names(f.to_function_proto())
        real = "(Some " + graphlit.function_lit(fproto).replace("%string", "") + ")"
    else:
        orders = []       # refused: the model lists every set in its own order
    consts = clist([f"({c01_gen._cs(k)}, {_clit(v)})" for k, v in sorted(d.prog["globals"].items())])
    corders = clist([clist([c01_gen._cs(x) for x in o]) for o in orders])
    txt = f"({c01_gen.coq_func(fp_prog)}, {consts}, {c01_gen.coq_globals(d.prog, fp_prog)}, {corders}, {real})"
    return txt, loops, f is not None


def _eval_tcases(ctx, cases, legacy, tag):
    B = 40
    bodies = []
    for lo in range(0, len(cases), B):
        bodies.append(f"Open Scope string_scope.\nDefinition cases : list tcase := {clist(cases[lo:lo + B])}.\n"
                      f"Eval vm_compute in (tdisagreeing {'true' if legacy else 'false'} 0 cases).")
    res = c01_run.coq_eval_par(ctx, SCRIPT_REQ + ["OV.Script.Translate", "OV.Script.Corr"], bodies, tag)
    bad = []
    for k, (ok, vals, raw) in enumerate(res):
        if not ok or not vals:
            ctx.tie_broken("correspondence", "translate:model-evaluation", raw[-1500:])
            continue
        bad += [k * B + i for i in common.parse_nat_list(vals[0])]
    return bad


def skeleton_correspondence(ctx, decorated):
    """Translate.v (repaired semantics) against the real function_ir, names included.  A disagreement that the
    `legacy` switch of the model (the three confirmed defects) explains is returned as explained, the rest as broken."""
    cases, meta = [], []
    for d in decorated:
        for fp in d.funcs:
            if d.exc is not None and fp["name"] not in d.events:
                continue        # never reached by the decorator (an earlier function of the module was refused)
            txt, loops, acc = translate_case(d, fp)
            cases.append(txt)
            meta.append((d, fp, acc, loops))
    bad = _eval_tcases(ctx, cases, False, "c01_skel")
    explained, broken = [], []
    if bad:
        lcases = [translate_case(meta[i][0], meta[i][1], legacy=True)[0] for i in bad]
        lbad = set(_eval_tcases(ctx, lcases, True, "c01_skel_legacy"))
        for j, i in enumerate(bad):
            (broken if j in lbad else explained).append(meta[i])
    skeleton_correspondence.last = (cases, meta)
    ctx.cover(skeleton_cases=len(cases), skeleton_accepted=sum(1 for m in meta if m[2]),
              skeleton_explained_by_known_defects=len(explained), skeleton_disagreements=len(broken),
              loops_listed_in_two_orders=sum(1 for m in meta if any(a != b for a, b in m[3])))
    return explained, broken, len(cases)


# ----------------------------------------------------------------------------- which theorem classes the generated programs inhabit

CLASS_BITS = {0: "S1_straightline", 1: "S2_ifelse", 2: "S3_for_toplevel", 3: "S3_nested_no_while_break", 4: "S3_nested"}
FEAT_BITS = {5: "if_inside_loop", 6: "loop_inside_if", 7: "loop_inside_loop", 8: "for", 9: "for_with_break", 10: "while",
             11: "while_with_break", 12: "if"}


def theorem_classes(ctx, cases, meta):
    """Evaluate, in Coq, the decidable class predicates of the C01 theorems (and the control-flow features) on every
    function the converter accepted; record the distribution.  The features a theorem claims to cover must be inhabited
    by programs of its class among the generated programs (otherwise the correspondence says nothing about them)."""
    idx = [i for i, m in enumerate(meta) if m[2]]
    B = 60
    bodies = []
    for lo in range(0, len(idx), B):
        part = [cases[i] for i in idx[lo:lo + B]]
        bodies.append(f"Open Scope string_scope.\nDefinition cases : list tcase := {clist(part)}.\n"
                      f"Eval vm_compute in (map class_of cases).")
    res = c01_run.coq_eval_par(ctx, SCRIPT_REQ + ["OV.Script.Translate", "OV.Script.Corr", "OV.Script.ClassCorr"], bodies, "c01_class")
    masks = []
    for ok, vals, raw in res:
        if not ok or not vals:
            ctx.tie_broken("harness", "theorem-classes:model-evaluation", raw[-1500:])
            return
        masks += common.parse_nat_list(vals[0])
    dist = collections.Counter()
    inside = collections.Counter()          # features among the programs of the complete S3 class
    for m in masks:
        cls = [n for b, n in CLASS_BITS.items() if m >> b & 1]
        for n in cls:
            dist[n] += 1
        if not cls:
            dist["no_theorem_class"] += 1
        for b, n in FEAT_BITS.items():
            if m >> b & 1:
                dist["feature:" + n] += 1
                if m >> 4 & 1:
                    inside[n] += 1
    ctx.cover(theorem_classes=dict(functions=len(masks), **dict(sorted(dist.items()))),
              features_inside_S3_nested=dict(sorted(inside.items())))
    need = ["if", "for", "while", "for_with_break", "while_with_break", "if_inside_loop", "loop_inside_if", "loop_inside_loop"]
    missing = [n for n in need if not inside[n]]
    ctx.obligation("every construct C01_graph_eq_python_nested_partial covers occurs in generated programs of its class (pre_ok): "
                   + ", ".join(f"{n}={inside[n]}" for n in need), not missing, "not exercised: " + ", ".join(missing))


# ----------------------------------------------------------------------------- direct oracle (the property itself, on the real code)

def mechanisms(d: Decorated):
    """Which of the confirmed defect mechanisms are present in this decorated program (exact detectors)."""
    m = {"two_orders": False, "while_break": False, "for_bound": False, "float_mod": False, "returns_input": False,
         "nested_domain": False, "dup_subgraph_output": False, "param_shadow_if": False, "loop_live_out": False}
    for fp in d.funcs:
        f = d.onnx_function(fp["name"])
        if f is None or not hasattr(f, "to_function_proto"):
            continue
        try:
            _o, loops = c01_run.orders_from_events(d.events.get(fp["name"], []))
        except AssertionError:
            loops = []
        m["two_orders"] |= any(a != b for a, b in loops)
        proto = f.to_function_proto()
        m["while_break"] |= c01_run.while_break_drops_condition(proto)
        m["returns_input"] |= c01_run.returns_graph_input(proto)
        m["nested_domain"] |= c01_run.nested_domain_not_imported(proto)
        m["dup_subgraph_output"] |= c01_run.subgraph_lists_value_twice(proto)
        msrc = getattr(d, "mech_source", d.source)      # enclosing-scope stream: the same functions defined at module level
        m["for_bound"] |= c01_run.for_bound_not_live(msrc, fp["name"], c01_gen.analysis_globals(d.prog))
        m["loop_live_out"] |= c01_run.loop_live_out_dropped(msrc, fp["name"], c01_gen.analysis_globals(d.prog))
        m["float_mod"] |= "float-mod-tensor" in fp.get("features", [])
        m["param_shadow_if"] |= (not c01_run.constant_if_excludes_parameters()
                                 and c01_run.if_test_parameter_shadows_global(msrc, fp["name"], set(d.prog["globals"])))
    return m


def classify(mech, which, text):
    if ("fmod" in text or "running Mod node" in text) and mech["float_mod"]:
        return "C01:float-mod-tensor-rhs:graph-fails-in-ort"
    if which == "model" and mech.get("attr_refs"):
        return "C01:attr-default:model-proto-keeps-attribute-references"
    if which == "function" and mech["nested_domain"] and "function_utils" in text:
        return "C01:function-proto:domain-used-only-in-subgraph-not-imported:fails-in-ort"
    if which == "function" and mech["returns_input"] and "it.GetName().empty()" in text:
        return "C01:function-proto:graph-input-returned-directly:fails-in-ort"
    if mech.get("param_shadow_if") and which in ("model", "function"):
        return "C01:if-test-parameter-shadows-module-global:branch-chosen-at-decoration"
    if mech["dup_subgraph_output"] and which in ("model", "function"):
        return "C01:subgraph-lists-a-value-twice"
    if mech["two_orders"]:
        return "C01:loop-state-listed-in-two-orders"
    if mech["while_break"]:
        return "C01:while-with-trailing-break:loop-condition-dropped"
    if mech["for_bound"]:
        return "C01:for-bound-not-live:stale-loop-bound"
    if mech.get("loop_live_out") and which in ("model", "function"):
        return "C01:loop-live-out-not-live-in:value-assigned-in-loop-body-lost"
    return None


def direct_oracle(ctx, d: Decorated, stats, n_sets, rng, worker, collector=None):
    import numpy as np
    from harness import c01_interp
    from harness.c02 import model_has_attr_refs
    prog = d.prog
    f = d.onnx_function(prog["name"])
    helpers = {h["name"]: h for h in prog["subs"]}
    helpers_onnx = [d.onnx_function(h["name"]) for h in prog["subs"]]
    mech = mechanisms(d)
    model = None
    required = any(a[2] is None for a in prog["aparams"])
    if not required:
        try:
            model = f.to_model_proto()
            mech["attr_refs"] = model_has_attr_refs(model)
        except Exception as e:  # noqa: BLE001
            ctx.violation(f"C01:to_model_proto-raises:{type(e).__name__}", f"to_model_proto() raised {e!r}", {"source": d.source})
    timed_out = [False]

    def runner(m, feeds):
        if timed_out[0]:
            return None                 # one endless Loop per program is enough evidence
        r = worker.run(m, feeds)
        if r[0] == "timeout":
            timed_out[0] = True
        return r
    flagged = False
    for k, (tensors, attrs) in enumerate(c01_interp.gen_inputs(prog, rng, n_sets)):
        stats["input_sets"] += 1
        ctx.case(None)
        replay = {"source": d.source, "function": prog["name"], "input_index": k,
                  "tensors": [t.tolist() for t in tensors], "shapes": [list(t.shape) for t in tensors], "attrs": attrs}
        # ---- NumPy reading
        it = c01_interp.Interp(prog, helpers)
        try:
            with np.errstate(all="ignore"):
                N = it.run([t.copy() for t in tensors], dict(attrs))
        except c01_interp.Inexact:
            N = None
            stats["numpy_skipped_steps"] += 1
        except c01_interp.Undefined:
            N = None                    # an integer index outside the extent: the property claims nothing on this input
            stats["numpy_undefined_input"] += 1
        # ---- eager
        try:
            if collector is not None:          # the same call, with the real evaluator's events recorded (harness/c01_eager.py)
                E = collector.traced_eager(d, f, prog, tensors, attrs)
            else:
                E = c01_interp.run_eager(f, prog, tensors, attrs)
        except Exception as e:  # noqa: BLE001
            E = e
        feeds = c01_interp.feeds_of(prog, tensors)
        results = {}
        if model is not None and not attrs:
            results["model"] = runner(model, feeds)
        try:
            cm = c01_interp.call_model(f, prog, attrs, helpers_onnx)
            results["function"] = runner(cm, feeds)
        except Exception as e:  # noqa: BLE001
            results["function"] = ("error", f"building the calling model failed: {e!r}"[:300])
        if isinstance(E, Exception):
            stats["eager_raises"] += 1
            others_ok = all(r is not None and r[0] == "ok" for r in results.values())
            if others_ok:
                key = classify(mech, "eager", str(E)) or f"C01:eager-raises:{type(E).__name__}"
                ctx.violation(key, f"eager call raises {E!r:.200} while the graph runs", dict(replay, eager_error=repr(E)[:500]))
                flagged = True
            continue
        results = {w: r for w, r in results.items() if r is not None}
        for which, (status, val) in sorted(results.items()):
            stats[f"runs_{which}"] += 1
            if status != "ok":
                key = classify(mech, which, str(val)) or f"C01:{which}-fails-in-ort"
                ctx.violation(key, f"eager returns values but the {which} proto {'does not terminate' if status == 'timeout' else 'fails'} "
                                   f"on onnxruntime: {str(val)[:200]}", dict(replay, which=which, error=str(val)))
                flagged = True
                continue
            diff = c01_interp.same(E, list(val), exact=True)
            if diff is not None:
                key = classify(mech, which, "") or f"C01:eager-differs-from-{which}"
                ctx.violation(key, f"eager and the {which} proto on onnxruntime differ: {diff}",
                              dict(replay, which=which, eager=[np.asarray(x).tolist() for x in E], graph=[np.asarray(x).tolist() for x in val]))
                flagged = True
        if N is not None and it.exact:
            stats["numpy_compared"] += 1
            diff = c01_interp.same(E, N, exact=True)
            if diff is not None:
                key = f"C01:eager-differs-from-numpy-reading"
                ctx.violation(key, f"eager result differs from the NumPy reading of the source: {diff}",
                              dict(replay, eager=[np.asarray(x).tolist() for x in E], numpy=[np.asarray(x).tolist() for x in N]))
                flagged = True
        elif N is not None:
            stats["numpy_inexact_skipped"] += 1
    return flagged, mech


# ----------------------------------------------------------------------------- subscript stream (runs in a child process)

class _Recorder:
    """Stands in for Ctx inside the child: records the calls, the parent replays them."""

    def __init__(self):
        self.calls = []

    def case(self, key):
        self.calls.append(("case", key))

    def sample(self, obj):
        self.calls.append(("sample", obj))

    def violation(self, key, what, replay, found_input=True):
        self.calls.append(("violation", key, what, replay, found_input))


def sub_stream_main():
    """Child process: decorate the programs of the subscript stream for real and run the four-way direct oracle on them.
    The converter model has no subscript expression, so there is no analysis / skeleton correspondence for these."""
    import pickle
    import random as _random
    import sys
    import time as _time
    payload = pickle.load(sys.stdin.buffer)
    rec = _Recorder()
    sstats, sfeats, mech_count = collections.Counter(), collections.Counter(), collections.Counter()
    t0 = _time.time()
    wd = c01_run.Workdir()
    c01_run.quiet_ort()
    cache = c01_run.OrtSessionCache()
    cache.__enter__()
    worker = c01_run.OrtWorker(timeout=20)
    try:
        for d in decorate_all(wd, payload["programs"], prefix="c01_s"):
            for ft in d.prog["features"]:
                sfeats[ft] += 1
            if not d.accepted:
                sstats["refused"] += 1
                sstats["refused:" + type(d.exc).__name__] += 1
                continue
            sstats["accepted"] += 1
            _flagged, mech = direct_oracle(rec, d, sstats, payload["n_sets"], _random.Random(payload["seeds"][d.idx]), worker)
            for k, v in mech.items():
                mech_count[k] += 1 if v else 0
            if d.idx == payload["n_corpus"]:
                rec.sample({"stream": "subscript", "source": d.source})
    finally:
        cache.__exit__(None, None, None)
        worker.close()
        sstats["ort_timeouts"] = worker.timeouts
        wd.close()
    with open(payload["result_path"], "wb") as f:
        pickle.dump({"calls": rec.calls, "stats": dict(sstats), "features": dict(sfeats), "mechanisms": dict(mech_count),
                     "seconds": round(_time.time() - t0, 1)}, f)


class SubStreamChild:
    def __init__(self, payload):
        import pickle
        import subprocess
        import sys
        import tempfile
        self.dir = tempfile.mkdtemp(prefix="osverif-c01-sub-")
        self.result_path = os.path.join(self.dir, "result.pkl")
        self.err = open(os.path.join(self.dir, "stderr.txt"), "w+")
        payload = dict(payload, result_path=self.result_path)
        self.proc = subprocess.Popen([sys.executable, "-c", "from harness import c01; c01.sub_stream_main()"],
                                     stdin=subprocess.PIPE, stdout=subprocess.DEVNULL, stderr=self.err, cwd=common.VERIF)
        try:
            self.proc.stdin.write(pickle.dumps(payload))
            self.proc.stdin.close()
        except Exception:  # noqa: BLE001 -- reported by collect()
            pass

    def collect(self, ctx, timeout=900):
        """Wait for the child, replay what it recorded into ctx; a child that fails is a broken harness (fail-closed)."""
        import pickle
        import subprocess
        try:
            rc = self.proc.wait(timeout=timeout)
        except subprocess.TimeoutExpired:
            self.kill()
            ctx.tie_broken("harness", "subscript-stream", "the child process did not finish in time")
            return None
        if rc != 0 or not os.path.exists(self.result_path):
            self.err.seek(0)
            ctx.tie_broken("harness", "subscript-stream", f"child process exit code {rc}: " + self.err.read()[-1500:])
            return None
        with open(self.result_path, "rb") as f:
            res = pickle.load(f)
        for call in res["calls"]:
            if call[0] == "case":
                ctx.case(call[1])
            elif call[0] == "sample":
                ctx.sample(call[1])
            else:
                ctx.violation(call[1], call[2], call[3], found_input=call[4])
        return res

    def kill(self):
        import shutil
        try:
            if self.proc.poll() is None:
                self.proc.kill()
                self.proc.wait(timeout=5)
        except Exception:  # noqa: BLE001
            pass
        try:
            self.err.close()
        except Exception:  # noqa: BLE001
            pass
        shutil.rmtree(self.dir, ignore_errors=True)


LOOP_ELSE_SRC = c01_gen.HEADER + '''
@script(default_opset=op)
def cf_loop_else(x: FLOAT['D0']) -> FLOAT['D0']:
    for i in range(2):
        x = x + 1.0
    else:
        x = x - 10.0
    return x
'''


def loop_else_probe(ctx, wd, worker, stats):
    """A construct outside the generator's grammar (corpus of past findings): the else clause of a loop.  Either the
    decorator refuses it, or the graph must run the else clause like Python does."""
    import numpy as np
    mod, exc = c01_run.load(wd, "c01_loop_else", LOOP_ELSE_SRC)
    ctx.case(("corpus", "cf_loop_else"))
    if exc is not None:
        stats["loop_else_refused"] += 1
        if type(exc).__name__ not in c01_run.DESCRIPTIVE:
            ctx.violation(f"C01:loop-else:crash:{type(exc).__name__}", f"decorator crashed on a loop with an else clause: {exc!r}", {"source": LOOP_ELSE_SRC})
        return
    f = mod.cf_loop_else
    x = np.array([0.0, 1.0], dtype=np.float32)
    try:
        eager = [np.asarray(f(x.copy()))]
        status, val = worker.run(f.to_model_proto(), {"x": x})
    except Exception as e:  # noqa: BLE001
        ctx.tie_broken("harness", "loop-else-probe", repr(e))
        return
    if status != "ok" or not np.array_equal(eager[0], np.asarray(val[0])):
        ctx.violation("C01:loop-else-clause-ignored",
                      "the else clause of a for loop is executed by Python (eager) but dropped from the graph",
                      {"source": LOOP_ELSE_SRC, "x": x.tolist(), "eager": eager[0].tolist(),
                       "graph": np.asarray(val[0]).tolist() if status == "ok" else str(val)})


NESTED_DEF_SRC = c01_gen.HEADER + '''
@script(default_opset=op)
def cf_nested_def(x: FLOAT['D0']) -> FLOAT['D0']:
    def inner(a: FLOAT['D0']) -> BOOL['D0']:
        return a > 0.0
    y = x + 1.0
    return y
'''


def nested_def_probe(ctx, wd, worker, stats):
    """Outside the generator's grammar: a nested function definition (the construct Scan / SequenceMap bodies are written
    with) carrying its own return annotation.  The enclosing function's outputs must keep the enclosing function's
    declared types: eager returns FLOAT, so must the model."""
    import numpy as np
    mod, exc = c01_run.load(wd, "c01_nested_def", NESTED_DEF_SRC)
    ctx.case(("corpus", "cf_nested_def"))
    if exc is not None:
        stats["nested_def_refused"] += 1
        if type(exc).__name__ not in c01_run.DESCRIPTIVE:
            ctx.violation(f"C01:nested-def:crash:{type(exc).__name__}", f"decorator crashed on a nested function definition: {exc!r}", {"source": NESTED_DEF_SRC})
        return
    f = mod.cf_nested_def
    x = np.array([-1.0, 1.0], dtype=np.float32)
    try:
        eager = np.asarray(f(x.copy()))
        model = f.to_model_proto()
        status, val = worker.run(model, {"x": x})
    except Exception as e:  # noqa: BLE001
        ctx.tie_broken("harness", "nested-def-probe", repr(e))
        return
    if status != "ok" or np.asarray(val[0]).dtype != eager.dtype or not np.array_equal(eager, np.asarray(val[0])):
        ctx.violation("C01:nested-def-return-annotation:overwrites-enclosing-return-types",
                      "the return annotation of a nested function definition replaces the enclosing function's declared return types: "
                      "the model's output is declared with the nested function's type and does not run (or returns another type) while eager returns values",
                      {"source": NESTED_DEF_SRC, "x": x.tolist(), "eager": eager.tolist(), "eager_dtype": str(eager.dtype),
                       "declared_output_elem_type": int(model.graph.output[0].type.tensor_type.elem_type),
                       "graph": np.asarray(val[0]).tolist() if status == "ok" else str(val)[:400]})


# ----------------------------------------------------------------------------- enclosing-scope stream (harness/c01_closure.py)

def closure_stream(ctx, wd, decorated, n_sets, worker, seeds, limit, stats):
    """Programs of the main stream that refer to outer names, re-defined inside a function that binds those names while
    the module binds them to other objects: four-way oracle + Script/Translate.v on the enclosing bindings = real function_ir."""
    import random as _random
    CD = c01_closure.make_decorated(Decorated)
    picked = [d for d in decorated if c01_closure.eligible(d) and c01_closure.used_outer_names(d.prog)][:limit]
    cl = []
    for j, d in enumerate(picked):
        src = c01_closure.to_source_closure(d.prog)
        with c01_run.ConverterTrace() as tr:
            mod, exc = c01_run.load(wd, f"c01_cl{j}", src)
        d2 = CD(d.idx, d.prog, src, mod, exc, tr.events, d.source)
        used = c01_closure.used_outer_names(d.prog)
        ctx.case(("enclosing-scope", "helper" if any(h["name"] in used for h in d.prog["subs"]) else "constant",
                  c01_gen.shape_key(d.prog).split("/")[0][:16]))
        if j < 1:
            ctx.sample({"stream": "enclosing-scope", "source": src})
        stats["enclosing_scope_programs"] += 1
        if exc is not None:
            ctx.violation(f"C01:enclosing-scope:decorator-raises:{type(exc).__name__}",
                          f"the program is accepted when defined at module level; defined inside a function that binds the outer names "
                          f"{used} the decorator raises {exc!r:.200}", {"stream": "enclosing-scope", "source": src})
            continue
        cl.append(d2)
    flagged = set()
    for d2 in cl:
        st2 = collections.Counter()
        fl, _mech = direct_oracle(ctx, d2, st2, n_sets, _random.Random(seeds[d2.idx] ^ 0x5EED), worker, None)
        stats["enclosing_scope_input_sets"] += st2["input_sets"]
        if fl:
            flagged.add(d2.idx)
    # ---- model obligation
    cases, meta = [], []
    for d2 in cl:
        for fp in d2.funcs:
            try:
                txt, _loops, acc = translate_case(d2, fp)
            except TypeError:
                continue
            cases.append(txt)
            meta.append((d2, fp, acc))
    bad = _eval_tcases(ctx, cases, False, "c01_closure") if cases else []
    broken = []
    if bad:
        lcases = [translate_case(meta[i][0], meta[i][1], legacy=True)[0] for i in bad]
        lbad = set(_eval_tcases(ctx, lcases, True, "c01_closure_legacy"))
        broken = [meta[i] for j, i in enumerate(bad) if j in lbad]
    for d2, fp, acc in broken:
        if d2.idx in flagged:
            continue            # reported above with its failing input
        ctx.tie_broken("correspondence", "translate:enclosing-scope:" + fp["name"],
                       "Script/Translate.v on the enclosing function's bindings differs from the real function_ir of the nested script\n" + d2.source)
    ctx.obligation(f"enclosing-scope: Script/Translate.v run on the bindings of the enclosing function (constants, truth of `if NAME:` tests) = "
                   f"real function_ir of the script defined inside it, module-level decoys of the same names present, on {len(cases)} functions "
                   f"of {len(cl)} programs", not broken)
    stats["enclosing_scope_functions"] = len(cases)


def run(ctx):
    ctx.assume("kernel semantics of the ONNX operators are abstract in the theorems (Section variable); measured on onnxruntime (ORT_DISABLE_ALL) "
               "by the direct oracle for every generated program and input")
    ctx.assume("float inputs are dyadic and small; the NumPy reading is compared only when every intermediate value stays exactly representable")
    ctx.trust("harness/c01_gen.py printers (program -> Python source / Script.Syntax literal), harness/graphlit.py (proto -> graph literal)")
    ctx.check_props()
    ctx.build(["Script/Corr.vo", "Script/ClassCorr.vo", "Script/EagerCorr.vo"])
    quick = ctx.tier == "quick"
    scale = float(os.environ.get("OSVERIF_C01_SCALE", "1") or 1)      # development aid (self-tests under load); default 1
    n_prog = int((160 if quick else 1800) * scale)
    n_sets = 3 if quick else 4
    rng = ctx.rng
    programs = []
    for prog in c01_gen.load_corpus():
        programs.append((prog, c01_gen.to_source(prog)))
        ctx.case(("corpus", prog["name"]))
    n_corpus = len(programs)
    for i in range(n_prog):
        prog = c01_gen.gen_program(rng, i, straight=(i % 10 == 0))
        programs.append((prog, c01_gen.to_source(prog)))
        ctx.case(c01_gen.shape_key(prog))
    import time as _time
    t0 = _time.time()
    phases = {}
    analysis_correspondence(ctx, programs)
    phases["analysis_correspondence_s"] = round(_time.time() - t0, 1)
    stats = collections.Counter()
    wd = c01_run.Workdir()
    c01_run.quiet_ort()
    n_oracle = int((60 if quick else 600) * scale)
    input_seeds = [rng.getrandbits(64) for _ in programs]
    # ---- subscript stream (drawn from its own generator, after everything the other streams consume)
    import random as _random
    sub_rng = _random.Random(rng.getrandbits(64))
    n_sub = int((22 if quick else 400) * scale)
    sub_programs = []
    for prog in c01_gen.load_subscript_corpus():
        sub_programs.append((prog, c01_gen.to_source(prog)))
        ctx.case(("corpus", prog["name"]))
    n_sub_corpus = len(sub_programs)
    for i in range(n_sub):
        prog = c01_gen.gen_subscript_program(sub_rng, i)
        sub_programs.append((prog, c01_gen.to_source(prog)))
        ctx.case(c01_gen.shape_key(prog))
    sub_seeds = [sub_rng.getrandbits(64) for _ in sub_programs]
    sstats = collections.Counter()
    sfeats = collections.Counter()
    # the subscript stream runs in a child process, concurrently with the correspondences and the oracle of the main stream
    sub_child = SubStreamChild({"programs": sub_programs, "seeds": sub_seeds, "n_sets": n_sets, "n_corpus": n_sub_corpus})
    try:
        t1 = _time.time()
        decorated = decorate_all(wd, programs)
        phases["decorate_s"] = round(_time.time() - t1, 1)
        t1 = _time.time()
        explained, broken, n = skeleton_correspondence(ctx, decorated)
        phases["skeleton_correspondence_s"] = round(_time.time() - t1, 1)
        t1 = _time.time()
        theorem_classes(ctx, *skeleton_correspondence.last)
        phases["theorem_classes_s"] = round(_time.time() - t1, 1)
        t1 = _time.time()
        flagged_progs = set()
        mech_count = collections.Counter()
        cache = c01_run.OrtSessionCache()
        cache.__enter__()
        worker = c01_run.OrtWorker(timeout=20)
        loop_else_probe(ctx, wd, worker, stats)
        nested_def_probe(ctx, wd, worker, stats)
        c01_eager.by_construction(ctx, wd, worker, stats)
        collector = c01_eager.Collector(limit=260 if quick else 1500)
        for d in decorated:
            if not d.accepted:
                stats["refused"] += 1
                continue
            stats["accepted"] += 1
            if stats["accepted"] > n_oracle:
                continue
            flagged, mech = direct_oracle(ctx, d, stats, n_sets, _random.Random(input_seeds[d.idx]), worker, collector)
            for k, v in mech.items():
                mech_count[k] += 1 if v else 0
            if flagged:
                flagged_progs.add(d.idx)
            if d.idx < 2:
                ctx.sample({"source": d.source})
        phases["direct_oracle_s"] = round(_time.time() - t1, 1)
        t1 = _time.time()
        closure_stream(ctx, wd, decorated, n_sets, worker, input_seeds, int((12 if quick else 120) * scale), stats)
        phases["enclosing_scope_stream_s"] = round(_time.time() - t1, 1)
        t1 = _time.time()
        c01_eager.correspond(ctx, collector, flagged_progs)
        phases["eager_trace_correspondence_s"] = round(_time.time() - t1, 1)
        # ---- subscript stream: collected from the child process started above
        t1 = _time.time()
        res = sub_child.collect(ctx)
        if res is not None:
            sstats.update(res["stats"])
            sfeats.update(res["features"])
            for k, v in res["mechanisms"].items():
                mech_count[k] += v
            phases["subscript_stream_s"] = res["seconds"]
        phases["subscript_stream_wait_s"] = round(_time.time() - t1, 1)
        # a model/implementation disagreement: the direct oracle has been evaluated on the program; if the property
        # failed there it is reported above with its input, otherwise the tie is broken
        for d, fp, acc, loops in broken:
            if d.idx in flagged_progs:
                continue
            ctx.tie_broken("correspondence", "translate:" + fp["name"],
                           ("real converter " + ("accepted" if acc else "refused") + ", Script/Translate.v differs, on\n") + d.source)
        ctx.obligation(f"correspondence translate: Script/Translate.v = real function_ir (ops, arities, names, subgraph interfaces) on {n} functions "
                       f"({len(explained)} explained by the confirmed defects the model's legacy switch reproduces)", not broken)
    finally:
        sub_child.kill()
        try:
            cache.__exit__(None, None, None)
            worker.close()
            stats["ort_timeouts"] = worker.timeouts
        except Exception:  # noqa: BLE001
            pass
        wd.close()
    ctx.obligation("generator not degenerate: at least half of the programs are accepted by the decorator", stats["accepted"] * 2 >= n_prog,
                   f"accepted {stats['accepted']} of {n_prog + n_corpus}")
    ctx.obligation("subscript stream not degenerate: at least half of its programs are accepted by the decorator",
                   sstats["accepted"] * 2 >= len(sub_programs), f"accepted {sstats['accepted']} of {len(sub_programs)}")
    ctx.assume("subscript stream: Script/Syntax.v has no subscript expression, so programs containing subscripts are checked by the "
               "four-way direct oracle only (eager / ModelProto on onnxruntime / one-node model calling the FunctionProto / NumPy basic "
               "indexing); no theorem and no skeleton correspondence covers them.  Index forms recorded as known findings of C11 "
               "(tensor indices of rank >= 1, negative-step slices with a negative or run-time start) are not generated")
    ctx.cover(subscript_stream=dict(programs=n_sub, corpus_programs=n_sub_corpus, features=dict(sorted(sfeats.items())), **dict(sstats)),
              subscript_rule="same typed grammar with tensor subscripts as expressions at every nesting position (top level, then/else "
                             "branches, for/while bodies, after the statement): integer indices (a negative one only alone), slices with "
                             "literal bounds from {0,1,2,3,-1,-2,5,-5} / omitted / steps 1,2,-1,-2, bounds that are INT64 inputs, loop "
                             "variables, int attribute parameters or module constants (+-1), up to rank indices, full-extent slices, "
                             "subscripts of expressions; decoy module globals named like locals / parameters; extents 0..4 never below "
                             "what the constant indices need")
    ctx.cover(rule="typed random programs of the ONNX Script subset (see C02) x >= 3 input sets (rank 0-3, a size-1 and a size-0 dim, "
                   "0, +-1, negative, large, attribute values with and without defaults); four executions compared: eager, ModelProto on "
                   "onnxruntime, one-node model calling the FunctionProto, NumPy reading; distinct key = control-flow skeleton",
              programs=n_prog, corpus_programs=n_corpus, mechanisms_present=dict(mech_count), phase_seconds=phases, **dict(stats))
    if ctx.tier == "thorough":
        ctx.coqchk(["Props.C01"])
