(* C09 -- the comparison used at every shape-reading site (model file, no proofs).
   Gen/ShapeUsers.v `comparisons` is regenerated from the source on every run (harness/c09_users.py, Python ast,
   fail-closed): for every module-level function / class of the anchored files that reads shape information, every
   comparison of its body in source order.  This file holds
     - `expected`: the list the models were written against (a changed, added or removed comparison in any of these
       units -- e.g. same_dim -> ==, a dropped isinstance guard, < -> <= -- makes `comparisons_okb` false even when no
       generator reaches the site), and
     - `dim_sites`: the comparisons that are about dims / shapes / ranks, each with the kind of comparison the models
       assume there and the C09 theorem that models it (the harness checks the names against Props/C09*.v).
   Kinds:  KSameDim / KSameShape / KKnownEqual = the unknown-aware helpers;  K*Guard = a guard that makes the following
   Python comparison a comparison of ints (or refuses unknown dims);  KPyCmpInts = Python comparison whose operands are
   ints by a guard;  KPyEqDimsGuarded = SymbolicDim.__eq__ after an unknown-dim guard;  KPyEqDimsAgainstInts = dims
   compared with ints (a SymbolicDim never equals an int);  KPyEqDimsMergeOnly = `==` that only selects which dim to
   keep;  KNameEqGuarded = names compared after a None guard;  KRank = ranks (valuation independent);  KMerge. *)
From Coq Require Import String List Bool.
Require Import OV.Gen.ShapeUsers.
Import ListNotations.
Local Open Scope string_scope.

Inductive cmp_kind := KSameDim | KSameShape | KKnownEqual | KStaticGuard | KIntGuard | KUnknownGuard | KPyCmpInts
                    | KPyEqDimsGuarded | KPyEqDimsAgainstInts | KPyEqDimsMergeOnly | KNameEqGuarded | KRank | KMerge.

Definition expected : list (string * list string) := [
  ("_constant_folding.py:_process_constant_node", ["NotEq: len(node.attributes) ; 1";
      "NotEq: len(node.outputs) ; 1";
      "In: attr_name ; {'value_float', 'value_floats'}";
      "In: attr_name ; {'value_int', 'value_ints'}";
      "In: attr_name ; {'value_string', 'value_strings'}";
      "Eq: attr_name ; 'value'"]);
  ("_constant_folding.py:OptimizerState", ["Eq: const_value.ndim ; 1";
      "isinstance: sym_value ; ir.Shape"]);
  ("_constant_folding.py:_same_shape", ["isinstance: dim ; ir.SymbolicDim";
      "Eq: shape1.dims ; shape2.dims"]);
  ("_constant_folding.py:add", ["NotEq: len(shape_value) ; 1";
      "isinstance: dim ; int";
      "isinstance: dim0 ; int";
      "isinstance: dim1 ; int";
      "isinstance: dim0 ; int";
      "Lt: dim0 ; 0";
      "isinstance: dim1 ; int";
      "Lt: dim1 ; 0"]);
  ("_constant_folding.py:abs", ["isinstance: d ; int";
      "Lt: d ; 0"]);
  ("_constant_folding.py:gather", ["NotEq: axis ; 0";
      "NotEq: indices_numpy_value.ndim ; 1";
      "isinstance: d ; int"]);
  ("_constant_folding.py:_propagate_shape_value", []);
  ("_constant_folding.py:reshape", ["LtE: len(shape_value) ; 1";
      "call _same_shape: input_shape ; shape_value"]);
  ("_constant_folding.py:shape", ["isinstance: d ; int"]);
  ("_constant_folding.py:size", ["isinstance: d ; int"]);
  ("_constant_folding.py:identity", ["call _merge_shapes: input.shape ; output.shape"]);
  ("_constant_folding.py:sequence_construct", []);
  ("_constant_folding.py:concat", ["Eq: len(inputs) ; 1";
      "Eq: dim_size ; 0";
      "NotEq: len(shape) ; len(ref_shape)";
      "LtE,Lt: -rank ; axis ; rank";
      "Eq: i ; axis % rank";
      "isinstance: dim ; int";
      "isinstance: ref_dim ; int";
      "NotEq: dim ; ref_dim";
      "NotEq: dim.value ; ref_dim.value";
      "In: False ; zero_size";
      "Eq: i ; ref_index";
      "NotEq: len(new_inputs) ; len(inputs)";
      "Eq: len(new_inputs) ; 1";
      "NotEq: axis ; 0"]);
  ("_constant_folding.py:expand", ["NotEq: len(node.inputs) ; 2";
      "call _same_shape: input_shape ; expanded_sym_shape";
      "NotEq: expanded_shape.ndim ; 1";
      "Eq: input_shape.dims ; tuple(expanded_shape.tolist())"]);
  ("_constant_folding.py:concat_from_sequence", ["Eq: new_axis ; 0";
      "Eq: new_axis ; 1"]);
  ("_constant_folding.py:split_to_sequence", ["Eq: len(node.inputs) ; 1";
      "Lt: axis ; 0";
      "Lt: axis ; 0";
      "GtE: axis ; rank";
      "call is_static:  @split.shape";
      "Eq: len(split_shape) ; 1";
      "isinstance: split_dimension_size ; int";
      "Eq: split_value.ndim ; 1";
      "Eq: split_value.ndim ; 0";
      "isinstance: split_dimension_size ; int";
      "LtE: split_size ; 0";
      "NotEq: split_dimension_size % split_size ; 0";
      "Eq: keepdims ; 0"]);
  ("_constant_folding.py:sequence_at", ["NotEq: position_val.size ; 1"]);
  ("_constant_folding.py:_merge_shapes", ["Eq: dim1 ; dim2";
      "isinstance: dim1 ; ir.SymbolicDim";
      "isinstance: dim2 ; ir.SymbolicDim";
      "NotEq: len(preferred_shape) ; len(other_shape)"]);
  ("_constant_folding.py:FoldConstantsPass", ["In: output.name ; output_types";
      "call _merge_shapes: output.shape ; inferred_shape";
      "In: output_array.dtype.kind ; ('O', 'S', 'U')";
      "Gt: output_array.size ; self.output_size_limit";
      "Eq: len(input_val.uses()) ; 1";
      "Gt: increased_size ; 0";
      "NotIn: node.domain ; self._opset_imports";
      "Is: should_fold ; False";
      "Gt: tensor.size ; self.input_size_limit";
      "Eq: len(node.inputs) ; len(large_inputs)";
      "In: (node.domain, node.op_type) ; _DEFAULT_ALWAYS_FOLD_OPS";
      "Eq: len(input.consumers()) ; 1";
      "Eq: av.type ; ir.AttributeType.TENSOR";
      "Eq: len(node.outputs) ; 1";
      "Eq: attr.type ; ir.AttributeType.GRAPH";
      "Eq: attr.type ; ir.AttributeType.GRAPHS"]);
  ("_basic_rules.py:SqueezeReshape", ["call has_rank: x ; 1 @ir_utils"]);
  ("_basic_rules.py:ExpandIdentity", ["NotEq: x_shape.dims ; tuple(shape.const_value.numpy().tolist())"]);
  ("_basic_rules.py:ReshapeReshape", ["isinstance: dim ; int";
      "Gt: dim ; 0";
      "Eq: self._allowzero ; 1";
      "Eq: self._new_shape ; 0";
      "Eq: self._new_shape ; 0";
      "Lt: self._new_shape ; 0";
      "Gt: np.count_nonzero(self._new_shape == 0) ; 1";
      "Eq: self._new_shape ; 0";
      "Eq: self._new_shape ; 0"]);
  ("_basic_rules.py:SlicesSplit", ["NotEq: axes0.const_value.numpy().tolist() ; axes1.const_value.numpy().tolist()";
      "NotEq: len(axes) ; 1";
      "NotEq: axes[0] ; -1";
      "NotEq: axes[0] ; rank - 1";
      "NotEq: begin0.const_value.numpy().tolist() ; [0]";
      "NotEq: e0[0] ; b1[0]";
      "isinstance: last_dim ; int";
      "NotEq: last_dim ; e1[0]";
      "NotEq: last_dim // 2 ; b1[0]";
      "LtE: last_dim ; 0";
      "NotEq: last_dim % 2 ; 0";
      "Lt: context.graph_or_function.opset_imports.get('', 0) ; 18"]);
  ("_basic_rules.py:Flatten2Reshape", ["Lt: axis ; 0";
      "Eq: axis ; 0";
      "Eq: axis ; 1";
      "Eq: axis ; input_rank";
      "isinstance: dim ; int";
      "isinstance: dim ; int";
      "isinstance: dim ; int";
      "Gt: np.count_nonzero(self._new_shape == -1) ; 1";
      "Eq: self._new_shape ; -1";
      "isinstance: dim ; int";
      "Eq: dim ; 0"]);
  ("_collapse_slices.py:_check_if_redundant_slice", ["NotEq: starts_const.numpy().size ; 1";
      "NotEq: ends_const.numpy().size ; 1";
      "NotEq: axes_const.numpy().size ; 1";
      "NotEq: steps_const.numpy().size ; 1";
      "NotEq: steps_const.numpy().item() ; 1";
      "NotEq: starts_const.numpy().item() ; 0";
      "Eq: ends_const.numpy().item() ; _INT64_MAX";
      "call is_dynamic: axes_const.numpy().item() @data.shape";
      "Lt: ends_const.numpy().item() ; data.shape[axes_const.numpy().item()]"]);
  ("_collapse_slices.py:_same_shape", ["Eq: s ; 1";
      "call same_shape: data.shape ; slice_output.shape @_ir_utils"]);
  ("_materialize_reshape_shape.py:MaterializeReshapeShape", ["isinstance: d ; int";
      "Eq: sym_count ; 1";
      "isinstance: d ; int";
      "Eq: d ; 0";
      "LtE: sym_count ; 1";
      "isinstance: d ; int"]);
  ("_remove_expand_before_binary_op.py:_known_equal", ["isinstance: d1 ; ir.SymbolicDim";
      "isinstance: d2 ; ir.SymbolicDim";
      "Eq: d1 ; d2"]);
  ("_remove_expand_before_binary_op.py:_compute_broadcast_shape", ["GtE: idx1 ; 0";
      "GtE: idx2 ; 0"]);
  ("_remove_expand_before_binary_op.py:_check_dims_sufficient", ["Gt: e_rank ; max(x_rank, y_rank)";
      "isinstance: e_d ; int";
      "Eq: e_d ; 1";
      "GtE: x_idx ; 0";
      "call _known_equal: x_d ; e_d";
      "GtE: y_idx ; 0";
      "call _known_equal: y_d ; e_d"]);
  ("_remove_expand_before_binary_op.py:_check_expand_removable", ["Gt: expand_rank ; max(x_rank, y_rank)";
      "Eq: e_d ; 1";
      "GtE: x_idx ; 0";
      "isinstance: x_d ; int";
      "Eq: x_d ; e_d";
      "GtE: y_idx ; 0";
      "isinstance: y_d ; int";
      "Eq: y_d ; e_d";
      "Eq: len(computed) ; op_output_shape.rank()";
      "call _known_equal: c ; a"]);
  ("_redundant_scatter_nd.py:ScatterAllDynamic", ["isinstance: axis_value ; int";
      "call same_dim: updated_dim_value ; actual_dim_value @_ir_utils"]);
  ("_redundant_scatter_nd.py:ScatterAllStatic", ["NotEq: context.root.attributes.get_string('reduction', 'none') ; 'none'";
      "Eq: len(data.shape) ; 0";
      "isinstance: data.shape[0] ; int";
      "call same_shape: data.shape ; updates.shape @_ir_utils";
      "NotEq: actual_indices ; expected_indices"]);
  ("_broadcast_to_matmul.py:check_if_not_need_reshape", ["NotEq: len(shape_c_tensor.shape) ; 1";
      "isinstance: dim ; ir.SymbolicDim";
      "isinstance: dim ; ir.SymbolicDim";
      "Eq: a_rank ; 0";
      "Eq: b_rank ; 0";
      "Lt: a_rank ; 2";
      "Lt: b_rank ; 2";
      "NotEq: input_a_shape[-1] ; input_b_shape[-2]";
      "Lt: b_rank ; 2";
      "NotEq: input_b_shape[-1] ; input_a_shape[-1]";
      "Eq: idx ; 0";
      "NotEq: dim_from_a ; dim_from_b";
      "NotIn: dim_from_a ; {1, dim_from_b}";
      "Gt: idx ; 0";
      "Gt: a_rank ; b_rank";
      "Eq: b_rank ; 2";
      "Eq: input_b_shape[-1] ; 1";
      "Eq: a_rank ; 2";
      "Eq: input_a_shape[0] ; 1";
      "NotEq: shape_c ; broadcast_matmul_output_shape"]);
  ("_ir_utils.py:has_rank", ["Eq: shape.rank() ; rank"]);
  ("_ir_utils.py:broadcast_keeps_rank", ["LtE: rank ; 1";
      "LtE: rank ; reference.shape.rank()"]);
  ("_ir_utils.py:get_dim", ["Lt: dim ; 0";
      "Lt: dim ; 0";
      "GtE: dim ; shape.rank()"]);
  ("_ir_utils.py:same_shape", ["call has_unknown_dim:  @shape1";
      "call has_unknown_dim:  @shape2";
      "Eq: shape1 ; shape2"]);
  ("_ir_utils.py:same_dim", ["IsNot: type(dim1) ; type(dim2)";
      "isinstance: dim1 ; int";
      "isinstance: dim2 ; int";
      "Eq: dim1 ; dim2";
      "isinstance: dim1 ; ir.SymbolicDim";
      "isinstance: dim2 ; ir.SymbolicDim";
      "Eq: dim1.value ; dim2.value"])
].

(* (unit, comparison, kind assumed by the models, theorem) *)
Definition dim_sites : list (string * string * cmp_kind * string) := [
  ("_redundant_scatter_nd.py:ScatterAllDynamic", "call same_dim: updated_dim_value ; actual_dim_value @_ir_utils", KSameDim, "C09_scatter_dyn_sound");
  ("_redundant_scatter_nd.py:ScatterAllStatic", "call same_shape: data.shape ; updates.shape @_ir_utils", KSameShape, "C09_scatter_static_sound");
  ("_redundant_scatter_nd.py:ScatterAllStatic", "isinstance: data.shape[0] ; int", KIntGuard, "C09_scatter_static_sound");
  ("_collapse_slices.py:_same_shape", "call same_shape: data.shape ; slice_output.shape @_ir_utils", KSameShape, "C09_iu_same_shape_sound");
  ("_collapse_slices.py:_check_if_redundant_slice", "call is_dynamic: axes_const.numpy().item() @data.shape", KStaticGuard, "C09_collapse_slice1_sound");
  ("_collapse_slices.py:_check_if_redundant_slice", "Lt: ends_const.numpy().item() ; data.shape[axes_const.numpy().item()]", KPyCmpInts, "C09_collapse_slice1_sound");
  ("_constant_folding.py:reshape", "call _same_shape: input_shape ; shape_value", KSameShape, "C09_reshape_identity_sound");
  ("_constant_folding.py:expand", "call _same_shape: input_shape ; expanded_sym_shape", KSameShape, "C09_expand_identity_sound");
  ("_constant_folding.py:expand", "Eq: input_shape.dims ; tuple(expanded_shape.tolist())", KPyEqDimsAgainstInts, "C09_expand_identity_const_sound");
  ("_constant_folding.py:_same_shape", "isinstance: dim ; ir.SymbolicDim", KUnknownGuard, "C09_cf_same_shape_sound");
  ("_constant_folding.py:_same_shape", "Eq: shape1.dims ; shape2.dims", KPyEqDimsGuarded, "C09_cf_same_shape_sound");
  ("_constant_folding.py:identity", "call _merge_shapes: input.shape ; output.shape", KMerge, "C09_merge_shapes_sound");
  ("_constant_folding.py:_merge_shapes", "Eq: dim1 ; dim2", KPyEqDimsMergeOnly, "C09_merge_shapes_sound");
  ("_constant_folding.py:_merge_shapes", "isinstance: dim1 ; ir.SymbolicDim", KIntGuard, "C09_merge_dims_keeps_int");
  ("_constant_folding.py:_merge_shapes", "isinstance: dim2 ; ir.SymbolicDim", KIntGuard, "C09_merge_dims_keeps_int");
  ("_constant_folding.py:concat", "Eq: dim_size ; 0", KPyEqDimsAgainstInts, "C09_concat_drop_shape_sound");
  ("_constant_folding.py:concat", "isinstance: dim ; int", KIntGuard, "C09_concat_drop_fixed_accepts_exactly");
  ("_constant_folding.py:concat", "isinstance: ref_dim ; int", KIntGuard, "C09_concat_drop_fixed_accepts_exactly");
  ("_constant_folding.py:concat", "NotEq: dim ; ref_dim", KPyCmpInts, "C09_concat_drop_fixed_accepts_exactly");
  ("_constant_folding.py:concat", "NotEq: dim.value ; ref_dim.value", KNameEqGuarded, "C09_keq_except_sound");
  ("_constant_folding.py:size", "isinstance: d ; int", KIntGuard, "C09_size_fold_static_iff");
  ("_constant_folding.py:shape", "isinstance: d ; int", KIntGuard, "C09_shape_value_constant_fold_sound");
  ("_constant_folding.py:gather", "isinstance: d ; int", KIntGuard, "C09_shape_value_constant_fold_sound");
  ("_constant_folding.py:abs", "isinstance: d ; int", KIntGuard, "C09_abs_identity_sound");
  ("_constant_folding.py:abs", "Lt: d ; 0", KPyCmpInts, "C09_abs_identity_sound");
  ("_constant_folding.py:add", "isinstance: dim0 ; int", KIntGuard, "C09_shape_value_nonneg");
  ("_constant_folding.py:add", "Lt: dim0 ; 0", KPyCmpInts, "C09_shape_value_nonneg");
  ("_constant_folding.py:add", "Lt: dim1 ; 0", KPyCmpInts, "C09_shape_value_nonneg");
  ("_constant_folding.py:split_to_sequence", "call is_static:  @split.shape", KStaticGuard, "C09_static_shape_valuation_independent");
  ("_constant_folding.py:split_to_sequence", "isinstance: split_dimension_size ; int", KIntGuard, "C09_split_scalar_sound");
  ("_constant_folding.py:split_to_sequence", "LtE: split_size ; 0", KPyCmpInts, "C09_split_scalar_emitted_accepts_iff");
  ("_constant_folding.py:split_to_sequence", "NotEq: split_dimension_size % split_size ; 0", KPyCmpInts, "C09_split_scalar_emitted_accepts_iff");
  ("_constant_folding.py:split_to_sequence", "Eq: keepdims ; 0", KPyCmpInts, "C09_split_vector_keepdims0_refuted");
  ("_constant_folding.py:sequence_at", "NotEq: position_val.size ; 1", KPyCmpInts, "C09_seq_at_accepts_iff");
  ("_basic_rules.py:SqueezeReshape", "call has_rank: x ; 1 @ir_utils", KRank, "C09_squeeze_reshape_1d_sound");
  ("_basic_rules.py:ExpandIdentity", "NotEq: x_shape.dims ; tuple(shape.const_value.numpy().tolist())", KPyEqDimsAgainstInts, "C09_expand_identity_const_sound");
  ("_basic_rules.py:ReshapeReshape", "isinstance: dim ; int", KIntGuard, "C09_reshape_reshape_annotated_sound");
  ("_basic_rules.py:ReshapeReshape", "Gt: dim ; 0", KPyCmpInts, "C09_reshape_reshape_annotated_sound");
  ("_basic_rules.py:ReshapeReshape", "Eq: self._allowzero ; 1", KPyCmpInts, "C09_reshape_reshape_accepts_iff");
  ("_basic_rules.py:ReshapeReshape", "Lt: self._new_shape ; 0", KPyCmpInts, "C09_reshape_reshape_zero_copy_exact");
  ("_basic_rules.py:ReshapeReshape", "Gt: np.count_nonzero(self._new_shape == 0) ; 1", KPyCmpInts, "C09_reshape_reshape_zero_copy_exact");
  ("_basic_rules.py:SlicesSplit", "isinstance: last_dim ; int", KIntGuard, "C09_slices_split_sound");
  ("_basic_rules.py:SlicesSplit", "NotEq: last_dim ; e1[0]", KPyCmpInts, "C09_slices_split_sound");
  ("_basic_rules.py:SlicesSplit", "NotEq: last_dim // 2 ; b1[0]", KPyCmpInts, "C09_slices_split_last_dim_necessary");
  ("_basic_rules.py:SlicesSplit", "LtE: last_dim ; 0", KPyCmpInts, "C09_slices_split_accepts_iff");
  ("_basic_rules.py:SlicesSplit", "NotEq: last_dim % 2 ; 0", KPyCmpInts, "C09_slices_split_sound");
  ("_basic_rules.py:SlicesSplit", "NotEq: axes[0] ; rank - 1", KRank, "C09_slices_split_accepts_iff");
  ("_basic_rules.py:Flatten2Reshape", "Eq: dim ; 0", KPyCmpInts, "C09_flatten_target_correct_iff");
  ("_basic_rules.py:Flatten2Reshape", "Eq: axis ; input_rank", KRank, "C09_flatten_target_correct_iff");
  ("_materialize_reshape_shape.py:MaterializeReshapeShape", "isinstance: d ; int", KIntGuard, "C09_materialize_reshape_sound");
  ("_materialize_reshape_shape.py:MaterializeReshapeShape", "Eq: d ; 0", KPyCmpInts, "C09_materialize_reshape_sound");
  ("_materialize_reshape_shape.py:MaterializeReshapeShape", "LtE: sym_count ; 1", KPyCmpInts, "C09_materialize_reshape_sound");
  ("_remove_expand_before_binary_op.py:_known_equal", "isinstance: d1 ; ir.SymbolicDim", KUnknownGuard, "C09_expand_binop_shape_sound");
  ("_remove_expand_before_binary_op.py:_known_equal", "isinstance: d2 ; ir.SymbolicDim", KUnknownGuard, "C09_expand_binop_shape_sound");
  ("_remove_expand_before_binary_op.py:_known_equal", "Eq: d1 ; d2", KPyEqDimsGuarded, "C09_expand_binop_shape_sound");
  ("_remove_expand_before_binary_op.py:_check_dims_sufficient", "call _known_equal: x_d ; e_d", KKnownEqual, "C09_expand_binop_s2_sound");
  ("_remove_expand_before_binary_op.py:_check_dims_sufficient", "call _known_equal: y_d ; e_d", KKnownEqual, "C09_expand_binop_s2_sound");
  ("_remove_expand_before_binary_op.py:_check_dims_sufficient", "Gt: e_rank ; max(x_rank, y_rank)", KRank, "C09_expand_binop_s2_sound");
  ("_remove_expand_before_binary_op.py:_check_expand_removable", "Gt: expand_rank ; max(x_rank, y_rank)", KRank, "C09_expand_binop_s1_sound");
  ("_remove_expand_before_binary_op.py:_check_expand_removable", "isinstance: x_d ; int", KIntGuard, "C09_expand_binop_s1_sound");
  ("_remove_expand_before_binary_op.py:_check_expand_removable", "Eq: x_d ; e_d", KPyCmpInts, "C09_expand_binop_s1_sound");
  ("_remove_expand_before_binary_op.py:_check_expand_removable", "isinstance: y_d ; int", KIntGuard, "C09_expand_binop_s1_sound");
  ("_remove_expand_before_binary_op.py:_check_expand_removable", "Eq: y_d ; e_d", KPyCmpInts, "C09_expand_binop_s1_sound");
  ("_remove_expand_before_binary_op.py:_check_expand_removable", "call _known_equal: c ; a", KKnownEqual, "C09_expand_binop_s3_sound");
  ("_broadcast_to_matmul.py:check_if_not_need_reshape", "isinstance: dim ; ir.SymbolicDim", KStaticGuard, "C09_b2m_guard_static");
  ("_broadcast_to_matmul.py:check_if_not_need_reshape", "NotEq: input_a_shape[-1] ; input_b_shape[-2]", KPyCmpInts, "C09_b2m_check_sound");
  ("_broadcast_to_matmul.py:check_if_not_need_reshape", "NotIn: dim_from_a ; {1, dim_from_b}", KPyCmpInts, "C09_b2m_check_sound");
  ("_broadcast_to_matmul.py:check_if_not_need_reshape", "NotEq: shape_c ; broadcast_matmul_output_shape", KPyCmpInts, "C09_b2m_check_sound");
  ("_ir_utils.py:has_rank", "Eq: shape.rank() ; rank", KRank, "C09_rank_valuation_independent");
  ("_ir_utils.py:broadcast_keeps_rank", "LtE: rank ; reference.shape.rank()", KRank, "C09_broadcast_keeps_rank_sound");
  ("_ir_utils.py:same_shape", "call has_unknown_dim:  @shape1", KUnknownGuard, "C09_iu_same_shape_sound");
  ("_ir_utils.py:same_shape", "call has_unknown_dim:  @shape2", KUnknownGuard, "C09_iu_same_shape_sound");
  ("_ir_utils.py:same_shape", "Eq: shape1 ; shape2", KPyEqDimsGuarded, "C09_iu_same_shape_sound");
  ("_ir_utils.py:same_dim", "IsNot: type(dim1) ; type(dim2)", KIntGuard, "C09_same_dim_sound");
  ("_ir_utils.py:same_dim", "Eq: dim1 ; dim2", KPyCmpInts, "C09_same_dim_sound");
  ("_ir_utils.py:same_dim", "Eq: dim1.value ; dim2.value", KNameEqGuarded, "C09_same_dim_sound");
  ("_ir_utils.py:same_dim", "isinstance: dim1 ; ir.SymbolicDim", KUnknownGuard, "C09_same_dim_sound")
].

Fixpoint lookup (k : string) (t : list (string * list string)) : option (list string) :=
  match t with [] => None | (k', v) :: t' => if String.eqb k k' then Some v else lookup k t' end.
Fixpoint list_eqb (a b : list string) : bool :=
  match a, b with [] , [] => true | x :: a', y :: b' => String.eqb x y && list_eqb a' b' | _, _ => false end.
(* units with a known repaired variant (a proposed patch that the models follow: see the variant probes of the harness):
   the comparison list of the patched unit is accepted as well *)
Definition alternatives : list (string * list string) := [
  (* proposed_fixes/C09_split_to_sequence_empty_axis.diff: `if split_dimension_size <= 0: return None` *)
  ("_constant_folding.py:split_to_sequence", ["Eq: len(node.inputs) ; 1";
      "Lt: axis ; 0";
      "Lt: axis ; 0";
      "GtE: axis ; rank";
      "call is_static:  @split.shape";
      "Eq: len(split_shape) ; 1";
      "isinstance: split_dimension_size ; int";
      "Eq: split_value.ndim ; 1";
      "Eq: split_value.ndim ; 0";
      "isinstance: split_dimension_size ; int";
      "LtE: split_size ; 0";
      "LtE: split_dimension_size ; 0";
      "NotEq: split_dimension_size % split_size ; 0";
      "Eq: keepdims ; 0"]);
  (* proposed_fixes/C09_scatter_dynamic_shape_end.diff: check() refuses a Shape node that has an `end` attribute *)
  ("_redundant_scatter_nd.py:ScatterAllDynamic", ["isinstance: axis_value ; int";
      "Eq: node.op_type ; 'Shape'";
      "In: 'end' ; node.attributes";
      "call same_dim: updated_dim_value ; actual_dim_value @_ir_utils"])
].
Definition unit_eqb (k : string) (x y : list string) : bool :=
  list_eqb x y || match lookup k alternatives with Some z => list_eqb z y | None => false end.
Fixpoint table_eqb (a b : list (string * list string)) : bool :=
  match a, b with
  | [], [] => true
  | (k, x) :: a', (k', y) :: b' => String.eqb k k' && unit_eqb k x y && table_eqb a' b'
  | _, _ => false
  end.
Definition site_present (gen : list (string * list string)) (s : string * string * cmp_kind * string) : bool :=
  let '(u, t, _, _) := s in match lookup u gen with Some l => existsb (String.eqb t) l | None => false end.
Definition comparisons_okb : bool := table_eqb expected comparisons && forallb (site_present comparisons) dim_sites.

(* for the harness' message: units whose comparison list differs (or that are new / gone), sites that are gone *)
Definition changed_units : list string :=
  map fst (filter (fun e => match lookup (fst e) expected with Some l => negb (unit_eqb (fst e) l (snd e)) | None => true end) comparisons)
  ++ map (fun e => "gone:" ++ fst e) (filter (fun e => match lookup (fst e) comparisons with Some _ => false | None => true end) expected).
Definition missing_sites : list string :=
  map (fun s => let '(u, t, _, _) := s in u ++ " :: " ++ t) (filter (fun s => negb (site_present comparisons s)) dim_sites).
Definition cited_sites : list string := map (fun s => let '(_, _, _, th) := s in th) dim_sites.
Definition n_sites : nat := List.length dim_sites.
Definition n_comparisons : nat := List.length (flat_map snd comparisons).
