(* Model of ScatterAllStatic (_redundant_scatter_nd.py) (C05): ScatterND(data, indices, updates) with
   indices = [[0],[1],..,[n-1]] over the first axis.  A tensor is the list of its rows.  No proofs in this file. *)
From Coq Require Import ZArith List Bool Arith.
Import ListNotations.

Fixpoint set_nth {A} (i : nat) (u : A) (l : list A) : list A :=
  match l, i with
  | [], _ => []
  | _ :: t, O => u :: t
  | x :: t, S i' => x :: set_nth i' u t
  end.
(* output = copy(data); for i: output[indices[i]] = f(output[indices[i]], updates[i])   (f = "take the update" for reduction none) *)
Definition scatter {A} (f : A -> A -> A) (data : list A) (idx : list nat) (upd : list A) : list A :=
  fold_left (fun acc p => match nth_error acc (fst p) with Some old => set_nth (fst p) (f old (snd p)) acc | None => acc end)
            (combine idx upd) data.
Definition take_update {A} (old new : A) : A := new.

Inductive dim := St (d : Z) | Sy (name : nat) | Un.        (* static, named symbolic, unknown *)
Definition dim_eqb (a b : dim) : bool :=
  match a, b with St x, St y => Z.eqb x y | Sy x, Sy y => Nat.eqb x y | _, _ => false end.
Fixpoint shape_eqb (a b : list dim) : bool :=
  match a, b with [] , [] => true | x :: a', y :: b' => dim_eqb x y && shape_eqb a' b' | _, _ => false end.
Definition has_unknown (s : list dim) : bool := existsb (fun d => match d with Un => true | _ => false end) s.

Inductive outcome := NoFire | Raises | Fire.
Definition z_list_eqb (a b : list Z) : bool :=
  Nat.eqb (length a) (length b) && forallb (fun q => Z.eqb (fst q) (snd q)) (combine a b).
(* indices given as the list of its rows (None: not a constant) *)
Definition sa_check (dshape ushape : option (list dim)) (indices : option (list (list Z))) : outcome :=
  match dshape, ushape with
  | Some ds, Some us =>
      if has_unknown ds || has_unknown us || negb (shape_eqb ds us) then NoFire else
      match indices with
      | None => NoFire
      | Some rows =>
          match ds with
          | St n :: _ =>
              let expected := map (fun i => [Z.of_nat i]) (seq 0 (Z.to_nat n)) in
              if (Nat.eqb (length rows) (length expected)) && forallb (fun q => z_list_eqb (fst q) (snd q)) (combine rows expected)
              then Fire else NoFire
          | _ => Raises                       (* range(SymbolicDim) / shape[0] of a rank-0 shape *)
          end
      end
  | _, _ => NoFire
  end.

Definition outcome_eqb (a b : outcome) : bool :=
  match a, b with NoFire, NoFire | Raises, Raises | Fire, Fire => true | _, _ => false end.
Definition case := (option (list dim) * option (list dim) * option (list (list Z)) * outcome)%type.
(* correspondence is one-directional, as the property is: what the implementation did must be permitted by the model;
   not firing is always permitted (a stricter check is never a C05 violation) *)
Definition permits (m o : outcome) : bool := match o with NoFire => true | _ => outcome_eqb m o end.
Definition agrees (c : case) : bool := let '(d, u, i, o) := c in permits (sa_check d u i) o.
Fixpoint disagreeing (i : nat) (l : list case) : list nat :=
  match l with [] => [] | c :: t => (if agrees c then [] else [i]) ++ disagreeing (S i) t end.

(* ---------------------------------------------------------------- ScatterAllDynamic (_redundant_scatter_nd.py)
   pattern: ScatterND(transposed_data, Unsqueeze(Range(0, Gather(Shape(data), axis), 1), [-1]), updates, reduction="none")
   check:   axis is a one-element integer constant; data.shape and transposed_data.shape are known;
            same_dim(data.shape[axis], transposed_data.shape[0])   (Python indexing: negative axis counts from the back,
            an axis outside [-rank, rank) raises IndexError, as does [0] on a rank-0 shape) *)
Definition py_index {A} (l : list A) (i : Z) : option A :=
  let n := Z.of_nat (length l) in
  if (0 <=? i)%Z && (i <? n)%Z then nth_error l (Z.to_nat i)
  else if (- n <=? i)%Z && (i <? 0)%Z then nth_error l (Z.to_nat (i + n))
  else None.
Definition da_check (dshape tshape : option (list dim)) (axis : option Z) : outcome :=
  match axis, dshape with
  | Some a, Some ds =>
      match py_index ds a with
      | None => Raises
      | Some d =>
          match tshape with
          | None => NoFire
          | Some [] => Raises
          | Some (t0 :: _) => if dim_eqb d t0 then Fire else NoFire
          end
      end
  | _, _ => NoFire
  end.
(* what a declared dim says about a runtime extent under a binding of the symbol names *)
Definition dim_denotes (val : nat -> Z) (d : dim) (x : Z) : Prop :=
  match d with St v => x = v | Sy k => x = val k | Un => True end.
(* Range(0, n, 1) as row indices (Unsqueeze(.., [-1]) makes each a one-element row: the [[0],..,[n-1]] of ScatterAllStatic) *)
Definition full_range (n : Z) : list nat := seq 0 (Z.to_nat n).

Definition dcase := (option (list dim) * option (list dim) * option Z * outcome)%type.
Definition dagrees (c : dcase) : bool := let '(d, t, a, o) := c in permits (da_check d t a) o.
Fixpoint ddisagreeing (i : nat) (l : list dcase) : list nat :=
  match l with [] => [] | c :: t => (if dagrees c then [] else [i]) ++ ddisagreeing (S i) t end.
