"""C19 families inside the Coq model: MultiHeadAttention / sdpa_via_mha / Attention / GroupQueryAttention head algebra and
mask handling, instance->group normalisation, cos/sin cache.

For every instance the REAL rules are applied at rule level (the sequence fuse_xformers uses), the shapes the rule saw
are read from the ir model just before the rule (by value name -- independent of the rule's code), and the observed
decision + attributes are compared INSIDE Coq with the executable models of coq/Fusion/{Attn,GroupNorm,CosSin}.v.
The direct oracle (onnxruntime before/after) runs on every instance."""
from __future__ import annotations

import math

import numpy as np

from harness import c19_attn as A
from harness import c19_misc as M
from harness.c19_build import G, MS, apply_ir, close, find, nodes_of, ops_of, ort_run
from harness.common import cbool, clist, cnat, cz

FUSION_DOMAIN = "ai.onnxruntime._fusion"


# ------------------------------------------------------------------------------------------------ dim encoding
class Codes:
    """int -> itself; named symbolic dim -> -2, -3, ... (one per name); unnamed dim -> -1 -- or, when the implementation never
    equates two unknown dims (fix C19_09; probed by the unnamed-dims witness), a fresh code <= -1000 per occurrence."""
    strict_unknown = False

    def __init__(self):
        self.names = {}
        self.fresh = 0

    def dim(self, d):
        if isinstance(d, int):
            return d
        v = getattr(d, "value", d)
        if v is None:
            if Codes.strict_unknown:
                self.fresh += 1
                return -999 - self.fresh
            return -1
        if isinstance(v, int):
            return v
        return self.names.setdefault(str(v), -2 - len(self.names))

    def shape(self, val):
        if val is None or val.shape is None:
            return None
        return [self.dim(d) for d in val.shape]


def cshape(s):
    return "None" if s is None else f"(Some {clist(s, cz)})"


def values_by_name(model):
    out = {}
    for v in model.graph.inputs:
        out[v.name] = v
    for v in model.graph.initializers.values():
        out[v.name] = v
    for n in model.graph:
        for o in n.outputs:
            out[o.name] = o
    return out


def pick(rng, xs):
    return xs[rng.randrange(len(xs))]


# ------------------------------------------------------------------------------------------------ MHA builder
def mha_model(p):
    """Self attention written the way exporters emit it, every intermediate named.
    B,S,H,Dh; Skv (default S); decl: dict of declared dims {"B":..,"S":..,"Skv":..,"P":..} (str = symbolic, None = unnamed);
    reshape: 'zero' ([0,0,H,Dh]) | 'static' ([B,S,H,Dh]) | 'minus1' ([0,0,-1,Dh]);  key_kind 'T' | 'BSHd';  past: int | None
    mask: shape list | None (mask_decl: declared shape);  scale: as c19_attn;  out_reshape: target of the final Reshape
    near: structural near misses 'out-perm' (final Transpose perm) | 'q-perm' (query Transpose perm)."""
    g = G(opset=18)
    dt = p["dtype"]
    B, S, H, Dh = p["B"], p["S"], p["H"], p["Dh"]
    Skv = p.get("Skv", S)
    D = H * Dh
    decl = p.get("decl", {})
    Bd, Sd, Skd = decl.get("B", B), decl.get("S", S), decl.get("Skv", decl.get("S", S) if Skv == S and "Skv" not in p else Skv)
    q = g.inp("query", dt, [Bd, Sd, D], [B, S, D])
    k = g.inp("key", dt, [Bd, Skd, D], [B, Skv, D])
    v = g.inp("value", dt, [Bd, Skd, D], [B, Skv, D])
    style = p.get("reshape", "zero")

    def to4(t, n, nm):
        tgt = {"zero": [0, 0, H, Dh], "static": [B, n, H, Dh], "minus1": [0, 0, -1, Dh]}[style]
        return g.op("Reshape", [t, g.const(tgt, "int64")], out=nm)
    q4 = to4(q, S, "q4")
    k4 = to4(k, Skv, "k4")
    v4 = to4(v, Skv, "v4")
    qperm = [0, 2, 1, 3] if p.get("near") != "q-perm" else [0, 2, 3, 1]
    qt = g.op("Transpose", [q4], perm=qperm) if p.get("near") != "q-perm" else g.op("Transpose", [g.op("Transpose", [q4], perm=[0, 2, 3, 1])], perm=[0, 1, 3, 2])
    vt = g.op("Transpose", [v4], perm=[0, 2, 1, 3])
    past = p.get("past")
    kseq, vseq = None, vt
    if p["key_kind"] == "T" or past is not None:
        kt4 = g.op("Transpose", [k4], perm=[0, 2, 1, 3])
        if past is not None:
            Pd = decl.get("P", past)
            pk = g.inp("past_key", dt, [Bd, H, Pd, Dh], [B, H, past, Dh])
            pv = g.inp("past_value", dt, [Bd, H, Pd, Dh], [B, H, past, Dh])
            kt4 = g.op("Concat", [pk, kt4], axis=-2)
            vseq = g.op("Concat", [pv, vt], axis=-2)
        kseq = kt4
        ktt = g.op("Transpose", [kt4], perm=[0, 1, 3, 2])
    else:
        ktt = g.op("Transpose", [k4], perm=[0, 2, 3, 1])
    sc = p.get("scale")
    sval = p.get("scale_value", 1.0 / math.sqrt(Dh))
    if sc and sc[0] == "q":
        qt = g.op(sc[1], [qt, g.const(sval if sc[1] == "Mul" else 1.0 / sval, dt)])
    score = g.op("MatMul", [qt, ktt])
    if sc and sc[0] == "qk":
        score = g.op(sc[1], [score, g.const(sval if sc[1] == "Mul" else 1.0 / sval, dt)])
    if p.get("mask") is not None:
        m = g.inp("mask", dt, list(p.get("mask_decl", p["mask"])), list(p["mask"]))
        score = g.op("Add", [score, m])
    w = g.op("Softmax", [score], axis=-1)
    o4 = g.op("MatMul", [w, vseq])
    operm = [0, 2, 1, 3] if p.get("near") != "out-perm" else [0, 1, 2, 3]
    o = g.op("Reshape", [g.op("Transpose", [o4], perm=operm), g.const(p.get("out_reshape", [0, 0, D] if p.get("near") != "out-perm" else [0, S, D]), "int64")])
    g.op("Identity", [o], out="y")
    g.out("y", dt, None)
    if past is not None:
        g.op("Identity", [kseq], out="present_key")
        g.op("Identity", [vseq], out="present_value")
        g.out("present_key", dt, [Bd, H, None, Dh])
        g.out("present_value", dt, [Bd, H, None, Dh])
    return g


def fam_mha(st, probe):
    """mha.py at rule level: ShapeInference; fuse_sdpa; [shapes read here]; fuse_mha1; fuse_mha2; observe; lower what is left."""
    from onnx_ir.passes.common import ShapeInferencePass
    from onnxscript.rewriter.ort_fusions.mha import fuse_mha1, fuse_mha2
    from onnxscript.rewriter.ort_fusions.sdpa import fuse_sdpa
    from onnxscript.rewriter.ort_fusions.sdpa_via_mha import replace_sdpa_by_mha
    ctx, rng = st.ctx, st.ctx.rng
    fam = "mha"
    n = 36 if ctx.tier == "quick" else 320
    fired_n = corr_n = 0
    Codes.strict_unknown = bool(unnamed_dims_witness(st, probe) is False)     # decides how unnamed dims are encoded for the models
    st.flags["unknown_dims_never_equal"] = Codes.strict_unknown
    # always present: every comparison of the mask's leading dims (1 | B, 1 | H with B != H, both > 1), dim 2 (S | 1) and a 2-D mask
    forced = [[1, 3, 3, 3], [2, 3, 3, 3], [2, 1, 1, 3], [2, 3, 1, 3], [3, 3], [1, 3], "unnamed", "unnamed-B"]
    for i in range(n + len(forced)):
        B, S, H = rng.randrange(1, 4), rng.randrange(1, 5), rng.randrange(1, 5)
        if i >= n:
            B, S, H = 2, 3, 3
        Dh = pick(rng, [1, 2, 4, 8, 16])
        p = dict(dtype=pick(rng, ["float32", "float32", "float16"]), B=B, S=S, H=H, Dh=Dh, key_kind=pick(rng, ["T", "T", "BSHd"]),
                 scale=pick(rng, [("qk", "Mul"), ("qk", "Div"), ("q", "Mul"), None]), reshape=pick(rng, ["zero", "zero", "static", "minus1"]))
        if rng.random() < 0.3:
            p["scale_value"] = pick(rng, [0.2, 0.5])        # a non-default scale must reach the fused node
        mode = i % 3 if i < n else 0
        T = S
        if mode == 1:
            p["past"] = rng.randrange(1, 4)
            T = S + p["past"]
        elif mode == 2:
            p["Skv"] = rng.randrange(1, 6)
            T = p["Skv"]
        decl = {}
        u = rng.random()
        if u < 0.35:
            decl = {"B": "B", "S": "S"}
            if "Skv" in p:
                decl["Skv"] = "Skv"
            if "past" in p:
                decl["P"] = "P"
        elif u < 0.45:
            decl = {"B": "B"}
        p["decl"] = decl
        near = None
        mk = rng.random()
        if mk < 0.6:
            p["mask"] = pick(rng, [[B, 1, S, T], [1, 1, S, T], [B, H, S, T], [1, H, S, T], [S, T], [1, T], [B, 1, 1, T], [1, 1, 1, T], [B, H, 1, T]])
        r = rng.random()
        finding = None
        if i >= n and isinstance(forced[i - n], str):
            # query / key / value declared with UNNAMED batch (and sequence) dims: equal as read, never equal with fix C19_09
            r, decl = 1.0, ({"B": None, "S": None} if forced[i - n] == "unnamed" else {"B": None})
            p["decl"] = decl
            p.pop("mask", None)
        elif i >= n:
            r, decl, p["decl"], p["mask"] = 1.0, {}, {}, forced[i - n]
        if r < 0.06:
            near, p["near"] = "out-perm", "out-perm"
        elif r < 0.12:
            near, p["near"] = "q-perm", "q-perm"
        elif r < 0.2 and "mask" in p:
            near = "mask-rank3"
            p["mask"] = [H, S, T] if rng.randrange(2) else [1, S, T]
        elif r < 0.26 and "mask" in p and decl.get("S"):
            near = "mask-dim2-other-symbol"                   # run-time S, declared under another name: cannot be verified
            p["mask"] = [B, 1, S, T]
            p["mask_decl"] = [B, 1, "M", T if not isinstance(T, str) else T]
        elif r < 0.32 and p["reshape"] == "zero":
            near = "symbolic-heads"                              # num_heads not static: rewrite returns None
            p["decl_q4"] = True
        out_tgt = None
        if near is None and i < n and rng.random() < 0.3:
            # the final Reshape's target in its other spellings, incl. ones that do NOT denote [B,S,D] (the known finding's class)
            D_ = H * Dh
            out_tgt = pick(rng, [[0, 0, -1], [B, S, D_], [0, -1, D_], [-1, S, D_], [B, S, -1], [-1, D_], [0, -1, Dh], [B * S, 1, D_], [1, -1, D_]])
            p["out_reshape"] = out_tgt
        g = mha_model(p)
        obs = {}

        def fn(m, _p=p, _obs=obs):
            ShapeInferencePass()(m)
            c = {"sdpa": fuse_sdpa(m, apply_shape_inference=True)}
            vals = values_by_name(m)
            codes = Codes()
            sd = [nd for nd in m.graph if nd.op_type == "SDPA"]
            if sd:
                nd = sd[0]
                if _p.get("decl_q4") and "q4" in vals:        # forget the head count recorded for the Reshape output
                    import onnx_ir as ir
                    sh = list(vals["q4"].shape)
                    sh[2] = ir.SymbolicDim("Hsym")
                    vals["q4"].shape = ir.Shape(sh)
                _obs["shapes"] = {k: codes.shape(vals.get(k)) for k in ("query", "q4", "key", "value", "past_key", "past_value")}
                _obs["key_format"] = nd.attributes.get_string("key_format")
                _obs["mask"] = ("absent",) if len(nd.inputs) <= 3 or nd.inputs[3] is None else ("shape", codes.shape(nd.inputs[3]))
                _obs["sdpa_scale"] = nd.attributes.get_float("scale", None)
            c["mha1"] = fuse_mha1(m)
            c["mha2"] = fuse_mha2(m)
            mh = [nd for nd in m.graph if nd.op_type == "MultiHeadAttention"]
            if mh:
                nd = mh[0]
                ins = [(x.name if x is not None else "") for x in nd.inputs]
                mk_in = nd.inputs[5] if len(nd.inputs) > 5 else None
                _obs["mha"] = dict(num_heads=nd.attributes.get_int("num_heads", None), scale=nd.attributes.get_float("scale", None),
                                   inputs=ins, expanded=bool(mk_in is not None and mk_in.producer() is not None and mk_in.producer().op_type == "Expand"),
                                   n_out=len(nd.outputs))
            replace_sdpa_by_mha(m)
            return c["mha1"] + c["mha2"]
        key_t = p["key_kind"] == "T" or "past" in p
        cls = (fam, p["dtype"], mode, p["key_kind"], p["reshape"], tuple(sorted(decl)) + tuple(k for k, v in decl.items() if v is None), tuple(p["mask"]) if "mask" in p and near else ("mask" in p and len(p["mask"])), near,
               p["scale"], "scale_value" in p)
        structural = near in (None, "mask-rank3", "mask-dim2-other-symbol", "symbolic-heads")
        if out_tgt is not None:
            finding = "C19:mha:output-reshape-not-checked"          # reported only when the outputs really differ
            cls = cls + ("out_reshape", len(out_tgt), -1 in out_tgt, 0 in out_tgt)
        po = {}
        fired, m2 = probe(st, fam, g, fn, {k: v for k, v in p.items()}, expect=None if structural else False, finding=finding, cls=cls,
                          slack=4.0 if p["dtype"] == "float16" else 2.0, out=po)
        if fired is None:
            continue
        if obs.get("mha") and structural and po.get("before") is not None and po.get("after") is not None:
            # C19_mha_output_reshape_same_iff: the fused graph's output has the pattern's shape iff the target denotes [B,S,H*Dv]
            same = np.asarray(po["before"][0][0]).shape == np.asarray(po["after"][0]).shape
            tgt = p.get("out_reshape", [0, 0, H * Dh])
            st.add_case("attn", f"COutReshape {cz(B)} {cz(S)} {cz(H)} {cz(Dh)} {clist(tgt, cz)} {cbool(same)}", (fam, p, same))
        mha = obs.get("mha")
        fired_n += bool(mha)
        if not structural or "shapes" not in obs:
            continue
        sh = obs["shapes"]
        mask_c = "None" if obs["mask"][0] == "absent" else f"(Some {cshape(obs['mask'][1])})"
        observed = "None" if not mha else f"(Some ({cz(mha['num_heads'])}, {cbool(mha['expanded'])}))"
        st.add_case("attn", f"CMha @mha_strict_mask@ (mk_mha_in {cbool('past' in p)} {cbool(key_t)} {cbool(obs['key_format'] == 'BHSd')} {cshape(sh['query'])} {cshape(sh['q4'])} "
                            f"{cshape(sh['key'])} {cshape(sh['value'])} {cshape(sh['past_key'])} {cshape(sh['past_value'])} {mask_c}) {observed}", (fam, p, obs))
        corr_n += 1
        if mha:
            want_in = ["query", "key", "value"]
            ins = mha["inputs"]
            okk = ins[:3] == want_in and (len(ins) <= 3 or (ins[3] == "" and ins[4] == ""))
            if "mask" in p:
                okk = okk and len(ins) > 5 and (ins[5] == "mask" or mha["expanded"])
            else:
                okk = okk and (len(ins) <= 5 or ins[5] == "")
            if "past" in p:
                okk = okk and len(ins) == 8 and ins[6:] == ["past_key", "past_value"] and mha["n_out"] == 3
            else:
                okk = okk and mha["n_out"] == 1
            sc_ok = (mha["scale"] is None) == (obs["sdpa_scale"] is None) and (mha["scale"] is None or abs(mha["scale"] - obs["sdpa_scale"]) < 1e-6)
            if not okk or not sc_ok or mha["num_heads"] != H:
                ctx.tie_broken("correspondence", f"{fam}:rewrite", f"{p}: fused node {mha}, SDPA scale {obs['sdpa_scale']}")
    # finding classes, probed on every run (witnesses of the *_refuted theorems replayed on the real rules)
    base = dict(dtype="float32", B=2, S=3, H=2, Dh=4, key_kind="T", scale=("qk", "Mul"), decl={})

    def plain(m):
        ShapeInferencePass()(m)
        c = fuse_sdpa(m, apply_shape_inference=True)
        c = fuse_mha1(m) + fuse_mha2(m)
        replace_sdpa_by_mha(m)
        return c
    for mask in ([2, 1, 3, 1], [3, 1]):
        pp = dict(base, mask=mask)
        f_, _ = probe(st, fam, mha_model(pp), plain, pp, finding="C19:mha:mask-last-dim-broadcast", cls=(fam, "finding", "mask-last-dim", len(mask)))
        if len(mask) == 4:
            st.flags["mha_strict_mask"] = f_ is False        # the witness of C19_mha_mask_check_refuted decides the variant
    pp = dict(base, B=1, mask=[3, 1, 3, 3])
    probe(st, fam, mha_model(pp), plain, pp, finding="C19:mha:mask-batch-exceeds-query-batch", cls=(fam, "finding", "mask-batch"))
    for tgt in ([-1, 8], [0, -1, 4]):
        pp = dict(base, out_reshape=tgt)
        probe(st, fam, mha_model(pp), plain, pp, finding="C19:mha:output-reshape-not-checked", cls=(fam, "finding", "out-reshape", len(tgt)))
    ctx.cover(mha_fired=fired_n, mha_correspondence_cases=corr_n)
    floor = 10 if ctx.tier == "quick" else 80
    if fired_n < floor or corr_n < 2 * floor:
        ctx.tie_broken("harness", "generator-degenerate:mha", f"MultiHeadAttention fused on {fired_n} instances (floor {floor}), {corr_n} correspondence cases")


def unnamed_dims_witness(st, probe):
    """Witness of C19_mha_check_unnamed_dims_refuted on the real rule: query [?,?,8], a Reshape to [S,B,H,Dh] whose recorded
    output shape is [?,?,2,4] (unnamed dims; no shape inference re-run between, as when fuse_mha2 is called directly)."""
    from onnxscript.rewriter.ort_fusions.mha import fuse_mha2
    from onnxscript.rewriter.ort_fusions.sdpa import fuse_sdpa
    B, S, H, Dh = 2, 3, 2, 4
    g = G(opset=18)
    dt = "float32"
    D = H * Dh
    U = None
    ins = [g.inp(nm, dt, [U, U, D], [B, S, D]) for nm in ("query", "key", "value")]

    def to4(t, nm):
        sh = g.op("Shape", [t])
        b = g.op("Gather", [sh, g.const([0], "int64")])
        s = g.op("Gather", [sh, g.const([1], "int64")])
        r = g.op("Reshape", [t, g.op("Concat", [s, b, g.const([H, Dh], "int64")], axis=0)], out=nm + "4")
        g.info(nm + "4", dt, [U, U, H, Dh])
        tr = g.op("Transpose", [r], perm=[0, 2, 1, 3], out=nm + "t")
        g.info(nm + "t", dt, [U, H, U, Dh])
        return tr
    q_, k_, v_ = (to4(t, nm) for t, nm in zip(ins, "qkv"))
    kt = g.op("Transpose", [k_], perm=[0, 1, 3, 2])
    sc = g.op("Mul", [g.op("MatMul", [q_, kt]), g.const(0.5, dt)])
    o4 = g.op("Transpose", [g.op("MatMul", [g.op("Softmax", [sc], axis=-1), v_])], perm=[0, 2, 1, 3])
    g.op("Identity", [g.op("Reshape", [o4, g.const([0, 0, -1], "int64")])], out="y")
    g.out("y", dt, [U, U, D])

    class NoInfer:
        feeds_spec = g.feeds_spec

        def model(self):
            return g.model(infer=False)

    def fn(m):
        fuse_sdpa(m)
        return fuse_mha2(m)
    fired, _ = probe(st, "mha", NoInfer(), fn, {"witness": "unnamed dims, Reshape to [S,B,H,Dh]"}, finding="C19:mha:unnamed-dims-compared-equal",
                     cls=("mha", "finding", "unnamed-dims"))
    return fired


# ------------------------------------------------------------------------------------------------ SDPA -> MHA lowering
def fam_sdpa_lowering(st, probe):
    from onnx_ir.passes.common import ShapeInferencePass
    from onnxscript.rewriter.ort_fusions.sdpa import fuse_sdpa
    from onnxscript.rewriter.ort_fusions.sdpa_via_mha import replace_sdpa_by_mha
    ctx, rng = st.ctx, st.ctx.rng
    fam = "sdpa_via_mha"
    fired_n = 0
    for i in range(12 if ctx.tier == "quick" else 100):
        B, H, S, T = rng.randrange(1, 3), rng.randrange(1, 5), rng.randrange(1, 5), rng.randrange(1, 6)
        Dh = pick(rng, [2, 4, 8])
        Dv = pick(rng, [Dh, Dh, 4])
        kind = pick(rng, ["BHSd-T", "BSHd"])
        sym = pick(rng, [None, None, "B", "H"])
        g = G(opset=18)
        dt = pick(rng, ["float32", "float32", "float16"])

        def D(n, v):
            return n if sym == n else v
        q = g.inp("query", dt, [D("B", B), D("H", H), S, Dh], [B, H, S, Dh])
        if kind == "BSHd":
            k = g.inp("key", dt, [D("B", B), T, D("H", H), Dh], [B, T, H, Dh])
            kt = g.op("Transpose", [k], perm=[0, 2, 3, 1])
        else:
            k = g.inp("key", dt, [D("B", B), D("H", H), T, Dh], [B, H, T, Dh])
            kt = g.op("Transpose", [k], perm=[0, 1, 3, 2])
        v = g.inp("value", dt, [D("B", B), D("H", H), T, Dv], [B, H, T, Dv])
        sval = pick(rng, [1.0 / math.sqrt(Dh), 0.3])
        score = g.op("Mul", [g.op("MatMul", [q, kt]), g.const(sval, dt)])
        mask = pick(rng, [None, [B, 1, S, T], [1, 1, 1, T], [S, T], [H, S, T], [T]])
        mask_finding = None
        if B == 1 and rng.random() < 0.35:
            # a mask that ENLARGES the batch / head dim of the scores (legal NumPy broadcast; no fused operator can express it)
            mask = pick(rng, [[3, 1, S, T], [2, H, 1, T]]) if H > 1 or rng.randrange(2) else [3, 1, S, T]
            mask_finding = "C19:mha:mask-batch-exceeds-query-batch"
            if sym == "B":          # the score batch is symbolic: fix 9ed3615 compares nothing (known; repair ready/C19_08)
                mask_finding = "C19:sdpa:static-mask-dim-against-symbolic-score-dim"
        if mask is not None:
            score = g.op("Add", [score, g.inp("mask", dt, mask)])
        y = g.op("MatMul", [g.op("Softmax", [score], axis=-1), v])
        g.op("Identity", [y], out="y")
        g.out("y", dt, None)
        p = dict(dtype=dt, B=B, H=H, S=S, T=T, Dh=Dh, Dv=Dv, key_kind=kind, symbolic=sym, mask=mask, scale=sval)
        obs = {}

        def fn(m, _obs=obs):
            ShapeInferencePass()(m)
            codes = Codes()
            vals0 = values_by_name(m)
            _obs["decl"] = [codes.shape(vals0.get(nm)) for nm in ("query", "key", "value")] + [codes.shape(vals0.get("mask")) if "mask" in vals0 else "absent"]
            c = fuse_sdpa(m, apply_shape_inference=True)
            sd = [nd for nd in m.graph if nd.op_type == "SDPA"]
            _obs["sdpa_fired"] = bool(sd)
            if sd:
                _obs["shapes"] = [codes.shape(x) for x in sd[0].inputs[:3]]
                _obs["scale"] = sd[0].attributes.get_float("scale", None)
            c2 = replace_sdpa_by_mha(m)
            mh = [nd for nd in m.graph if nd.op_type == "MultiHeadAttention"]
            if mh:
                _obs["mha"] = (mh[0].attributes.get_int("num_heads", None), mh[0].attributes.get_float("scale", None))
            return c2
        # symbolic head count: fuse_sdpa still produces the intermediate SDPA op, nothing can lower it afterwards
        finding = "C19:pipeline:sdpa-not-lowered-with-symbolic-num-heads" if sym == "H" else mask_finding
        fired, m2 = probe(st, fam, g, fn, p, expect=None, finding=finding, cls=(fam, dt, kind, sym, mask is not None and len(mask), mask_finding is not None),
                          slack=4.0 if dt == "float16" else 2.0)
        if fired is not None and "decl" in obs:
            dq, dk, dv, dm = obs["decl"]
            mask_c = "None" if dm == "absent" else f"(Some {cshape(dm)})"
            st.add_case("attn", f"CSdpaCheck @sdpa_repaired@ @sdpa_strict_static@ {cbool(kind != 'BSHd')} {cshape(dq)} {cshape(dk)} {cshape(dv)} {mask_c} {cbool(obs['sdpa_fired'])}", (fam, p, obs))
            if sym == "H" and "sdpa_repaired" not in st.flags:
                st.flags["sdpa_repaired"] = not obs["sdpa_fired"]      # the witness class of C19_sdpa_check_as_read_refuted decides the variant
        if fired is None or "shapes" not in obs:
            continue
        fired_n += bool(obs.get("mha"))
        sq, sk, sv = obs["shapes"]
        observed = "None" if "mha" not in obs else f"(Some {cz(obs['mha'][0])})"
        st.add_case("attn", f"CSdpaMha {cbool(kind != 'BSHd')} {cshape(sq)} {cshape(sk)} {cshape(sv)} {observed}", (fam, p, obs))
        if "mha" in obs and ((obs["mha"][1] is None) != (obs["scale"] is None) or (obs["scale"] is not None and abs(obs["mha"][1] - obs["scale"]) > 1e-6)):
            ctx.tie_broken("correspondence", f"{fam}:scale", f"{p}: SDPA scale {obs['scale']} lowered to {obs['mha']}")
    # the witness of C19_sdpa_mask_symbolic_refuted, always present: symbolic batch (1 at run time), mask [2,3,1,4]
    gw = G(opset=18)
    qw = gw.inp("query", "float32", ["B", 3, 2, 2], [1, 3, 2, 2])
    kw = gw.inp("key", "float32", ["B", 3, 4, 2], [1, 3, 4, 2])
    vw = gw.inp("value", "float32", ["B", 3, 4, 4], [1, 3, 4, 4])
    scw = gw.op("Add", [gw.op("Mul", [gw.op("MatMul", [qw, gw.op("Transpose", [kw], perm=[0, 1, 3, 2])]), gw.const(0.3, "float32")]), gw.inp("mask", "float32", [2, 3, 1, 4])])
    gw.op("Identity", [gw.op("MatMul", [gw.op("Softmax", [scw], axis=-1), vw])], out="y")
    gw.out("y", "float32", None)
    seenw = {}

    def fnw2(m):
        ShapeInferencePass()(m)
        fuse_sdpa(m, apply_shape_inference=True)
        seenw["sdpa"] = any(nd.op_type == "SDPA" for nd in m.graph)
        return replace_sdpa_by_mha(m)
    probe(st, fam, gw, fnw2, {"witness": "symbolic batch 'B' (1 at run time), mask [2,3,1,4]"},
          finding="C19:sdpa:static-mask-dim-against-symbolic-score-dim", cls=(fam, "finding", "symbolic-B-mask"))
    if "sdpa" in seenw:
        st.flags["sdpa_strict_static"] = not seenw["sdpa"]
        st.add_case("attn", f"CSdpaCheck @sdpa_repaired@ @sdpa_strict_static@ true {cshape([-2, 3, 2, 2])} {cshape([-2, 3, 4, 2])} {cshape([-2, 3, 4, 4])} (Some {cshape([2, 3, 1, 4])}) {cbool(seenw['sdpa'])}",
                    (fam, "witness symbolic-B-mask", seenw["sdpa"]))
    if "sdpa_repaired" not in st.flags:
        # no symbolic-head instance was drawn: probe the witness of C19_sdpa_check_as_read_refuted directly
        g = G(opset=18)
        q = g.inp("query", "float32", [2, "H", 3, 4], [2, 2, 3, 4])
        k = g.inp("key", "float32", [2, "H", 5, 4], [2, 2, 5, 4])
        v = g.inp("value", "float32", [2, "H", 5, 4], [2, 2, 5, 4])
        sc = g.op("Mul", [g.op("MatMul", [q, g.op("Transpose", [k], perm=[0, 1, 3, 2])]), g.const(0.5, "float32")])
        g.op("Identity", [g.op("MatMul", [g.op("Softmax", [sc], axis=-1), v])], out="y")
        g.out("y", "float32", None)
        seen = {}

        def fnw(m):
            ShapeInferencePass()(m)
            c = fuse_sdpa(m, apply_shape_inference=True)
            seen["sdpa"] = any(nd.op_type == "SDPA" for nd in m.graph)
            return replace_sdpa_by_mha(m)
        probe(st, fam, g, fnw, {"witness": "symbolic head count"}, finding="C19:pipeline:sdpa-not-lowered-with-symbolic-num-heads", cls=(fam, "finding", "symbolic-H"))
        st.flags["sdpa_repaired"] = not seen.get("sdpa", False)
    if fired_n < (4 if ctx.tier == "quick" else 30):
        ctx.tie_broken("harness", "generator-degenerate:sdpa_via_mha", f"lowered on {fired_n} instances")


# ------------------------------------------------------------------------------------------------ Attention (packed QKV)
class DynBounds:
    """The packed-MatMul + Slice model with end1 / start2 / end2 / start3 turned into graph inputs (int64[1]) and the widths of the
    three slices DECLARED in the model (value_info [B,S,D]); fixed_feeds gives the run-time bounds (probe merges them into every feed)."""

    def __init__(self, g, p):
        self.g, self.p = g, p
        self.feeds_spec = dict(g.feeds_spec)
        self.fixed_feeds = {}

    def model(self, **kw):
        import onnx
        from onnx import TensorProto, helper
        m = self.g.model(**kw)
        sl = {n.output[0]: n for n in m.graph.node if n.op_type == "Slice"}
        q, k, v = sl["q_sliced"], sl["k_sliced"], sl["v_sliced"]
        db = self.p["dynamic_bounds"]
        for nm, val in ((q.input[2], db["end1"]), (k.input[1], db["start2"]), (k.input[2], db["end2"]), (v.input[1], db["start3"])):
            for init in [t for t in m.graph.initializer if t.name == nm]:
                m.graph.initializer.remove(init)
            for nd in [n for n in m.graph.node if n.op_type == "Constant" and n.output[0] == nm]:
                m.graph.node.remove(nd)
            m.graph.input.append(helper.make_tensor_value_info(nm, TensorProto.INT64, [1]))
            self.fixed_feeds[nm] = np.array([val], np.int64)
        D = self.p["H"] * self.p["Dh"]
        et = TensorProto.FLOAT16 if self.p["dtype"] == "float16" else TensorProto.FLOAT
        keep = [x for x in m.graph.value_info if x.name not in ("q_sliced", "k_sliced", "v_sliced")]
        del m.graph.value_info[:]
        m.graph.value_info.extend(keep)
        for nm in ("q_sliced", "k_sliced", "v_sliced"):
            m.graph.value_info.append(helper.make_tensor_value_info(nm, et, [self.p.get("B_decl", self.p["B"]), self.p.get("S_decl", self.p["S"]), D]))
        return m


def fam_attention_rule(st, probe):
    """attention.py at rule level after sdpa / mha / mha_bias: shapes of the projections read from the model."""
    from onnx_ir.passes.common import ShapeInferencePass
    from onnxscript.rewriter.ort_fusions.attention import fuse_attention
    from onnxscript.rewriter.ort_fusions.mha import fuse_mha1, fuse_mha2
    from onnxscript.rewriter.ort_fusions.mha_bias import fuse_mha_bias
    from onnxscript.rewriter.ort_fusions.sdpa import fuse_sdpa
    from onnxscript.rewriter.ort_fusions.sdpa_via_mha import replace_sdpa_by_mha
    ctx, rng = st.ctx, st.ctx.rng
    fam = "attention"
    fired_n = slice_n = 0
    tile_n = {True: 0, False: 0}
    for i in range(14 if ctx.tier == "quick" else 90):
        B, S, H = rng.randrange(1, 3), rng.randrange(1, 5), rng.randrange(1, 4)
        Dh = pick(rng, [2, 4, 8])
        p = dict(dtype=pick(rng, ["float32", "float32", "float16"]), B=B, S=S, H=H, Dh=Dh, key_kind="T", scale=pick(rng, [("qk", "Mul"), None]),
                 proj=True, proj_bias=rng.random() < 0.8, wseed=i)
        if rng.random() < 0.3:
            p["scale_value"] = 0.3
        if rng.random() < 0.4:
            p["mask"] = pick(rng, [[B, 1, S, S], [1, 1, S, S], [B, H, S, S]])
        if rng.random() < 0.3:
            p["B_decl"], p["S_decl"] = "B", "S"
        near = None
        if i % 2 == 1:
            # the packed-MatMul + Slice variant of the rule (no_slice = False); the spelling of the bounds cycles deterministically
            # (so that every run has tiling instances, valid near misses and the finding-class witness)
            p["packed"], p["proj_bias"] = True, True
            D_ = H * Dh
            BIG = 2 ** 63 - 1
            kind = ["plain", "negative", "near", "plain", "near", "negative", "dynamic"][(i // 2) % 7]
            p["slice_end"] = pick(rng, [3 * D_, BIG, 3 * D_ + 5])
            if kind == "negative":
                # the same partition spelled with from-the-end bounds: fires, hidden sizes unchanged
                p["bounds_spelling"], p["slice_bounds"] = "negative", [(0, -2 * D_), (-2 * D_, -D_), (-D_, p["slice_end"])]
            elif kind == "near":
                # every near miss is a VALID model (three slices of width D): the rule must leave it alone
                near = pick(rng, ["mixed-spelling", "not-to-end", "start-not-0", "gap"])
                if near == "mixed-spelling":      # end1 = D and start2 = -2D denote the same column; check compares the raw values
                    p["slice_bounds"] = [(0, D_), (-2 * D_, 2 * D_), (2 * D_, p["slice_end"])]
                elif near == "not-to-end":        # one more projection column than the slices cover
                    p["pad"], p["slice_bounds"] = 1, [(0, D_), (D_, 2 * D_), (2 * D_, 3 * D_)]
                elif near == "start-not-0":
                    p["pad"], p["slice_bounds"] = 1, [(1, D_ + 1), (D_ + 1, 2 * D_ + 1), (2 * D_ + 1, BIG)]
                else:
                    p["pad"], p["slice_bounds"] = 1, [(0, D_), (D_, 2 * D_), (2 * D_ + 1, BIG)]
            elif kind == "dynamic":
                # finding class: end1 / start2 / end2 / start3 are graph inputs (not constants), the slice widths are declared in
                # the model; at run time the key window is the query's.  S >= 2: with one token the softmax weight is 1 and the
                # output does not depend on the key at all
                p["S"] = S = max(S, 2)
                p.pop("mask", None)
                p["slice_end"] = 3 * D_
                p["dynamic_bounds"] = dict(end1=D_, start2=0, end2=D_, start3=2 * D_)
        g, _ = A.attention_model(p)
        finding = None
        if p.get("dynamic_bounds"):
            g = DynBounds(g, p)
            finding = "C19:attention:non-constant-slice-bounds-accepted"
        obs = {}

        def fn(m, _obs=obs):
            ShapeInferencePass()(m)
            fuse_sdpa(m, apply_shape_inference=True)
            c = fuse_mha1(m) + fuse_mha2(m)
            if c:
                fuse_mha_bias(m)
            codes = Codes()
            mh = [nd for nd in m.graph if nd.op_type == "MultiHeadAttention"]
            if mh and p.get("packed"):
                nd = mh[0]
                vals = values_by_name(m)
                sls = [x.producer() for x in nd.inputs[:3]]
                if all(pr is not None and pr.op_type == "Slice" for pr in sls):
                    def cv(v):
                        t = v.const_value
                        return None if t is None or t.numpy().size != 1 else int(t.numpy().reshape(-1)[0])
                    _obs["slice"] = dict(input=codes.shape(vals.get("input")), projected=codes.shape(vals.get("projected")),
                                         weight=codes.shape(vals.get("w_qkv")), qkv=[codes.shape(x) for x in nd.inputs[:3]],
                                         bounds=[cv(pr.inputs[j]) for pr in sls for j in (1, 2)])
                _obs["mha_scale"] = nd.attributes.get_float("scale", None)
                _obs["has_bias"] = len(nd.inputs) > 3 and nd.inputs[3] is not None
                _obs["weights"] = None
            elif mh:
                nd = mh[0]
                ws = []
                for x in nd.inputs[:3]:
                    pr = x.producer() if x is not None else None
                    ws.append(codes.shape(pr.inputs[1]) if pr is not None and pr.op_type == "MatMul" else None)
                _obs["weights"] = ws
                pr0 = nd.inputs[0].producer()
                _obs["input"] = codes.shape(pr0.inputs[0]) if pr0 is not None and pr0.op_type == "MatMul" else None
                _obs["mha_scale"] = nd.attributes.get_float("scale", None)
                _obs["has_bias"] = len(nd.inputs) > 3 and nd.inputs[3] is not None
            cnt = fuse_attention(m) if c else 0
            replace_sdpa_by_mha(m)            # an SDPA node no fusion consumed is lowered, as fuse_xformers does
            at = [nd for nd in m.graph if nd.op_type == "Attention"]
            if at:
                nd = at[0]
                _obs["att"] = dict(num_heads=nd.attributes.get_int("num_heads", None), sizes=list(nd.attributes["qkv_hidden_sizes"].value),
                                   scale=nd.attributes.get_float("scale", None), n_in=len(nd.inputs),
                                   bias=nd.inputs[2] is not None, mask=len(nd.inputs) > 5 and nd.inputs[5] is not None)
            return cnt
        fired, m2 = probe(st, fam, g, fn, p, expect=None, cls=(fam, p["dtype"], p["proj_bias"], "mask" in p, p["scale"], "B_decl" in p, bool(p.get("packed")), near,
                                                              p.get("slice_end", 0) >= 2 ** 62, p.get("bounds_spelling"), finding is not None),
                          slack=4.0 if p["dtype"] == "float16" else 2.0, fused_ops=("Attention",), finding=finding)
        if finding is not None and fired is not None:
            st.flags["att_const_bounds"] = not fired        # the witness of C19_att_check_nonconstant_bounds_refuted decides the variant
        if fired is None or "weights" not in obs:
            continue
        fired_n += bool(fired)
        att = obs.get("att")
        ws = obs["weights"]
        observed = "None" if not att else f"(Some ({cz(att['sizes'][0])}, {cz(att['sizes'][1])}, {cz(att['sizes'][2])}))"
        if p.get("packed"):
            slice_n += bool(att)
            sl = obs.get("slice")
            if sl and obs["has_bias"]:
                bl = "[" + "; ".join("None" if b_ is None else f"(Some {cz(b_)})" for b_ in sl["bounds"]) + "]"
                ai = (f"(mk_att_in false {cshape(sl['input'])} {cshape(sl['projected'])} {cshape(sl['weight'])} "
                      f"{cshape(sl['qkv'][0])} {cshape(sl['qkv'][1])} {cshape(sl['qkv'][2])} {bl})")
                if finding is None:
                    st.add_case("attn", f"CAtt {ai} {observed}", (fam, p, obs))
                st.add_case("atts", f"CAttV @att_const_bounds@ {ai} {observed}", (fam, p, obs))
                hid = sl["projected"][2] if sl["projected"] is not None and len(sl["projected"]) == 3 else None
                if finding is None and all(b_ is not None for b_ in sl["bounds"]) and hid is not None and hid >= 0:
                    # constant bounds, widths from shape inference: the rule fires iff the slices tile the projection, and then
                    # emits the ONNX Slice widths (hypotheses of C19_attention_slices_identity)
                    st.add_case("atts", f"CTile {cz(hid)} {' '.join(cz(b_) for b_ in sl['bounds'])} {cbool(bool(att))} {observed}", (fam, p, obs))
                    tile_n[bool(att)] += 1
            if att and (att["num_heads"] != H or att["mask"] != ("mask" in p) or not att["bias"]):
                ctx.tie_broken("correspondence", f"{fam}:rewrite:slice", f"{p}: {att}")
            continue
        if obs["has_bias"]:       # the pattern names qkv_bias: without a bias the rule has nothing to bind -- structural
            st.add_case("attn", f"CAtt (mk_att_in true {cshape(obs['input'])} None None {cshape(ws[0])} {cshape(ws[1])} {cshape(ws[2])} []) {observed}", (fam, p, obs))
        if att:
            sc_ok = (att["scale"] is None) == (obs["mha_scale"] is None) and (att["scale"] is None or abs(att["scale"] - obs["mha_scale"]) < 1e-6)
            if att["num_heads"] != H or not sc_ok or att["mask"] != ("mask" in p) or not att["bias"]:
                ctx.tie_broken("correspondence", f"{fam}:rewrite", f"{p}: {att}, MHA scale {obs['mha_scale']}")
    ctx.cover(attention_fired=fired_n, attention_slice_variant_fired=slice_n, attention_slice_tiling_cases={"tile": tile_n[True], "do_not_tile": tile_n[False]})
    if fired_n < (3 if ctx.tier == "quick" else 25) or slice_n < (2 if ctx.tier == "quick" else 12):
        ctx.tie_broken("harness", "generator-degenerate:attention", f"Attention fused on {fired_n} instances, the packed+Slice variant on {slice_n}")


# ------------------------------------------------------------------------------------------------ GQA
def _patch_gqa_mask(m, kind):
    """kind: 'zero' -> Mul(mask, 0) (non-causal: every position visible); 'input' -> a graph input used as the mask."""
    import onnx
    from onnx import helper, numpy_helper
    add = next(n for n in m.graph.node if n.op_type == "Add" and n.input[0] == "attn_score")
    mk = add.input[1]
    idx = list(m.graph.node).index(add)
    if kind == "zero":
        m.graph.initializer.append(numpy_helper.from_array(np.array(0.0, np.float32), "zero_f"))
        m.graph.node.insert(idx, helper.make_node("Mul", [mk, "zero_f"], ["mask_patched"]))
        add.input[1] = "mask_patched"
    elif kind == "half":
        m.graph.initializer.append(numpy_helper.from_array(np.array(0.5, np.float32), "half_f"))
        m.graph.node.insert(idx, helper.make_node("Mul", [mk, "half_f"], ["mask_patched"]))     # still -inf-like: causal in effect
        add.input[1] = "mask_patched"
    return m


def fam_gqa_rule(st, probe_unused):
    """gqa.py at rule level on the repo's Phi-style block re-parameterised (batch 1: the CPU kernel's limit)."""
    import onnx
    import onnxscript.optimizer
    from onnx_ir.passes.common import ShapeInferencePass
    from onnxscript.rewriter.ort_fusions.gqa import fuse_gqa
    from onnxscript.rewriter.ort_fusions.sdpa import fuse_sdpa
    from onnxscript.rewriter.ort_fusions.sdpa_via_mha import replace_sdpa_by_mha
    ctx, rng = st.ctx, st.ctx.rng
    fam = "gqa_rule"
    insts = []
    for i in range(6 if ctx.tier == "quick" else 30):
        Hkv = pick(rng, [1, 2, 3])
        p = dict(S=rng.randrange(1, 6), past=rng.randrange(1, 8), Dh=pick(rng, [16, 16, 32]), H=Hkv * pick(rng, [1, 2, 2, 4]), Hkv=Hkv)
        p["variant"] = [None, None, "drop-q4-info", "interleaved-mismatch", "mask-half", None][i % 6]
        insts.append(p)
    insts.append(dict(S=3, past=2, Dh=16, H=4, Hkv=2, variant="mask-zero"))
    insts.append(dict(S=4, past=1, Dh=16, H=2, Hkv=1, variant="mask-zero"))
    fired_n = 0
    for p in insts:
        variant = p["variant"]
        finding = "C19:gqa:non-causal-mask-accepted" if variant == "mask-zero" else None
        st.stat(fam, "instances")
        ctx.case((fam, p["Dh"], p["H"] // p["Hkv"], p["Hkv"], p["S"] == 1, variant))
        try:
            m, spec = A.gqa_instance({k: v for k, v in p.items() if k != "variant"})
            if variant == "mask-zero":
                _patch_gqa_mask(m, "zero")
            elif variant == "mask-half":
                _patch_gqa_mask(m, "half")
            elif variant == "drop-q4-info":
                keep = [v for v in m.graph.value_info if v.name != "query_BSHDh"]
                del m.graph.value_info[:]
                m.graph.value_info.extend(keep)
            elif variant == "interleaved-mismatch":
                rn = [n for n in m.graph.node if n.op_type == "RotaryEmbedding"]
                rn[0].attribute.append(onnx.helper.make_attribute("interleaved", 1))
            feeds = [{k: st.np_rng.random(sh).astype(np.float32) for k, (_, sh) in spec.items()} for _ in range(2)]
            before = [ort_run(m, f) for f in feeds]
        except Exception:
            st.stat(fam, "invalid_instance")
            continue
        obs = {}

        def fn(mm, _obs=obs):
            ShapeInferencePass()(mm)
            onnxscript.optimizer.optimize(mm)
            c = fuse_sdpa(mm)
            vals = values_by_name(mm)
            codes = Codes()
            sd = [nd for nd in mm.graph if nd.op_type == "SDPA"]
            if sd:
                _obs["shapes"] = {k: codes.shape(vals.get(k)) for k in ("query", "key", "value", "past_key", "past_value", "query_BSHDh", "key_BSHkvDh")}
                mk = sd[0].inputs[3] if len(sd[0].inputs) > 3 else None
                _obs["mask_producer"] = mk is not None and mk.producer() is not None
                rot = [nd for nd in mm.graph if nd.op_type == "RotaryEmbedding"]
                _obs["il"] = [nd.attributes.get_int("interleaved", 0) for nd in rot[:2]]
            c = fuse_gqa(mm)
            gq = [nd for nd in mm.graph if nd.op_type == "GroupQueryAttention"]
            if gq:
                a = gq[0].attributes
                _obs["gqa"] = (a.get_int("num_heads", None), a.get_int("kv_num_heads", None), a.get_int("rotary_interleaved", None), a.get_int("do_rotary", None),
                               [(x.name if x is not None else "") for x in gq[0].inputs])
            replace_sdpa_by_mha(mm)
            return c
        replay = {"family": fam, "params": p}
        try:
            m2, cnt = apply_ir(m, fn)
        except Exception as e:
            ctx.violation(finding or f"C19:{fam}:raises:{type(e).__name__}", f"fuse_gqa raised {e!r} on {p}", replay)
            continue
        gq = obs.get("gqa")
        st.stat(fam, "fired" if gq else "not_fired")
        fired_n += bool(gq) and finding is None
        bad = None
        try:
            for f, b in zip(feeds, before):
                ok, why = close(b, ort_run(m2, f), slack=10.0)
                if not ok:
                    bad = why
                    break
        except Exception as e:
            bad = f"rewritten model fails in onnxruntime: {str(e)[:220]}"
        if bad:
            if finding:
                st.stat(fam, "finding_class")
            ctx.violation(finding or f"C19:{fam}:outputs-differ", f"{p} (fusions {cnt}): {bad}", replay)
        if "shapes" in obs and len(obs.get("il", [])) == 2:
            sh = obs["shapes"]
            observed = "None" if not gq else f"(Some ({cz(gq[0])}, {cz(gq[1])}, {cz(gq[2])}))"
            st.add_case("attn", f"CGqa @gqa_head16@ (mk_gqa_in {cshape(sh['query'])} {cshape(sh['key'])} {cshape(sh['value'])} (Some {cshape(sh['past_key'])}) (Some {cshape(sh['past_value'])}) "
                                f"{cshape(sh['query_BSHDh'])} {cshape(sh['key_BSHkvDh'])} {cz(obs['il'][0])} {cz(obs['il'][1])} false false {cbool(obs['mask_producer'])} "
                                f"{cbool(variant not in ('mask-zero', 'mask-half'))}) {observed}", (fam, p, obs))
        if gq and not bad:
            ins = gq[4]
            if gq[0] != p["H"] or gq[1] != p["Hkv"] or gq[3] != 1 or ins[:5] != ["query", "key", "value", "past_key", "past_value"] or ins[7:9] != ["cos", "sin"]:
                ctx.tie_broken("correspondence", f"{fam}:rewrite", f"{p}: {gq}")
    if fired_n < (2 if ctx.tier == "quick" else 10):
        ctx.tie_broken("harness", "generator-degenerate:gqa_rule", f"GroupQueryAttention fused on {fired_n} instances")


# ------------------------------------------------------------------------------------------------ instance -> group norm
def fam_group_norm2(st, probe):
    import onnx.reference
    import onnx.reference.op_run
    from onnxscript.rewriter.ort_fusions import instance_to_group_normalization as ign
    ctx, rng = st.ctx, st.ctx.rng
    fam = "instance_to_group_norm"

    class GroupNorm(onnx.reference.op_run.OpRun):
        op_domain = MS

        def _run(self, x, gamma, beta, activation=0, channels_last=1, epsilon=1e-5, groups=1):
            if gamma.shape != (x.shape[-1],) or beta.shape != (x.shape[-1],):
                raise ValueError(f"GroupNorm: gamma {gamma.shape} / beta {beta.shape} must have {x.shape[-1]} elements")
            return (M.group_norm_reference(x, gamma, beta, groups, epsilon, channels_last, activation),)

    def ref_runner(m, feeds):
        return onnx.reference.ReferenceEvaluator(m, new_ops=[GroupNorm]).run(None, feeds)
    fn = lambda m: ign.rules.apply_to_model(m)  # noqa: E731
    fired_n = 0
    nn = 16 if ctx.tier == "quick" else 120
    for i in range(nn + 1):
        groups = pick(rng, [1, 2, 4])
        cpg = pick(rng, [1, 2, 3])
        C = groups * cpg
        N, Hh, W = rng.randrange(1, 3), rng.randrange(1, 4), rng.randrange(1, 4)
        p = dict(dtype=pick(rng, ["float32", "float32", "float16"]), N=N, C=C, H=Hh, W=W, groups=groups, epsilon=pick(rng, [1e-5, 1e-3]), wseed=i)
        near = finding = None
        u = rng.random()
        wshape, bshape = [C, 1, 1], [C, 1, 1]
        adjusted, orig = [0, groups, -1], [N, C, Hh, W]
        nw, nb = 1.0, 0.0
        if i == nn:      # always present: witness class of C19_gn_check_affine_refuted
            u = 0.99
            p.update(C=4, groups=2, N=1, H=2, W=2)
            N, C, Hh, W, groups = 1, 4, 2, 2, 2
            adjusted, orig = [0, 2, -1], [1, 4, 2, 2]
            wshape = bshape = [1, 1, 1]
            near, finding = "affine-[1,1,1]", "C19:instance_to_group_norm:affine-of-length-1"
        elif u < 0.1:
            near, nw = "norm-weight-not-1", 2.0
        elif u < 0.2:
            near, nb = "norm-bias-not-0", 0.5
        elif u < 0.28:
            near, wshape, bshape = "weight-rank2", [1, 1], [1, 1]
        elif u < 0.36 and N * Hh * W > 1:
            near, adjusted = "adjusted-[0,-1,L]", [0, -1, cpg * Hh * W]          # same function, other spelling of the Reshape
        elif u < 0.44:
            near, orig = "original-shape-with-0/-1", [0, C, Hh, -1]               # same function, not the constant input shape
        elif u < 0.5 and C > 1:
            near, bshape = "bias-[1,C,1,1]", [1, C, 1, 1]
        p.update(norm_weight=nw, norm_bias=nb, wshape=wshape, bshape=bshape, adjusted=adjusted, orig_shape=orig)
        g = M.group_norm_model(p)
        fired, m2 = probe(st, fam, g, fn, p, expect=None, finding=finding, fused_ops=("GroupNorm",), runner=ref_runner,
                          cls=(fam, p["dtype"], groups, cpg, near, N * Hh * W == 1), slack=5.0 if p["dtype"] == "float16" else 2.0)
        if fired is None:
            continue
        obs = None
        if fired:
            a = find(m2, "GroupNorm", MS)[0][2]
            obs = a.get("groups")
            fired_n += finding is None
            if a.get("channels_last") != 1 or a.get("activation") != 0 or abs(a.get("epsilon") - float(np.float32(p["epsilon"]))) > 1e-9:
                ctx.tie_broken("correspondence", f"{fam}:attrs", f"{p}: {a}")
            tr = [x[2].get("perm") for x in find(m2, "Transpose")]
            if tr != [[0, 2, 3, 1], [0, 3, 1, 2]]:
                ctx.tie_broken("correspondence", f"{fam}:layout", f"{p}: Transposes {tr}")
        if fired is not None and finding is not None:
            st.flags["gn_affine_guard"] = not fired           # the witness of C19_gn_check_affine_refuted decides the variant
        if True:
            st.add_case("gn", f"CGn @gn_affine_guard@ (mk_gn_in {cbool(nw == 1.0)} {cbool(nb == 0.0)} {cz(groups)} {clist([N, C, Hh, W], cz)} {clist(wshape, cz)} {clist(bshape, cz)} "
                              f"(Some {clist(adjusted, cz)}) (Some {clist(orig, cz)})) {'None' if obs is None else '(Some ' + cz(obs) + ')'}", (fam, p, obs))
    st.structural_only.add("com.microsoft::GroupNorm (no CPU kernel: evaluated with a NumPy implementation of the documented operator)")
    if fired_n < (4 if ctx.tier == "quick" else 30):
        ctx.tie_broken("harness", "generator-degenerate:instance_to_group_norm", f"fused on {fired_n} instances")


# ------------------------------------------------------------------------------------------------ cos / sin cache
def cos_sin_model(p):
    """x [B,H,S,D]; position_ids [B,S] | [S] (int64 input or constant); inv_freq constant [1,E,1] (E = D/2)."""
    g = G(opset=18)
    dt = p["dtype"]
    B, H, S, D = p["B"], p["H"], p["S"], p["D"]
    E = D // 2
    x = g.inp("x", dt, [B, H, S, D])
    rank1 = p.get("pos_rank", 2) == 1
    pshape = [S] if rank1 else [p.get("pos_B", B), S]
    if p.get("pos_kind", "offset") == "input":
        pos = g.inp("position_ids", "int64", pshape)          # arbitrary ids (repeated / padded positions)
    else:
        # past length (a run-time input, one per batch row) + 0..S-1: strictly increasing ids, max + 1 >= S
        off = g.inp("past_len", "int64", [1] if rank1 else [pshape[0], 1])
        pos = g.op("Add", [off, g.const(np.arange(S).reshape([S] if rank1 else [1, S]), "int64")], out="position_ids")
    rs = np.random.RandomState(p.get("wseed", 0))
    inv = rs.uniform(0.05, 1.0, p.get("inv_shape", [1, E, 1]))
    if p.get("inv_kind") == "input":
        inv_freq = g.inp("inv_freq", "float32", list(inv.shape))
    else:
        inv_freq = g.const(inv, "float32", name="inv_freq")
    extra = p.get("extra_dims", [0, 1] if rank1 else [1])
    pe = g.op("Cast", [g.op("Unsqueeze", [pos, g.const(extra, "int64")])], to=1)
    if p.get("expand"):
        inv_freq = g.op("Expand", [inv_freq, g.const([p.get("pos_B", B) if not rank1 else 1, E, 1], "int64")])
    fr = g.op("Transpose", [g.op("MatMul", [inv_freq, pe])], perm=[0, 2, 1])
    emb = g.op("Concat", [fr, fr], axis=-1)
    cos, sin = g.op("Cos", [emb]), g.op("Sin", [emb])
    if dt != "float32":
        from harness.c19_build import TPT
        cos, sin = g.op("Cast", [cos], to=TPT[dt]), g.op("Cast", [sin], to=TPT[dt])
    ax = g.const([1], "int64")
    cos4, sin4 = g.op("Unsqueeze", [cos, ax]), g.op("Unsqueeze", [sin, ax])
    h = D // 2
    rot = M._rotate_half(g, x, 0, h, h, 2 ** 63 - 1)
    y = g.op("Add", [g.op("Mul", [x, cos4]), g.op("Mul", [rot, sin4])])
    g.op("Identity", [y], out="y")
    g.out("y", dt, [B, H, S, D])
    return g


def cache_case(st, g, m2, p, fam):
    """Observe the number of rows of the cos cache the rewritten model builds for one concrete feed, together with the position
    ids of that feed, and let Coq compare it with cache_rows (variant flag cs_len_guard)."""
    import onnx
    from harness.c19_build import TPT, feeds_for
    try:
        rn = [nd for nd in m2.graph.node if nd.op_type == "RotaryEmbedding" and nd.domain == MS]
        if not rn:
            return
        m3 = onnx.ModelProto()
        m3.CopyFrom(m2)
        have = {o.name for o in m3.graph.output} | {i.name for i in m3.graph.input}
        pos_name, cos_name = rn[0].input[1], rn[0].input[2]
        if any(i.name == cos_name for i in m3.graph.initializer):
            return                                   # constant cache (position ids constant / max_pos_id configured): not the run-time path
        feed = feeds_for(g, st.np_rng)
        outs = None
        for cos_type in (TPT[p["dtype"]], onnx.TensorProto.FLOAT):
            m3 = onnx.ModelProto()
            m3.CopyFrom(m2)
            for nm, et in ((pos_name, onnx.TensorProto.INT64), (cos_name, cos_type)):
                if nm not in {o.name for o in m3.graph.output} and nm not in {i.name for i in m3.graph.input}:
                    m3.graph.output.append(onnx.helper.make_tensor_value_info(nm, et, None))
            try:
                outs = ort_run(m3, feed)
                break
            except Exception:
                continue
        if outs is None:
            st.stat(fam, "cache_rows_unobservable")
            return
        names = [o.name for o in m3.graph.output]
        ids = [int(v) for v in np.asarray(outs[names.index(pos_name)]).reshape(-1)] if pos_name not in feed else [int(v) for v in np.asarray(feed[pos_name]).reshape(-1)]
        rows = int(np.asarray(outs[names.index(cos_name)]).shape[0])
        st.add_case("cs", f"CCache @cs_len_guard@ {clist(ids, cnat)} {cnat(p['S'])} {cnat(rows)}", (fam, p, ids, rows))
    except Exception as e:       # the rewritten model does not run (a finding class as read): reported by the direct oracle
        st.stat(fam, "cache_rows_unobservable")


def fam_cos_sin(st, probe):
    import onnxscript.optimizer
    from onnxscript.rewriter.ort_fusions.cos_sin_cache import fuse_cos_sin_cache
    from onnxscript.rewriter.ort_fusions.rotary_embedding import fuse_rotary_embedding
    ctx, rng = st.ctx, st.ctx.rng
    fam = "cos_sin_cache"
    fired_n = 0
    n_cs = 14 if ctx.tier == "quick" else 100
    for i in range(n_cs + 2):
        B, H, S = rng.randrange(1, 3), rng.randrange(1, 4), rng.randrange(1, 6)
        D = pick(rng, [2, 4, 8, 16])
        p = dict(dtype=pick(rng, ["float32", "float32", "float16"]), B=B, H=H, S=S, D=D, pos_rank=pick(rng, [2, 2, 1]), wseed=i, max_pos=pick(rng, [4, 9, 17]))
        if p["pos_rank"] == 1:
            p["B"] = B = 1
        near = finding = None
        u = rng.random()
        if i % 5 == 2 and i < n_cs:
            p["dtype"] = "float16"          # a float16 floor that does not depend on the seed (i == 2: a plain instance, must fire)
            if i == 2:
                u = 0.95
        if i >= n_cs:
            # always present: the two sides of C19_cs_position_batch_differs_iff -- position_ids [1,S] and [B,S] against a batch of 2
            B = 2
            p.update(B=2, pos_rank=2, dtype="float32")
            u = 0.35 if i == n_cs else 0.9
        if u < 0.1:
            near, p["inv_kind"] = "inv-freq-not-constant", "input"
        elif u < 0.2 and p["pos_rank"] == 2:
            near, p["extra_dims"] = "extra-dims-[2]", [2]          # [B,S,1]: a different (ill-shaped unless S == 1) computation
        elif u < 0.3:
            p["expand"] = True
        elif u < 0.4 and p["pos_rank"] == 2 and B > 1:
            p["pos_B"] = 1                                          # position ids [1,S] shared by the batch (what HF exports)
            finding = "C19:cos_sin_cache:position-ids-batch-broadcast"
        g = cos_sin_model(p)
        obs = {}

        def fn(m, _obs=obs):
            onnxscript.optimizer.optimize(m)
            c1 = fuse_rotary_embedding(m)
            _obs["rot"] = c1
            vals = values_by_name(m)
            pv = vals.get("position_ids")
            _obs["pos_rank"] = None if pv is None or pv.shape is None else len(pv.shape)
            codes = Codes()
            for nd in m.graph:          # the MatMul(inv_freq [expanded], Cast(Unsqueeze(position_ids)))
                if nd.op_type == "MatMul" and nd.inputs[1].producer() is not None and nd.inputs[1].producer().op_type == "Cast":
                    a = nd.inputs[0]
                    ex = a.producer() is not None and a.producer().op_type == "Expand"
                    src = a.producer().inputs[0] if ex else a
                    _obs["inv"] = dict(shape=codes.shape(src), const=src.const_value is not None,
                                       expanded=(len(a.shape) == 3 if a.shape is not None else False) if ex else None)
                    un = nd.inputs[1].producer().inputs[0].producer()
                    axes = un.inputs[1].const_value if un is not None and un.op_type == "Unsqueeze" else None
                    _obs["extra"] = None if axes is None else [int(v) for v in axes.numpy().reshape(-1)]
            c2 = fuse_cos_sin_cache(m)
            rn = [nd for nd in m.graph if nd.op_type == "RotaryEmbedding" and nd.domain == MS]
            if rn:
                nd = rn[0]
                pin = nd.inputs[1]
                _obs["fused"] = dict(unsqueezed=pin.producer() is not None and pin.producer().op_type == "Unsqueeze", n_in=len(nd.inputs),
                                     num_heads=nd.attributes.get_int("num_heads", None), interleaved=nd.attributes.get_int("interleaved", None))
            onnxscript.optimizer.optimize(m)          # inline a _fusion RotaryEmbedding function that was not consumed
            return c2
        if near is None and finding is None and i < n_cs and rng.random() < 0.35:
            p["pos_kind"] = "input"           # arbitrary ids in [0, 4): repeated / padded positions (max + 1 may be below S)
            finding = "C19:cos_sin_cache:cache-shorter-than-sequence"      # (fixed) class: reported under this key if it fails
            g = cos_sin_model(p)
        po = {}
        fired, m2 = probe(st, fam, g, fn, p, expect=None, finding=finding, cls=(fam, p["dtype"], p["pos_rank"], near, p.get("expand", False), "pos_B" in p, D,
                                                                                    p.get("pos_kind", "offset")),
                          slack=4.0 if p["dtype"] == "float16" else 2.0, out=po)
        if fired is None:
            continue
        fu = obs.get("fused")
        fired_n += bool(fu)
        if fu:
            cache_case(st, g, m2, p, fam)
            # C19_cs_batch_differs_spec: the fused graph differs from / fails where the pattern ran iff position_ids has not x's batch
            pb = 1 if p["pos_rank"] == 1 else p.get("pos_B", B)
            if p.get("pos_kind", "offset") == "offset":
                st.add_case("cs", f"CBatch {cnat(pb)} {cnat(B)} {cbool(bool(po.get('bad')))}", (fam, p, po.get("bad")))
        if not obs.get("rot"):
            continue               # the rotate-half rule did not fire (its own family): nothing for this rule to match
        if "inv" not in obs or finding is not None:      # finding classes: after a fix the rule may refuse
            continue
        inv = obs["inv"]
        observed = "None" if not fu else f"(Some {cbool(fu['unsqueezed'])})"
        st.add_case("cs", f"CCs (mk_cs_in false false {'None' if obs['pos_rank'] is None else '(Some ' + cnat(obs['pos_rank']) + ')'} "
                          f"{'None' if obs['extra'] is None else '(Some ' + clist(obs['extra'], cz) + ')'} {cshape(inv['shape'])} "
                          f"{cbool(inv['const'])} {'None' if inv['expanded'] is None else '(Some ' + cbool(inv['expanded']) + ')'}) {observed}", (fam, p, obs))
        if fu and (fu["n_in"] != 4 or fu["num_heads"] != H or fu["interleaved"] != 0):
            ctx.tie_broken("correspondence", f"{fam}:rewrite", f"{p}: {fu}")
    # position ids as a free input whose maximum + 1 is below the sequence length (padded / repeated positions; feeds are < 4)
    for rank in (2, 1):
        pp = dict(dtype="float32", B=1, H=2, S=6, D=4, pos_rank=rank, pos_kind="input", wseed=1)

        def fn2(m):
            onnxscript.optimizer.optimize(m)
            fuse_rotary_embedding(m)
            c2 = fuse_cos_sin_cache(m)
            onnxscript.optimizer.optimize(m)
            return c2
        po = {}
        f_, m2_ = probe(st, fam, cos_sin_model(pp), fn2, pp, finding="C19:cos_sin_cache:cache-shorter-than-sequence", cls=(fam, "finding", "short-cache", rank), out=po)
        if rank == 2 and f_:
            # all ids < 4 < S = 6: the witness class of C19_cache_rows_as_read_refuted; the repaired graph contains the Max with S
            st.flags["cs_len_guard"] = any(nd.op_type == "Max" for nd in m2_.graph.node)
        if f_ and not po.get("bad"):
            cache_case(st, cos_sin_model(pp), m2_, pp, fam)
    if fired_n < (4 if ctx.tier == "quick" else 30):
        ctx.tie_broken("harness", "generator-degenerate:cos_sin_cache", f"fused on {fired_n} instances")
