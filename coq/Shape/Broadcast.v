(* C09 -- numpy/ONNX multidirectional broadcasting on concrete shapes, and the three strategies of
   onnxscript/rewriter/rules/common/_remove_expand_before_binary_op.py (_check_expand_removable).
   Model file: definitions only.

   All the Python loops walk the shapes from the LAST dimension (`rev_i`), padding the shorter shape
   with the int 1; the recursive functions below therefore take REVERSED lists and the top-level
   definitions reverse their arguments. *)
From Coq Require Import ZArith List Bool.
Require Import OV.Shape.SymDim.
Import ListNotations.
Open Scope Z_scope.

(* ---- concrete broadcasting -------------------------------------------------------------- *)

(* two dimensions broadcast iff they are equal or one of them is 1 (0 is an ordinary size) *)
Definition bd (a b : Z) : option Z :=
  if a =? b then Some a else if a =? 1 then Some b else if b =? 1 then Some a else None.

(* on reversed shapes: the shorter one is padded with 1s, i.e. the rest of the longer one is kept *)
Fixpoint rb (l m : list Z) : option (list Z) :=
  match l, m with
  | [], _ => Some m
  | _, [] => Some l
  | a :: l', b :: m' =>
      match bd a b, rb l' m' with
      | Some d, Some r => Some (d :: r)
      | _, _ => None
      end
  end.

Definition bcast (x y : list Z) : option (list Z) := option_map (@rev Z) (rb (rev x) (rev y)).

Definition obind {A B} (o : option A) (f : A -> option B) : option B :=
  match o with Some a => f a | None => None end.

(* ONNX Expand(x, target): output shape = bcast x target  (operator document: "broadcast rule is
   similar to numpy.array(input) * numpy.ones(shape)"); BinaryOp(a, b): output shape = bcast a b.
   Output shape of the matched pattern BinaryOp(Expand(x, target), y), None = the model rejects. *)
Definition pattern_shape (x target y : list Z) : option (list Z) := obind (bcast x target) (fun e => bcast e y).
(* output shape after the rewrite: BinaryOp(x, y) *)
Definition rewritten_shape (x y : list Z) : option (list Z) := bcast x y.

(* ---- index view: broadcasting is index replication ---------------------------------------
   A tensor of (reversed) shape s read at the (reversed) output multi-index I: positions beyond the
   rank of s are dropped, positions where s has size 1 read index 0. *)
Fixpoint proj (s : list Z) (I : list Z) : list Z :=
  match s, I with
  | d :: s', i :: I' => (if d =? 1 then 0 else i) :: proj s' I'
  | _, _ => []
  end.

Section Values.
  Variable V : Type.
  Variable op : V -> V -> V.
  (* a tensor = (reversed shape, element function on reversed multi-indices) *)
  Definition expand_at (fx : list Z -> V) (sx : list Z) : list Z -> V := fun I => fx (proj sx I).
  Definition binop_at (fx fy : list Z -> V) (sx sy : list Z) : list Z -> V :=
    fun I => op (fx (proj sx I)) (fy (proj sy I)).
End Values.

(* ---- helpers of the Python -------------------------------------------------------------- *)
Definition is_int (d : dim) (z : Z) : bool := match d with DInt n => n =? z | _ => false end.
Definition hd1 (l : list dim) : dim := match l with [] => DInt 1 | d :: _ => d end.   (* `... if idx >= 0 else 1` *)
Definition rank_ok (ne nx ny : nat) : bool := Nat.leb ne (Nat.max nx ny).

(* ---- strategy 1: the Expand target is a constant (list of ints) ---------------------------
   for each target dim (right to left): e_d == 1, or x_d is an int equal to e_d, or y_d is an int equal to e_d *)
Fixpoint s1_rev (e : list Z) (x y : list dim) : bool :=
  match e with
  | [] => true
  | ed :: e' => ((ed =? 1) || is_int (hd1 x) ed || is_int (hd1 y) ed) && s1_rev e' (tl x) (tl y)
  end.
(* as shipped at the pinned commit *)
Definition s1_old (e : list Z) (x y : list dim) : bool := s1_rev (rev e) (rev x) (rev y).
(* with the proposed repair: the Expand may not add leading dimensions beyond both operands *)
Definition s1_fixed (e : list Z) (x y : list dim) : bool :=
  rank_ok (length e) (length x) (length y) && s1_old e x y.

(* ---- strategy 2: _check_dims_sufficient(expand_output.shape, x.shape, y.shape) -------------
   e is the ANNOTATION of the Expand output; eqb is the dim equality in use *)
Fixpoint s2_rev (eqb : dim -> dim -> bool) (e x y : list dim) : bool :=
  match e with
  | [] => true
  | ed :: e' => (is_int ed 1 || eqb (hd1 x) ed || eqb (hd1 y) ed) && s2_rev eqb e' (tl x) (tl y)
  end.
Definition s2_old (e x y : list dim) : bool := s2_rev dim_ir_eqb (rev e) (rev x) (rev y).
Definition s2_fixed (e x y : list dim) : bool :=
  rank_ok (length e) (length x) (length y) && s2_rev same_dim (rev e) (rev x) (rev y).

(* ---- strategy 3: symbolic broadcast(x.shape, y.shape) == annotation of the binary op output - *)
(* _compute_broadcast_dim *)
Definition sym_bd (d1 d2 : dim) : option dim :=
  if is_int d1 1 then Some d2 else if is_int d2 1 then Some d1 else if dim_ir_eqb d1 d2 then Some d1 else None.
(* _compute_broadcast_shape on reversed shapes (padding with the int 1 returns the other dim) *)
Fixpoint sym_rb (x y : list dim) : option (list dim) :=
  match x, y with
  | [], _ => Some y
  | _, [] => Some x
  | a :: x', b :: y' =>
      match sym_bd a b, sym_rb x' y' with
      | Some d, Some r => Some (d :: r)
      | _, _ => None
      end
  end.
Definition s3_gen (eqb : dim -> dim -> bool) (x y o : list dim) : bool :=
  match sym_rb (rev x) (rev y) with
  | Some c => Nat.eqb (length c) (length o) && forallb2 eqb c (rev o)
  | None => false
  end.
Definition s3_old := s3_gen dim_ir_eqb.
Definition s3_fixed := s3_gen same_dim.

(* ---- _check_expand_removable: which strategy applies is decided by what is available ------ *)
Inductive avail :=
| AConst (e : list Z)                       (* get_numpy_value(shape) is not None *)
| AExpandOut (e : list dim)                 (* else: expand_output.shape is not None *)
| ABinOut (o : list dim)                    (* else: binary_op_output.shape is not None *)
| ANone.

Definition removable_old (a : avail) (x y : list dim) : bool :=
  match a with
  | AConst e => s1_old e x y
  | AExpandOut e => s2_old e x y
  | ABinOut o => s3_old x y o
  | ANone => false
  end.
Definition removable_fixed (a : avail) (x y : list dim) : bool :=
  match a with
  | AConst e => s1_fixed e x y
  | AExpandOut e => s2_fixed e x y
  | ABinOut o => s3_fixed x y o
  | ANone => false
  end.

(* correspondence: (availability, x, y, fired on the real rule set).
   Result code per case: 0 = the implementation agrees with both checks, 1 = only with the shipped (old)
   check, 2 = only with the repaired check, 3 = with neither. Only cases with code <> 0 are printed. *)
Definition eb_case := (avail * list dim * list dim * bool)%type.
Definition eb_code (c : eb_case) : nat :=
  let '(a, x, y, fired) := c in
  ((if Bool.eqb (removable_fixed a x y) fired then 0 else 1) + (if Bool.eqb (removable_old a x y) fired then 0 else 2))%nat.
Fixpoint eb_report (i : nat) (cs : list eb_case) : list (nat * nat) :=
  match cs with
  | [] => []
  | c :: t => (match eb_code c with O => [] | k => [(i, k)] end) ++ eb_report (S i) t
  end.
