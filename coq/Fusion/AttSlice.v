(* C19 model: ort_fusions/attention.py, the packed-MatMul + Slice rules (no_slice = False), with the Slice bounds as the
   pattern has them: three Slice(projected, start_i, end_i, axes=[2]) nodes with arbitrary INTEGER bounds (negative = from the
   end, clamped to the axis extent -- the ONNX Slice document for step 1; the pattern has no `steps` input, a Slice with one does
   not match), not the already-normalised column counts of Attention.att_pattern_slice.
     check:   start1 is the constant 0; get_singleton_value(end1) == get_singleton_value(start2); likewise end2 / start3;
              end3 a constant >= hidden; widths Dh_q, Dh_k, Dh_v read from the RECORDED shapes of the three slices, static;
              Dh (columns of the weight, recorded) static and = Dh_q + Dh_k + Dh_v.
              get_singleton_value returns None for a value that is not a constant: None == None passes.
     rewrite: com.microsoft.Attention(input, qkv_weight, bias; qkv_hidden_sizes = [Dh_q, Dh_k, Dh_v]).
   [strict_bounds] = false: the check as read; true: the proposed repair (proposed_fixes/ready/C19_10_attention_constant_slice_bounds.diff):
   all six bounds must be constants.
   No proofs in this file. *)
From Coq Require Import List Arith ZArith Bool.
Require Import OV.Fusion.Field OV.Fusion.Norm OV.Fusion.Attn OV.Fusion.Attention.
Import ListNotations.

(* ONNX Slice, one axis of extent n, step 1: a negative bound counts from the end; then clamped to [0, n] *)
Definition norm_bound (n x : Z) : Z := Z.max 0 (Z.min n (if (x <? 0)%Z then (x + n)%Z else x)).
Definition slice_width (n s e : Z) : Z := Z.max 0 (norm_bound n e - norm_bound n s).
Definition slice_row (A : Type) (s e : Z) (row : list A) : list A :=
  let n := Z.of_nat (length row) in
  firstn (Z.to_nat (norm_bound n e - norm_bound n s)) (skipn (Z.to_nat (norm_bound n s)) row).

Section AttSlices.
  Variable A : Type.
  Variable dot : list A -> list A -> A.
  Variable add : A -> A -> A.
  Variable Out : Type.
  Variable core : list (list A) -> list (list A) -> list (list A) -> Out.
  (* the pattern: MultiHeadAttention on the three Slices of MatMul(input, qkv_weight); MultiHeadAttention splits the packed bias
     at the hidden sizes of its query / key operands, which are the run-time widths of the slices *)
  Definition att_pattern_slices (rows : list (list A)) (W : list (list A)) (bias : list A) (s1 e1 s2 e2 s3 e3 : Z) : Out :=
    let P := matmul A dot rows W in
    let n := Z.of_nat (length W) in
    mha_with_bias A add Out core (map (slice_row A s1 e1) P) (map (slice_row A s2 e2) P) (map (slice_row A s3 e3) P)
                  (Z.to_nat (slice_width n s1 e1)) (Z.to_nat (slice_width n s2 e2)) bias.
End AttSlices.

(* the decision of the bounds part of check on CONSTANT bounds, and what the hidden sizes are when the recorded shapes are
   truthful (shape inference computes exactly slice_width) *)
Definition bounds_ok (hidden s1 e1 s2 e2 s3 e3 : Z) : bool :=
  (s1 =? 0)%Z && (e1 =? s2)%Z && (e2 =? s3)%Z && (hidden <=? e3)%Z.
Definition slices_tile (hidden s1 e1 s2 e2 s3 e3 : Z) : bool :=
  bounds_ok hidden s1 e1 s2 e2 s3 e3
  && (slice_width hidden s1 e1 + slice_width hidden s2 e2 + slice_width hidden s3 e3 =? hidden)%Z.

(* check with the variant flag *)
Definition all_some (l : list (option Z)) : bool := forallb (fun o => match o with Some _ => true | None => false end) l.
Definition att_check_rewrite_v (strict_bounds : bool) (i : att_in) : option (Z * Z * Z) :=
  if strict_bounds && negb (ai_no_slice i) && negb (all_some (ai_bounds i)) then None else att_check_rewrite i.

(* correspondence case: the real rule's decision / emitted qkv_hidden_sizes against the variant the implementation is *)
Inductive att_slice_case :=
  | CAttV (strict_bounds : bool) (i : att_in) (observed : option (Z * Z * Z))
  (* constant bounds of a packed instance whose recorded shapes come from shape inference: fired iff the slices tile *)
  | CTile (hidden s1 e1 s2 e2 s3 e3 : Z) (observed_fired : bool) (observed_sizes : option (Z * Z * Z)).
Definition att_slice_agrees (c : att_slice_case) : bool :=
  match c with
  | CAttV st i obs => oz3_eqb (att_check_rewrite_v st i) obs
  | CTile h s1 e1 s2 e2 s3 e3 f obs =>
      Bool.eqb (slices_tile h s1 e1 s2 e2 s3 e3) f
      && (negb f || oz3_eqb (Some (slice_width h s1 e1, slice_width h s2 e2, slice_width h s3 e3)) obs)
  end.
Fixpoint att_slice_disagreeing (i : nat) (cs : list att_slice_case) : list nat :=
  match cs with [] => [] | c :: t => (if att_slice_agrees c then [] else [i]) ++ att_slice_disagreeing (S i) t end.
