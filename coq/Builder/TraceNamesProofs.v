(* Proofs about the names a build defines (TraceNames.v): with the counter shared by the builder tree, generated
   names never repeat across the graphs of the tree; all defined names are pairwise distinct as soon as the names
   the caller chose are (`names_unique_across_subgraphs_fixed`), which discharges the name hypothesis of
   build_computes_trace_cf for every trace (`build_computes_trace_cf_fixed`). *)
From Coq Require Import String Ascii List Bool Arith ZArith Lia Permutation.
Require Import OV.Graph.Syntax OV.Graph.Sem.
Require Import OV.Builder.Strings OV.Builder.StringsProofs OV.Builder.Naming OV.Builder.NamingProofs.
Require Import OV.Builder.Trace OV.Builder.TraceProofs OV.Builder.TraceCF OV.Builder.TraceCFProofs OV.Builder.TraceNames.
Import ListNotations.
Local Open Scope list_scope.

(* ------------------------------------------------------------------ nested folds *)
Lemma unames_call_eq : forall rn st dom op args attrs subs outs nid,
  unames_call rn (COp st dom op args attrs subs outs) nid =
  unames_subs rn subs nid ++
  match outs with
  | ONamed ns => ren rn (nid + nvals_subs subs) (explicit_names st ns)
  | ODefault n => decls rn (nid + nvals_subs subs) n
  end.
Proof. intros. reflexivity. Qed.

Lemma unames_sub_eq : forall rn ins body rets decl nid,
  unames_sub rn (Sub ins body rets decl) nid = ren rn nid ins ++ unames_calls rn body (nid + List.length ins).
Proof. intros. reflexivity. Qed.

Lemma plain_call_eq : forall st dom op args attrs subs outs,
  plain_call (COp st dom op args attrs subs outs) =
  match outs with ODefault _ => plain_op op | ONamed _ => true end && plain_subs subs.
Proof. intros. reflexivity. Qed.

Lemma plain_sub_eq : forall ins body rets decl, plain_sub (Sub ins body rets decl) = forallb plain_call body.
Proof. intros. reflexivity. Qed.

(* ------------------------------------------------------------------ generated names *)
(* x was generated from a counter value in [lo, hi) *)
Definition genR (lo hi : nat) (x : string) : Prop :=
  exists a, plain_op (a_op a) = true /\ lo <= a_count a < hi /\ In x (alloc_names a).

Lemma genR_mono : forall lo hi lo' hi' x, genR lo hi x -> lo' <= lo -> hi <= hi' -> genR lo' hi' x.
Proof. intros lo hi lo' hi' x (a & P & R & I) H1 H2. exists a. repeat split; auto; lia. Qed.

Lemma genR_disjoint : forall a b b' c x, genR a b x -> genR b' c x -> b <= b' -> False.
Proof.
  intros a b b' c x (p & Pp & Rp & Ip) (q & Pq & Rq & Iq) H.
  pose proof (alloc_names_count p q x Pp Pq Ip Iq). lia.
Qed.

Lemma NoDup_app_gen : forall G1 G2 a b c, NoDup G1 -> NoDup G2 ->
  (forall x, In x G1 -> genR a b x) -> (forall x, In x G2 -> genR b c x) -> NoDup (G1 ++ G2).
Proof.
  intros G1 G2 a b c N1 N2 H1 H2. apply NoDup_app'; auto.
  intros x Hx Hy. exact (genR_disjoint _ _ _ _ x (H1 x Hx) (H2 x Hy) (le_n b)).
Qed.

Lemma perm4 : forall A (a b c d : list A), Permutation ((a ++ b) ++ (c ++ d)) ((a ++ c) ++ (b ++ d)).
Proof.
  intros. rewrite <- !app_assoc. apply Permutation_app_head. rewrite !app_assoc.
  apply Permutation_app_tail. apply Permutation_app_comm.
Qed.

(* one piece of a build: the values it names, split into generated names (each from a counter value of its own
   range) and names chosen by the caller *)
Definition step_ok (s s' : bst) (U : list string) : Prop :=
  exists M A G, b_names s' = b_names s ++ M /\ b_anon s' = b_anon s ++ A /\
    Permutation (M ++ A) (G ++ U) /\ NoDup G /\
    (forall x, In x G -> genR (b_total s) (b_total s') x) /\ b_total s <= b_total s'.

Lemma step_ok_refl : forall s, step_ok s s [].
Proof. intro s. exists [], [], []. rewrite !app_nil_r. repeat split; auto; try constructor. intros x []. Qed.

Lemma step_ok_trans : forall s s1 s2 U1 U2, step_ok s s1 U1 -> step_ok s1 s2 U2 -> step_ok s s2 (U1 ++ U2).
Proof.
  intros s s1 s2 U1 U2 (M1 & A1 & G1 & N1 & B1 & P1 & D1 & R1 & T1) (M2 & A2 & G2 & N2 & B2 & P2 & D2 & R2 & T2).
  exists (M1 ++ M2), (A1 ++ A2), (G1 ++ G2). repeat split.
  - rewrite N2, N1. now rewrite app_assoc.
  - rewrite B2, B1. now rewrite app_assoc.
  - eapply Permutation_trans; [apply perm4|]. eapply Permutation_trans; [|apply perm4].
    now apply Permutation_app.
  - eapply (NoDup_app_gen G1 G2 (b_total s) (b_total s1) (b_total s2)); auto.
  - intros x Hx. apply in_app_or in Hx as [Hx|Hx].
    + eapply genR_mono; [apply R1; auto| |]; lia.
    + eapply genR_mono; [apply R2; auto| |]; lia.
  - lia.
Qed.

Section Steps.
  Variable rn : list (nat * string).
  Notation cf := bcfg_fixed.

  Lemma fresh_many_ren : forall gens s s' ns, fresh_many rn s gens = (s', ns) ->
    ns = ren rn (List.length (b_names s)) gens.
  Proof.
    induction gens as [|g r IH]; intros s s' ns H; cbn [fresh_many] in H.
    - inversion H; subst. reflexivity.
    - destruct (fresh rn s g) as [s1 n] eqn:Ef. destruct (fresh_many rn s1 r) as [s2 ns'] eqn:Em.
      inversion H; subst. unfold fresh in Ef. inversion Ef; subst. clear Ef.
      apply IH in Em. cbn [b_names] in Em. rewrite app_length in Em. cbn in Em.
      replace (List.length (b_names s) + 1) with (S (List.length (b_names s))) in Em by lia.
      cbn [ren]. now rewrite Em.
  Qed.

  Lemma ren_split : forall gens nid, Permutation (ren rn nid gens) (kept rn nid gens ++ decls rn nid (List.length gens)).
  Proof.
    induction gens as [|g r IH]; intros nid; cbn; [constructor|].
    destruct (assoc_last nid rn) as [d|]; cbn.
    - eapply Permutation_trans; [apply perm_skip, IH|]. apply Permutation_middle.
    - apply perm_skip, IH.
  Qed.

  Lemma kept_in : forall gens nid x, In x (kept rn nid gens) -> In x gens.
  Proof.
    induction gens as [|g r IH]; intros nid x; cbn; [tauto|].
    destruct (assoc_last nid rn); cbn; intro H.
    - right. eapply IH; eauto.
    - destruct H; [now left|right; eapply IH; eauto].
  Qed.

  Lemma kept_nodup : forall gens nid, NoDup gens -> NoDup (kept rn nid gens).
  Proof.
    induction gens as [|g r IH]; intros nid N; cbn; [constructor|].
    inversion N; subst. destruct (assoc_last nid rn); cbn; auto.
    constructor; auto. intro Q. apply H1. eapply kept_in; eauto.
  Qed.

  (* values named by the caller *)
  Lemma step_user : forall gens s s' ns, fresh_many rn s gens = (s', ns) ->
    step_ok s s' (ren rn (List.length (b_names s)) gens).
  Proof.
    intros gens s s' ns H. pose proof (fresh_many_ren _ _ _ _ H) as E.
    destruct (fresh_many_spec rn _ _ _ _ H) as (N1 & _ & _ & A1 & T1).
    exists ns, [], []. rewrite !app_nil_r, A1, T1. subst ns.
    split; [exact N1|]. split; [reflexivity|]. split; [apply Permutation_refl|]. split; [constructor|].
    split; [intros x []|lia].
  Qed.

  (* values with default names, and the node that defines them *)
  Lemma step_default : forall st op n s s' ns nn, plain_op op = true ->
    fresh_many rn s (value_names st op (b_total s) n) = (s', ns) ->
    step_ok s (bump s' nn) (decls rn (List.length (b_names s)) n).
  Proof.
    intros st op n s s' ns nn Hp H. pose proof (fresh_many_ren _ _ _ _ H) as E.
    destruct (fresh_many_spec rn _ _ _ _ H) as (N1 & L1 & _ & A1 & T1).
    set (gens := value_names st op (b_total s) n) in *.
    assert (Lg : List.length gens = n).
    { unfold gens, value_names. destruct n as [|[|n]]; cbn; auto. now rewrite map_length, seq_length. }
    exists ns, [], (kept rn (List.length (b_names s)) gens). cbn [bump b_names b_anon b_total].
    rewrite !app_nil_r, A1, T1.
    split; [exact N1|]. split; [reflexivity|].
    split; [rewrite E, <- Lg; apply ren_split|].
    split; [apply kept_nodup; apply (alloc_names_nodup (Alloc st op (b_total s) n)); exact Hp|].
    split; [|lia].
    intros x Hx. exists (Alloc st op (b_total s) n). cbn.
    split; [exact Hp|]. split; [lia|]. eapply kept_in; eauto.
  Qed.

  Lemma resolve_step : forall args st s local s' local' ins pre,
    resolve cf st s local args = (s', local', ins, pre) -> step_ok s s' [] /\ b_names s' = b_names s.
  Proof.
    induction args as [|a r IH]; intros st s local s' local' ins pre H.
    - cbn in H. inversion H; subst. split; [apply step_ok_refl|reflexivity].
    - destruct a as [id | l | l like | ]; cbn [resolve] in H.
      + destruct (resolve cf st s local r) as [[[s1 l1] ins1] pre1] eqn:Er. inversion H; subst. eauto.
      + destruct (promote s l) as [s0 n] eqn:Epr.
        destruct (resolve cf st s0 local r) as [[[s1 l1] ins1] pre1] eqn:Er. inversion H; subst.
        destruct (promote_spec s l s0 n Epr) as (Q1 & Q2 & _). destruct (promote_ext _ _ _ _ Epr) as (_ & Q3 & _).
        destruct (IH _ _ _ _ _ _ _ Er) as [(M & A & G & N1 & B1 & P1 & D1 & R1 & T1) N2].
        split; [|congruence]. exists M, A, G. rewrite <- Q1, <- Q2, <- Q3.
        split; [exact N1|]. split; [exact B1|]. split; [exact P1|]. split; [exact D1|]. split; [exact R1|exact T1].
      + destruct (promote s l) as [s0 n] eqn:Epr. cbv zeta in H.
        remember (note_anon (bump s0 (node_name st "CastLike" (cnt cf s0 local)))
                            (qualify_value st (base_name "CastLike" (cnt cf s0 local)))) as s3 eqn:Es3.
        destruct (resolve cf st s3 (S local) r) as [[[s1 l1] ins1] pre1] eqn:Er. inversion H; subst s' local' ins pre.
        destruct (promote_spec s l s0 n Epr) as (Q1 & Q2 & _). destruct (promote_ext _ _ _ _ Epr) as (_ & Q3 & _).
        destruct (IH _ _ _ _ _ _ _ Er) as [S1 N2].
        change (cnt cf s0 local) with (b_total s0) in Es3.
        set (o := qualify_value st (base_name "CastLike" (b_total s0))) in *.
        assert (S0 : step_ok s s3 []).
        { exists [], [o], [o]. rewrite Es3. cbn [note_anon bump b_names b_anon b_total]. rewrite Q1, Q2, Q3, !app_nil_r.
          split; [reflexivity|]. split; [reflexivity|]. split; [apply Permutation_refl|].
          split; [constructor; [intros []|constructor]|]. split; [|lia].
          intros x [<-|[]]. exists (Alloc st "CastLike" (b_total s) 1). cbn.
          split; [reflexivity|]. split; [lia|]. left. unfold o. now rewrite Q2. }
        split.
        * apply (step_ok_trans s s3 s1 [] [] S0 S1).
        * rewrite N2, Es3. cbn. exact Q1.
      + destruct (resolve cf st s local r) as [[[s1 l1] ins1] pre1] eqn:Er. inversion H; subst. eauto.
  Qed.
End Steps.

(* ------------------------------------------------------------------ every call, every body *)
Lemma step_same : forall s s', b_names s' = b_names s -> b_anon s' = b_anon s -> b_total s <= b_total s' -> step_ok s s' [].
Proof.
  intros s s' H1 H2 H3. exists [], [], []. rewrite !app_nil_r.
  split; [exact H1|]. split; [exact H2|]. split; [apply Permutation_refl|]. split; [constructor|]. split; [intros x []|exact H3].
Qed.

Section All.
  Variable rn : list (nat * string).
  Notation cf := bcfg_fixed.

  Definition names_call (c : call) : Prop := forall s local s' local' ns,
    build_call cf rn c s local = (s', local', ns) -> plain_call c = true ->
    step_ok s s' (unames_call rn c (List.length (b_names s))).
  Definition names_sub (sb : sub) : Prop := forall s s' g,
    build_sub cf rn sb s = (s', g) -> plain_sub sb = true ->
    step_ok s s' (unames_sub rn sb (List.length (b_names s))).

  Lemma names_calls : forall body, Forall names_call body -> forall s local s' ns,
    build_calls cf rn body s local = (s', ns) -> forallb plain_call body = true ->
    step_ok s s' (unames_calls rn body (List.length (b_names s))).
  Proof.
    induction 1 as [|c r Hc Hr IH]; intros s local s' ns H P; cbn [build_calls] in H.
    - inversion H; subst. apply step_ok_refl.
    - destruct (build_call cf rn c s local) as [[s1 l1] ns1] eqn:Ec.
      destruct (build_calls cf rn r s1 l1) as [s2 ns2] eqn:Er. inversion H; subst.
      cbn [forallb] in P. apply andb_true_iff in P as [P1 P2].
      destruct (proj1 (grows_all cf rn) c _ _ _ _ _ Ec) as [_ L1].
      pose proof (IH _ _ _ _ Er P2) as S2. rewrite L1 in S2.
      cbn [unames_calls]. eapply step_ok_trans; [eapply Hc; eauto|exact S2].
  Qed.

  Lemma names_subs : forall subs, Forall (fun ks => names_sub (snd ks)) subs -> forall s s' gs,
    build_subs cf rn subs s = (s', gs) -> plain_subs subs = true ->
    step_ok s s' (unames_subs rn subs (List.length (b_names s))).
  Proof.
    induction 1 as [|[k sb] r Hc Hr IH]; intros s s' gs H P; cbn [build_subs] in H.
    - inversion H; subst. apply step_ok_refl.
    - destruct (build_sub cf rn sb s) as [s1 g] eqn:Ec.
      destruct (build_subs cf rn r s1) as [s2 gs2] eqn:Er. inversion H; subst.
      cbn [plain_subs] in P. apply andb_true_iff in P as [P1 P2].
      destruct (proj2 (grows_all cf rn) sb _ _ _ Ec) as [_ L1].
      pose proof (IH _ _ _ Er P2) as S2. rewrite L1 in S2.
      cbn [unames_subs]. cbn [snd] in Hc. eapply step_ok_trans; [eapply Hc; eauto|exact S2].
  Qed.

  Lemma names_all : (forall c, names_call c) /\ (forall sb, names_sub sb).
  Proof.
    assert (HS : forall ins body rets decl, Forall names_call body -> names_sub (Sub ins body rets decl)).
    { intros ins body rets decl Hb s s' g H P. rewrite build_sub_eq in H.
      destruct (fresh_many rn s ins) as [s1 inames] eqn:Ef.
      destruct (build_calls cf rn body s1 0) as [s2 nodes] eqn:Eb. inversion H; subst.
      rewrite plain_sub_eq in P. rewrite unames_sub_eq.
      destruct (fresh_many_spec rn _ _ _ _ Ef) as (N1 & L1 & _).
      pose proof (names_calls body Hb _ _ _ _ Eb P) as S2.
      rewrite N1, app_length, L1 in S2.
      eapply step_ok_trans; [eapply step_user; eauto|exact S2]. }
    assert (HC : forall c, names_call c).
    { apply (call_ind2 names_call names_sub); [| |exact HS].
      - intros st dom op args attrs subs outs Hs s local s' local' ns H P.
        rewrite build_call_eq in H. cbv zeta in H.
        destruct (build_subs cf rn subs s) as [s1 sgs] eqn:Es.
        destruct (resolve cf st s1 local args) as [[[s2 local2] ins] pre] eqn:Er.
        destruct (fresh_many rn s2 (out_names st op (cnt cf s2 local2) outs)) as [s3 onames] eqn:Ef.
        inversion H; subst. clear H.
        rewrite plain_call_eq in P. apply andb_true_iff in P as [Pop Psubs].
        rewrite unames_call_eq.
        pose proof (names_subs subs Hs _ _ _ Es Psubs) as S1.
        destruct (resolve_step _ _ _ _ _ _ _ _ Er) as [S2 N2].
        assert (Hg : Forall (fun ks => grows_sub cf rn (snd ks)) subs).
        { apply Forall_forall. intros. apply (proj2 (grows_all cf rn)). }
        destruct (grows_subs cf rn _ Hg _ _ _ Es) as [_ L1].
        assert (L2 : List.length (b_names s2) = List.length (b_names s) + nvals_subs subs) by (rewrite N2; exact L1).
        assert (S3 : step_ok s2 (bump s3 (node_name st op (cnt cf s2 local2)))
                       match outs with
                       | ONamed ns => ren rn (List.length (b_names s) + nvals_subs subs) (explicit_names st ns)
                       | ODefault n => decls rn (List.length (b_names s) + nvals_subs subs) n
                       end).
        { rewrite <- L2. destruct outs as [n|names]; cbn [out_names] in Ef.
          - change (cnt cf s2 local2) with (b_total s2) in *. eapply step_default; eauto.
          - rewrite <- (app_nil_r (ren _ _ _)). eapply step_ok_trans; [eapply step_user; eauto|].
            apply step_same; cbn; auto. }
        rewrite <- (app_nil_l (match outs with ONamed _ => _ | ODefault _ => _ end)).
        eapply step_ok_trans; [exact S1|]. eapply step_ok_trans; [exact S2|exact S3].
      - intros a b c s local s' local' ns H P. cbn [build_call] in H.
        destruct (fresh_many rn s c) as [s1 x] eqn:Ef. inversion H; subst. cbn [unames_call].
        rewrite <- (app_nil_r (ren _ _ _)). eapply step_ok_trans; [eapply step_user; eauto|].
        apply step_same; cbn; auto. lia. }
    split; [exact HC|].
    apply (sub_ind2 names_call names_sub); [intros; apply HC|intros; apply HC|exact HS].
  Qed.
End All.

(* ------------------------------------------------------------------ generated names have the generated form *)
Lemma starts_v_vhead : forall st op r, starts_v (vhead st op ++ r) = true.
Proof. intros. reflexivity. Qed.

Lemma gen_not_genb : forall lo hi x, genR lo hi x -> not_genb x = false.
Proof.
  intros lo hi x (a & P & _ & I). destruct a as [st op c n]. unfold alloc_names in I. cbn in *.
  apply value_names_shape in I. unfold not_genb.
  destruct I as [->|[i ->]].
  - rewrite (vname1_eq st op c P). rewrite starts_v_vhead. cbn [negb orb].
    rewrite (split_last_app "_"%char _ _ (dec_no_underscore c)).
    now rewrite dec_nonempty, dec_digits.
  - rewrite (vnameN_eq st op c i P).
    assert (Hs : starts_v ((vhead st op ++ String "_" (dec c)) ++ String "_" (dec i)) = true)
      by (rewrite app_assoc_str; apply starts_v_vhead).
    rewrite Hs. cbn [negb orb].
    rewrite (split_last_app "_"%char _ _ (dec_no_underscore i)).
    now rewrite dec_nonempty, dec_digits.
Qed.

(* names_unique_across_subgraphs_fixed: with the counter shared by the builder tree, for EVERY trace (any nesting of
   If / Loop / Scan bodies, CastLike operands, explicit and declared output names, call_inline nodes) whose
   generated names come from operator / function names made of letters: if the names the CALLER chose
   (user_names: graph and subgraph inputs, explicit and declared output names, names of inlined values, constant
   names) are pairwise distinct and none of them has the shape of a generated name, then all names the build
   defines are pairwise distinct.  The generated names themselves never need a hypothesis: each comes from a
   counter value used exactly once in the whole builder tree. *)
Theorem names_unique_across_subgraphs_fixed : forall ins tr,
  plain_trace tr = true -> user_okb ins tr = true ->
  NoDup (all_defined (fst (build_state bcfg_fixed ins tr))).
Proof.
  intros ins tr P U. unfold user_okb in U. apply andb_true_iff in U as [U1 U2].
  apply nodup_strb_NoDup in U1. unfold build_state in *.
  set (rn := renames_calls tr) in *.
  destruct (build_calls bcfg_fixed rn tr (init_state ins) 0) as [sf nodes] eqn:Eb. cbn [fst] in *.
  assert (HF : Forall (names_call rn) tr) by (apply Forall_forall; intros; apply (proj1 (names_all rn))).
  destruct (names_calls rn tr HF _ _ _ _ Eb P) as (M & A & G & N1 & B1 & P1 & D1 & R1 & _).
  cbn [init_state b_names b_anon b_total] in *.
  unfold all_defined, user_names in *. rewrite N1, B1. cbn [app].
  set (C := map (fun e => fst (snd e)) (b_cache sf)) in *.
  set (Un := unames_calls rn tr (List.length ins)) in *.
  assert (Pm : Permutation ((ins ++ M) ++ A ++ C) (G ++ ins ++ Un ++ C)).
  { replace ((ins ++ M) ++ A ++ C) with (ins ++ (M ++ A) ++ C) by (rewrite <- !app_assoc; reflexivity).
    eapply Permutation_trans; [apply Permutation_app_head, Permutation_app_tail; exact P1|].
    rewrite <- app_assoc. apply Permutation_app_swap_app. }
  eapply Permutation_NoDup; [apply Permutation_sym; exact Pm|].
  apply NoDup_app'; auto.
  intros x Hg Hu. rewrite forallb_forall in U2. specialize (U2 x Hu).
  rewrite (gen_not_genb _ _ x (R1 x Hg)) in U2. discriminate.
Qed.

(* the control-flow theorem for the shared counter without a hypothesis about the names the build produces: only
   the trace is inspected (calls have a reading, operator names are plain, the caller's names are distinct and
   not of generated shape, literals consistent per cache key) *)
Theorem build_computes_trace_cf_fixed : forall V sem truth trip of_nat of_bool lim lit_val fuel ins tr outs args r,
  cf_hyps_fixedb ins tr = true ->
  List.length args = List.length ins ->
  creplay V sem truth trip of_nat of_bool lim lit_val fuel tr args outs = Some r ->
  eval_graph V sem truth trip of_nat of_bool lim (S fuel)
             (init_env V lit_val (b_cache (fst (build_state bcfg_fixed ins tr)))) (build bcfg_fixed ins tr outs) args = Some r.
Proof.
  intros V sem truth trip of_nat of_bool lim lit_val fuel ins tr outs args r H Hlen Hr.
  unfold cf_hyps_fixedb in H. apply andb_true_iff in H as [H H4]. apply andb_true_iff in H as [H H3].
  apply andb_true_iff in H as [H1 H2].
  apply build_computes_trace_cf_partial; auto.
  - now apply names_unique_across_subgraphs_fixed.
  - now apply lits_okb_sound.
Qed.

Example ex_cf_fixed_hyps : cf_hyps_fixedb ["x"; "c"]%string ex_cf_trace = true.
Proof. vm_compute. reflexivity. Qed.

(* the side condition matters: a caller who names an explicit output like a generated name breaks uniqueness *)
Example ex_user_name_of_generated_shape :
  let tr := [COp [] "" "Add" [OVal 0; OVal 0] [] [] (ODefault 1);
             COp [] "" "Relu" [OVal 1] [] [] (ONamed ["Add_0"])]%string in
  user_okb ["x"]%string tr = false /\
  nodup_strb (all_defined (fst (build_state bcfg_fixed ["x"]%string tr))) = false.
Proof. vm_compute. split; reflexivity. Qed.
