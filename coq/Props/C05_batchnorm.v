(* C05, family _fuse_batchnorm.py: property theorems (statements only, closed by `exact`). *)
From Coq Require Import ZArith List Field.
Require Import OV.Rules.BatchNorm OV.Rules.BatchNormProofs.
Import ListNotations.
Open Scope Z_scope.

(* BatchNormalization(Conv | ConvTranspose (x)) per output element, over ANY field (reals, rationals, ...):
   gamma*(W.x + B - mean)/sigma + beta = (W*gamma/sigma).x + ((B - mean)*gamma/sigma + beta), sigma = sqrt(var+eps) <> 0.
   Not covered: float rounding of the recomputed constants (measured with tolerances by the harness). *)
Theorem C05_batchnorm_fold_linear :
  forall (F : Type) (zero one : F) (add mul sub : F -> F -> F) (opp : F -> F) (div : F -> F -> F) (inv : F -> F),
  field_theory zero one add mul sub opp div inv (@eq F) ->
  forall gamma beta mean sigma ws b xs, sigma <> zero ->
    bn F add mul sub div gamma beta mean sigma (lin F zero add mul ws b xs) =
    lin F zero add mul (fused_w F mul ws (scale_factor F div gamma sigma))
        (fused_b F add mul sub b mean (scale_factor F div gamma sigma) beta) xs.
Proof. exact bn_fold_linear. Qed.
Print Assumptions C05_batchnorm_fold_linear.

(* the same under the precondition training_mode = 0, which `check` (as read) does not test *)
Theorem C05_batchnorm_fold_inference :
  forall (F : Type) (zero one : F) (add mul sub : F -> F -> F) (opp : F -> F) (div : F -> F -> F) (inv : F -> F),
  field_theory zero one add mul sub opp div inv (@eq F) ->
  forall training gamma beta mean sigma bmean bsigma ws b xs, training = false -> sigma <> zero ->
    bn_mode F add mul sub div training gamma beta mean sigma bmean bsigma (lin F zero add mul ws b xs) =
    lin F zero add mul (fused_w F mul ws (scale_factor F div gamma sigma))
        (fused_b F add mul sub b mean (scale_factor F div gamma sigma) beta) xs.
Proof. exact bn_fold_inference. Qed.
Print Assumptions C05_batchnorm_fold_inference.

Theorem C05_batchnorm_training_mode_refuted : exists gamma beta mean sigma bmean bsigma ws b xs,
  sigma <> 0 /\
  bn_mode Z Z.add Z.mul Z.sub Z.div true gamma beta mean sigma bmean bsigma (lin Z 0 Z.add Z.mul ws b xs) <>
  lin Z 0 Z.add Z.mul (fused_w Z Z.mul ws (scale_factor Z Z.div gamma sigma))
      (fused_b Z Z.add Z.mul Z.sub b mean (scale_factor Z Z.div gamma sigma) beta) xs.
Proof. exact bn_training_mode_refuted. Qed.
Print Assumptions C05_batchnorm_training_mode_refuted.

(* Gemm(alpha, beta): exact error term of the rewritten node; zero for beta = 1, and only then in general *)
Theorem C05_batchnorm_gemm_error :
  forall (F : Type) (zero one : F) (add mul sub : F -> F -> F) (opp : F -> F) (div : F -> F -> F) (inv : F -> F),
  field_theory zero one add mul sub opp div inv (@eq F) ->
  forall gamma beta mean sigma alpha betag ws c xs, sigma <> zero ->
    bn F add mul sub div gamma beta mean sigma (gemm F zero add mul alpha betag ws c xs) =
    add (gemm F zero add mul alpha betag (fused_w F mul ws (scale_factor F div gamma sigma))
           (fused_b F add mul sub c mean (scale_factor F div gamma sigma) beta) xs)
        (mul (sub one betag) (sub beta (mul mean (scale_factor F div gamma sigma)))).
Proof. exact bn_fold_gemm_error. Qed.
Print Assumptions C05_batchnorm_gemm_error.

Theorem C05_batchnorm_gemm_beta_one :
  forall (F : Type) (zero one : F) (add mul sub : F -> F -> F) (opp : F -> F) (div : F -> F -> F) (inv : F -> F),
  field_theory zero one add mul sub opp div inv (@eq F) ->
  forall gamma beta mean sigma alpha ws c xs, sigma <> zero ->
    bn F add mul sub div gamma beta mean sigma (gemm F zero add mul alpha one ws c xs) =
    gemm F zero add mul alpha one (fused_w F mul ws (scale_factor F div gamma sigma))
         (fused_b F add mul sub c mean (scale_factor F div gamma sigma) beta) xs.
Proof. exact bn_fold_gemm_beta_one. Qed.
Print Assumptions C05_batchnorm_gemm_beta_one.

Theorem C05_batchnorm_gemm_iff :
  forall (F : Type) (zero one : F) (add mul sub : F -> F -> F) (opp : F -> F) (div : F -> F -> F) (inv : F -> F),
  field_theory zero one add mul sub opp div inv (@eq F) ->
  forall gamma beta mean sigma alpha betag ws c xs, sigma <> zero ->
    (bn F add mul sub div gamma beta mean sigma (gemm F zero add mul alpha betag ws c xs) =
     gemm F zero add mul alpha betag (fused_w F mul ws (scale_factor F div gamma sigma))
          (fused_b F add mul sub c mean (scale_factor F div gamma sigma) beta) xs)
    <-> mul (sub one betag) (sub beta (mul mean (scale_factor F div gamma sigma))) = zero.
Proof. exact bn_fold_gemm_iff. Qed.
Print Assumptions C05_batchnorm_gemm_iff.

Theorem C05_batchnorm_gemm_beta_refuted : exists gamma beta mean sigma alpha betag ws c xs,
  sigma <> 0 /\
  bn Z Z.add Z.mul Z.sub Z.div gamma beta mean sigma (gemm Z 0 Z.add Z.mul alpha betag ws c xs) <>
  gemm Z 0 Z.add Z.mul alpha betag (fused_w Z Z.mul ws (scale_factor Z Z.div gamma sigma))
       (fused_b Z Z.add Z.mul Z.sub c mean (scale_factor Z Z.div gamma sigma) beta) xs.
Proof. exact bn_gemm_beta_refuted. Qed.
Print Assumptions C05_batchnorm_gemm_beta_refuted.

(* which scale factor multiplies which weight element = the output channel that element feeds *)
Theorem C05_batchnorm_conv_axis : forall M rest m r, 0 <= m < M -> 0 <= r < prod rest ->
  axis_index (M :: rest) 0 (m * prod rest + r) = m.
Proof. exact conv_axis_index. Qed.
Print Assumptions C05_batchnorm_conv_axis.

Theorem C05_batchnorm_gemm_axis_notrans : forall K N k n, 0 <= k < K -> 0 <= n < N ->
  axis_index [K; N] (gemm_axis false) (k * N + n) = n.
Proof. exact gemm_axis_index_notrans. Qed.
Print Assumptions C05_batchnorm_gemm_axis_notrans.

Theorem C05_batchnorm_gemm_axis_trans : forall K N k n, 0 <= k < K -> 0 <= n < N ->
  axis_index [N; K] (gemm_axis true) (n * K + k) = n.
Proof. exact gemm_axis_index_trans. Qed.
Print Assumptions C05_batchnorm_gemm_axis_trans.

Theorem C05_batchnorm_convtranspose_groups : forall group cpg ocpg K c j t,
  0 < group -> 0 < cpg -> 0 < ocpg -> 0 < K ->
  0 <= c < group * cpg -> 0 <= j < ocpg -> 0 <= t < K ->
  convt_scale_index group (group * cpg) ocpg K (c * ocpg * K + j * K + t) =
  convt_out_channel group (group * cpg) ocpg c j
  /\ 0 <= convt_out_channel group (group * cpg) ocpg c j < group * ocpg.
Proof. exact convt_group_index. Qed.
Print Assumptions C05_batchnorm_convtranspose_groups.
