"""C14 -- results are deterministic and independent of what the process did before (DESIGN.md section 5, C14).

A. set order (coq/Determinism/Perm*.v): sorted(set) emits a function of the set alone (for every enumeration),
   list(set) does not (`_refuted`); translator `converter_sites` finds every set->sequence site of the
   converter; obligation: every emitting site is sorted (a kernel-checked computation over Gen/ConverterSites.v).
B. rule singletons / pass objects (coq/Determinism/MustDef*.v): must-definition analysis, sound for
   non-interference from the object's earlier state; translator `rule_cfgs` reduces check()/rewrite() of every
   shipped RewriteRuleClassBase subclass and FoldConstantsPass.call to the mini language (Gen/RuleCfgs.v);
   `forallb rule_ok all = true` by vm_compute.  A run-time field trace of the real rule objects is compared with
   the translated CFGs (correspondence).
C. direct oracle: operations (harness/c14_ops.py) run in subprocesses: alone in a fresh process, after histories
   of other operations (incl. failing ones) and under several PYTHONHASHSEED values; serialized results compared.
"""
from __future__ import annotations

import os
import re
from concurrent.futures import ThreadPoolExecutor

from harness import c14_translate as tr
from harness import common
from harness.common import clist, cstr

PROPERTY = "C14"
LEVEL = "proof"

HERE = os.path.dirname(os.path.abspath(__file__))
RUNNER = os.path.join(HERE, "c14_runner.py")

KEY_IF = "C14:hashseed:converter:If-output-order"
KEY_LOOP = "C14:hashseed:converter:Loop-state-order"
KEY_COUNTER = "C14:history:ruleset:value-name-counter-not-reset"
KEY_EAGER = "C14:globals:eager-call-rereads-mutated-global:"      # + kind
KEY_ALIAS = "C14:globals:proto-aliases-mutated-global:"           # + kind

# later-call measurements (harness/c14_ops.py op_s_later_<kind>): kind -> the mutation is a rebinding of the name
LATER_KINDS = {"float": True, "list_rebound": True, "list_inplace": False, "int_attr": True, "callee": True, "if_cond": True,
               "loop": True, "nonlocal": True, "array_inplace": False, "array_expr": False}

# shared-memory measurements (harness/c14_ops.py op_s_alias_<kind>): kind -> (own `writeable` flag of the array the script sees,
# use: expr -> Converter._emit_const / attr -> Converter._translate_attr, family)
ALIAS_KINDS = {
    "ro_view": (False, "expr", "ndarray"), "ro_view_attr": (False, "attr", "ndarray"), "broadcast": (False, "expr", "ndarray"),
    "frombuffer": (True, "expr", "ndarray"), "frombuffer_ro": (False, "expr", "ndarray"), "slice": (True, "expr", "ndarray"),
    "transposed": (True, "expr", "ndarray"), "0d": (True, "expr", "ndarray"), "memmap": (False, "expr", "ndarray"),
    "ro_owner": (False, "expr", "ndarray"),
    "in_list": (True, "attr", "container"), "in_tuple": (True, "expr", "container"), "in_tuple_sub": (True, "expr", "container"),
    "tensorproto_attr": (None, "attr", "tensor-object"), "irtensor_attr": (None, "attr", "tensor-object"),
}

# state the inventory (Gen/StateInventory.v) cannot put into one of the four classes: the history experiments that exercise it, by name
# (each op must occur in FIXED_SEQUENCES with a history before it), and why the state cannot change a result
_PB = ["x_bad_pattern", "m_rw_operator_pattern"]
INV_EXPERIMENTS = {
    "onnx_types:_tensor_type_shape_cache": (["s_if3", "s_loop3", "s_opset15", "s_domain_v1"],
                                            "memo of FLOAT[shape] classes keyed by (dtype, shape): the key is everything the class is built from"),
    "onnx_types:tensor_type_registry": (["s_if3", "s_loop3", "s_opset15", "s_domain_v1"],
                                        "filled by __init_subclass__ of the unshaped tensor types, all defined while onnx_types is imported (shaped subclasses skip the store)"),
    "_internal/evaluator:ort_mixed_evaluator": (["s_later_float", "s_alias_slice"], "python implementations registered by decorators at import; used by eager evaluation only"),
    "_internal/evaluator:_default_evaluator@set_default": (["s_later_float", "s_alias_slice"], "user configuration, changed only by an explicit set_default(...) call; eager evaluation only"),
    "rewriter/_pattern_ir:onnxop": (_PB, "OpsetPatternBuilder('') is constructed with record=False: add_node() appends only `if self._record`"),
    "rewriter/_pattern_ir:torch_module_op": (_PB, "OpsetPatternBuilder(PrefixPattern('pkg.torch')) is constructed with record=False"),
    "rewriter/_pattern_ir:_pattern_builder@pattern_builder": (_PB, "swapped without try/finally; every pattern construction enters `with pattern_builder(..)` before it evaluates "
                                                              "the pattern function, so a stale value is never read (proposed_fixes/C14_pattern_builder_finally.diff)"),
    "rewriter/_pattern_ir:OpsetPatternBuilder._nodes": (_PB, "appended only by recording builders, which are created per pattern construction"),
    "rewriter/_pattern_ir:ValuePattern._uses": (["m_rw_operator_pattern", "m_rw_default", "m_set_materialize"],
                                                "appended while a pattern is constructed (once per rule object), read by the matcher as part of the pattern"),
}

_GEN = {}


# ----------------------------------------------------------------------------------------------- regenerate

def regenerate(ctx):
    text, sites, probs = tr.converter_sites(common.REPO)
    wtext, wsites, unresolved, wprobs = tr.wide_sites(common.REPO)
    ctx.gen("ConverterSites", text + wtext)
    _GEN["sites"] = sites
    _GEN["site_problems"] = probs + wprobs
    _GEN["wide_sites"] = wsites
    _GEN["wide_unresolved"] = unresolved
    text, rules, probs = tr.rule_cfgs(common.REPO)
    if text:
        ctx.gen("RuleCfgs", text)
    _GEN["rules"] = rules
    _GEN["rule_problems"] = probs
    _GEN["abstract"] = getattr(tr.rule_cfgs, "abstract", [])
    _GEN["set_rule"] = getattr(tr.rule_cfgs, "set_rule", None)
    text, memos, probs = tr.evaluator_memos(common.REPO)
    ctx.gen("EvaluatorCache", text)
    _GEN["memos"] = memos
    _GEN["memo_problems"] = probs
    text, ssites, probs = tr.process_state(common.REPO, [r for r in rules if ":" in r["name"] and "." not in r["name"].split(":")[1]], memos)
    ctx.gen("ProcessStateSites", text)
    _GEN["state_sites"] = ssites
    _GEN["state_problems"] = probs
    text, objs, probs = tr.object_cfgs(common.REPO)
    ctx.gen("ObjectCfgs", text)
    _GEN["objects"] = objs
    _GEN["object_problems"] = probs
    text, isites, probs, ifiles = tr.state_inventory(common.REPO, rules, memos, objs, {k: v[0] for k, v in INV_EXPERIMENTS.items()})
    ctx.gen("StateInventory", text)
    _GEN["inventory"] = isites
    _GEN["inventory_problems"] = probs
    _GEN["inventory_files"] = ifiles
    text, csites, probs = tr.capture_policy(common.REPO)
    ctx.gen("CapturePolicy", text)
    _GEN["capture_sites"] = csites
    _GEN["capture_problems"] = probs


# ----------------------------------------------------------------------------------------------- op catalogue

def op_ids():
    import ast
    src = open(os.path.join(HERE, "c14_ops.py")).read()
    return [n.name[3:] for n in ast.parse(src).body if isinstance(n, ast.FunctionDef) and n.name.startswith("op_")]


FAMILIES = {
    "script-if": ["s_if3", "s_if_nested", "s_if1", "s_repeat", "x_bad_script_stmt"],
    "script-loop": ["s_loop3", "s_loop1", "s_while2", "s_loop_if", "x_bad_script_unbound"],
    "script-const": ["s_consts", "s_global_mutated", "s_calls", "s_global_mutated_callee", "s_plain"],
    "rw-reshape": ["m_rw_reshape", "m_rw_reshape_b", "m_rw_reshape_allowzero", "m_rw_reshape_nofire", "x_rw_reshape_raises", "m_rw_default"],
    "rw-flatten-pad": ["m_rw_flatten", "m_rw_flatten_b", "m_rw_padconv", "m_rw_padconv_b", "m_rw_padconv_nofire"],
    "rw-norm": ["m_rw_materialize", "m_rw_materialize_b", "m_rw_layernorm", "m_rw_layernorm_b", "m_rw_rmsnorm", "m_rw_rmsnorm_b"],
    "optimize": ["m_opt_fold", "m_opt_fold_b", "m_opt_if", "m_pass_fold", "m_pass_nofold", "m_pass_if", "x_opt_bad", "x_pass_fold_then_raise",
                 "m_pass_nofold_unnamed"],
    # models whose inlined If branches own same-named initializers (one is renamed when moved to the main graph): any suffix bookkeeping that
    # outlives one call shows as a different name after another such model
    "optimize-branch-initializers": ["m_opt_two_if_w", "m_opt_two_if_w_b", "m_pass_two_if_w", "m_opt_if", "m_pass_if", "x_pass_fold_then_raise"],
    "rw-shared-set": ["m_set_materialize", "m_set_materialize_b", "x_set_raises_midway", "m_rw_materialize", "m_rw_materialize_b"],
    "convert-pattern": ["m_convert_up", "m_convert_up_b", "m_convert_up_c", "x_convert_bad", "x_bad_pattern", "m_rw_operator_pattern"],
    "convert-functions-subgraphs": ["m_convert_fn_sub", "m_convert_fn_sub_b", "m_convert_fn_sub_ir", "m_convert_up", "x_convert_bad", "m_opt_func_a"],
    "script-proto-options": ["s_proto_options", "s_repeat", "s_repeat_lib", "s_calls", "s_if1"],
    # the same foldable op types at different opset versions / the same function identifier with different bodies
    "optimize-versions": ["m_opt_axes_v11", "m_opt_axes_v12", "m_opt_axes_v13", "m_opt_axes_v18", "m_opt_misc_v9", "m_opt_misc_v13",
                          "m_opt_misc_v18", "m_opt_func_a", "m_opt_func_b", "m_opt_func_a_v13", "m_rw_default_v13"],
    "script-versions": ["s_opset15", "s_opset18", "s_domain_v1", "s_domain_v2"],
    # as_function extraction of a match spanning six operator domains (main graph / model-local function / If branch)
    "rw-as-function": ["m_rw_as_function_domains", "m_rw_as_function_domains_fn", "m_rw_as_function_domains_if"],
    "script-later-calls": ["s_later_" + k for k in LATER_KINDS],
    "script-alias": ["s_alias_" + k for k in ALIAS_KINDS],
}

# hand-made histories aimed at the mechanisms named in the property's anchors (each op is a target for its prefix)
FIXED_SEQUENCES = [
    ["m_rw_reshape_allowzero", "m_rw_reshape", "m_rw_reshape_b", "m_rw_reshape_nofire", "m_rw_reshape", "x_rw_reshape_raises", "m_rw_reshape_b", "m_rw_default"],
    ["x_rw_reshape_raises", "m_rw_reshape_allowzero", "m_rw_default", "m_rw_reshape_nofire", "m_rw_reshape_allowzero", "m_rw_reshape"],
    ["m_rw_flatten_b", "m_rw_flatten", "m_rw_padconv_b", "m_rw_padconv_nofire", "m_rw_padconv", "m_rw_flatten_b", "m_rw_padconv_b"],
    ["m_rw_layernorm_b", "m_rw_layernorm", "m_rw_rmsnorm_b", "m_rw_rmsnorm", "m_rw_materialize_b", "m_rw_materialize", "m_rw_layernorm_b", "m_rw_rmsnorm_b"],
    ["m_pass_fold", "m_pass_nofold", "m_pass_if", "m_pass_nofold", "m_pass_fold", "x_opt_bad", "m_opt_fold", "m_pass_nofold"],
    ["m_opt_fold_b", "m_opt_fold", "m_opt_if", "m_pass_if", "m_opt_fold_b", "m_convert_up", "m_opt_if"],
    ["x_bad_pattern", "m_rw_operator_pattern", "m_rw_default", "x_bad_pattern", "m_rw_layernorm", "m_rw_operator_pattern", "m_convert_up_b", "x_convert_bad"],
    ["x_convert_bad", "m_convert_up", "m_convert_up_b", "m_convert_up", "x_bad_pattern", "m_convert_up_b"],
    ["x_bad_script_stmt", "s_if3", "s_if1", "s_if_nested", "x_bad_script_stmt", "s_repeat", "s_if3", "s_if1"],
    ["x_bad_script_unbound", "s_loop3", "s_loop1", "s_while2", "s_loop_if", "x_bad_script_unbound", "s_loop1", "s_loop3"],
    ["s_global_mutated", "s_consts", "s_global_mutated_callee", "s_calls", "s_plain", "s_global_mutated", "s_calls", "s_consts"],
    ["s_calls", "s_plain", "s_consts", "s_repeat", "s_if1", "s_loop1", "m_rw_default", "m_opt_fold"],
    # process-wide tables hit with conflicting keys, both orders: (domain, op) at several opset versions,
    # one function identifier with two bodies, one Opset domain at two versions
    ["m_opt_axes_v11", "m_opt_axes_v18", "m_opt_axes_v12", "m_opt_axes_v13", "m_opt_misc_v9", "m_opt_misc_v18", "m_opt_misc_v13", "m_opt_axes_v11"],
    ["m_opt_axes_v18", "m_opt_axes_v11", "m_opt_axes_v13", "m_opt_axes_v12", "m_opt_misc_v13", "m_opt_misc_v9", "m_opt_fold", "m_opt_axes_v18"],
    ["m_opt_func_a", "m_opt_func_b", "m_opt_func_a_v13", "m_opt_func_a", "m_rw_default_v13", "m_rw_default", "m_rw_default_v13", "m_opt_func_b"],
    ["s_opset15", "s_opset18", "s_domain_v1", "s_domain_v2", "s_opset15", "s_domain_v1", "m_convert_up_c", "m_convert_up"],
    ["s_domain_v2", "s_domain_v1", "s_opset18", "s_opset15", "m_convert_up", "m_convert_up_c", "m_opt_misc_v18", "m_opt_misc_v9"],
    # version conversion of a model with a model-local function called from the main graph and from If branches, three targets, both APIs
    ["m_convert_fn_sub_b", "m_convert_fn_sub", "x_convert_bad", "m_convert_fn_sub_ir", "m_convert_fn_sub", "m_opt_func_a", "m_convert_fn_sub_b", "m_convert_up"],
    # to_model_proto with different options in sequence, around other decorations
    ["s_proto_options", "s_repeat", "s_calls", "s_proto_options", "s_later_float", "s_later_callee", "s_proto_options", "s_if1"],
    # operations that raise PART-WAY on a shared object, before the target on the same object: the fold pass after it folded a node,
    # a rule set after it rewrote and named a value, a rule singleton after check() stashed a field, the pattern builder swapped by a
    # pattern function that raised, the version converter refusing a target, a script refused after an If was translated
    ["m_pass_nofold_unnamed", "x_pass_fold_then_raise", "m_pass_nofold_unnamed", "m_pass_nofold", "x_pass_fold_then_raise", "m_pass_if", "m_pass_fold", "m_pass_nofold_unnamed"],
    ["x_pass_fold_then_raise", "m_pass_nofold", "m_pass_fold", "x_pass_fold_then_raise", "m_pass_nofold_unnamed", "m_opt_fold"],
    ["m_set_materialize", "x_set_raises_midway", "m_set_materialize", "m_set_materialize_b", "x_set_raises_midway", "m_set_materialize_b", "m_rw_materialize", "m_rw_materialize_b"],
    ["x_set_raises_midway", "m_set_materialize_b", "m_rw_materialize", "x_rw_reshape_raises", "m_rw_reshape", "x_bad_pattern", "m_rw_operator_pattern", "m_set_materialize"],
    ["x_convert_bad", "m_convert_fn_sub", "x_bad_script_stmt", "s_if3", "x_bad_script_unbound", "s_loop3", "x_opt_bad", "m_opt_fold"],
    # two models with constant-condition Ifs whose inlined branches own same-named initializers, optimized in both orders in one process (every
    # position is compared with the operation alone in a fresh process), through optimize() and the shared pass, once after a failing fold
    ["m_opt_two_if_w", "m_opt_two_if_w_b", "m_opt_two_if_w", "m_pass_two_if_w", "m_opt_two_if_w_b", "m_opt_if", "m_opt_two_if_w"],
    ["m_opt_two_if_w_b", "m_opt_two_if_w", "x_pass_fold_then_raise", "m_pass_two_if_w", "m_opt_two_if_w", "m_pass_two_if_w", "m_opt_two_if_w_b"],
    # eager evaluation (default evaluator, registered python ops) after refused scripts
    ["x_bad_script_stmt", "s_later_float", "x_bad_script_unbound", "s_alias_slice", "s_alias_in_tuple", "s_later_array_inplace"],
    # constants that share memory with a base written after decoration, around other decorations
    ["s_alias_ro_view", "s_consts", "s_alias_broadcast", "s_alias_slice", "s_alias_ro_view", "s_alias_in_list", "s_later_array_expr", "s_alias_ro_view_attr"],
]

# equalities between different operations required by the property text
SAME_AS = [("s_global_mutated", "s_consts", "C14:globals:proto-changed-by-post-decoration-mutation"),
           ("s_global_mutated_callee", "s_calls", "C14:globals:callee-proto-changed-by-post-decoration-mutation")]


def family_of(op):
    for f, ops in FAMILIES.items():
        if op in ops:
            return f
    return "other"


# ----------------------------------------------------------------------------------------------- running

def _run(ops, seed, want_bytes=False, trace=False, timeout=900):
    payload = {"ops": list(ops), "want_bytes": want_bytes, "trace_fields": trace}
    return common.run_impl(RUNNER, payload, timeout=timeout, hashseed=str(seed))


def _sig(entry):
    if entry["ok"]:
        return ("ok",) + tuple(sorted(entry["sha"].items()))
    return ("err", entry["err"])


def json_short(x):
    import json
    return json.dumps(x, default=str)[:300]


def _workers():
    return max(2, min(8, os.cpu_count() or 2))


# ----------------------------------------------------------------------------------------------- proto diff

def _base(name):
    return re.sub(r"_\d+$", "", name)


def _permuted(a, b):
    a, b = [_base(x) for x in a], [_base(x) for x in b]
    return a != b and sorted(a) == sorted(b)


def _classify_nodes(na, nb):
    """First differing node of two node lists -> 'If-output-order' | 'Loop-state-order' | 'other' | None (equal)."""
    import onnx
    if len(na) != len(nb):
        return "other"
    for x, y in zip(na, nb):
        if x.SerializeToString(deterministic=True) == y.SerializeToString(deterministic=True):
            continue
        if x.op_type != y.op_type or x.op_type not in ("If", "Loop"):
            return "other"
        ga = [a.g for a in x.attribute if a.type == onnx.AttributeProto.GRAPH]
        gb = [a.g for a in y.attribute if a.type == onnx.AttributeProto.GRAPH]
        for g1, g2 in zip(ga, gb):
            inner = _classify_nodes(g1.node, g2.node)
            if inner in ("If-output-order", "Loop-state-order"):
                return inner
        if x.op_type == "If":
            outs = any(_permuted([o.name for o in g1.output], [o.name for o in g2.output]) for g1, g2 in zip(ga, gb))
            if _permuted(list(x.output), list(y.output)) or outs:
                return "If-output-order"
        else:
            ins = any(_permuted([i.name for i in g1.input], [i.name for i in g2.input]) or
                      _permuted([o.name for o in g1.output], [o.name for o in g2.output]) for g1, g2 in zip(ga, gb))
            if _permuted(list(x.output), list(y.output)) or _permuted(list(x.input), list(y.input)) or ins:
                return "Loop-state-order"
        return "other"
    return None


def only_fresh_value_names_differ(hex_a, hex_b):
    """Two serialized models that become equal when the names the rewriter generates for new values (rewritten_val_<n>) are
    renumbered in order of first appearance."""
    import onnx
    texts = []
    for h in (hex_a, hex_b):
        m = onnx.ModelProto()
        m.ParseFromString(bytes.fromhex(h))
        t = str(m)
        order = {}
        for x in re.findall(r"rewritten_val_\d+", t):
            order.setdefault(x, len(order))
        texts.append(re.sub(r"rewritten_val_\d+", lambda mo: f"rewritten_val_#{order[mo.group(0)]}", t))
    return hex_a != hex_b and texts[0] == texts[1]


def classify_function_diff(hex_a, hex_b):
    import onnx
    fa, fb = onnx.FunctionProto(), onnx.FunctionProto()
    fa.ParseFromString(bytes.fromhex(hex_a))
    fb.ParseFromString(bytes.fromhex(hex_b))
    return _classify_nodes(list(fa.node), list(fb.node)) or "other"


# ----------------------------------------------------------------------------------------------- parts

def part_translators(ctx):
    rules = _GEN.get("rules", [])
    sites = _GEN.get("sites", [])
    for p in _GEN.get("site_problems", []):
        ctx.tie_broken("translator", "converter_sites", p)
    for p in _GEN.get("rule_problems", []):
        ctx.tie_broken("translator", "rule_cfgs", p)
    ctx.obligation("translator converter_sites: every set-typed expression of converter.py/irbuilder.py that is iterated or "
                   "converted has a recognised shape", not _GEN.get("site_problems"), "; ".join(_GEN.get("site_problems", [])[:3]))
    ctx.obligation("translator rule_cfgs: check/rewrite of every rule class and FoldConstantsPass.call translated (fail-closed)",
                   not _GEN.get("rule_problems"), "; ".join(_GEN.get("rule_problems", [])[:3]))
    for p in _GEN.get("memo_problems", []):
        ctx.tie_broken("translator", "evaluator_memos", p)
    ctx.obligation("translator evaluator_memos: state of the module-level ReferenceEvaluator and cache decorators in the anchored files "
                   "have a recognised shape (fail-closed)", not _GEN.get("memo_problems"), "; ".join(_GEN.get("memo_problems", [])[:3]))
    ctx.cover(memo_tables=[f"{m['owner']}.{m['field']} key={m['key']} uses={m['fun']}" for m in _GEN.get("memos", [])])
    # the translator must still see the mechanisms the property's anchors name (not degenerate)
    by = {r["name"]: r for r in rules}
    anchors = {
        "rules/common/_basic_rules:ReshapeReshape": {"_new_shape", "_allowzero", "_new_shape_name"},
        "rules/common/_basic_rules:Flatten2Reshape": {"_new_shape"},
        "rules/common/_fuse_pad_into_conv:FuseConvPad": {"_pads_list"},
        "rules/common/_materialize_reshape_shape:MaterializeReshapeShape": {"_new_dims"},
        "rules/fusion/_rms_normalization:RmsNormFusion": {"_stash_dtype"},
        "optimizer/_constant_folding:FoldConstantsPass.call": {"_modified", "_state"},
    }
    missing = []
    for name, fields in anchors.items():
        r = by.get(name)
        if r is None or not fields <= (set(r["mutable"]) | set(r["reads"])):
            missing.append(name)
    n_stateful = sum(1 for r in rules if r["mutable"])
    ok = not missing and len(rules) >= 60 and n_stateful >= 12
    ctx.obligation("translator rule_cfgs still sees the per-match fields named in the property's anchors", ok,
                   f"missing {missing}; rules={len(rules)} stateful={n_stateful}")
    if not ok and not _GEN.get("rule_problems"):
        ctx.tie_broken("translator", "rule_cfgs", f"anchored per-match state no longer visible: {missing}; rules={len(rules)} stateful={n_stateful}")
    ctx.cover(rule_classes_translated=len(rules), rule_classes_with_per_match_state=n_stateful,
              abstract_rule_classes_skipped=len(_GEN.get("abstract", [])),
              abstract_rule_classes={a.replace("onnxscript/rewriter/", ""): "no pattern() of its own (cannot be instantiated); check/rewrite analysed in the "
                                     "translated subclasses " + ", ".join(getattr(tr.rule_cfgs, "abstract_covered_by", {}).get(a, [])) for a in _GEN.get("abstract", [])},
              cfg_nodes=sum(tr.ir_size(r["check"]) + tr.ir_size(r["rewrite"]) for r in rules),
              per_graph_caches=[f"{r['name']}.{c}" for r in rules for c in r["caches"]],
              converter_set_sites=[f"{s['func']}:{s['line']}:{s['kind']}:{'sorted' if s['sorted'] else 'unsorted'}:{'emits' if s['emits'] else 'order-free'}" for s in sites])
    for r in rules:
        ctx.case(("cfg", bool(r["mutable"]), bool(r["caches"]), min(tr.ir_size(r["check"]) // 20, 5)))
    if any(r["caches"] for r in rules):
        ctx.assume("per-graph caches keyed by objects of the model being rewritten (CosSinCacheFusion._inv_freq_cos_sin_cache): entries left "
                   "by an earlier graph have keys that are objects of that other, still referenced model, hence never equal to a key of the "
                   "current model (MustDefProofs.lookup_app_fresh); such fields are excluded from the must-definition analysis")


def part_rule_proofs(ctx):
    """diagnostics first (which classes fail), then the theorems."""
    ok, log = ctx.build(["Gen/RuleCfgs.vo", "Gen/ConverterSites.vo", "Gen/EvaluatorCache.vo", "Determinism/MustDefProofs.vo",
                         "Determinism/PermProofs.vo", "Determinism/KeyedCacheProofs.vo", "Determinism/ProcessStateProofs.vo",
                         "Determinism/SnapshotProofs.vo", "Gen/ProcessStateSites.vo", "Determinism/RuleCfgsOk.vo",
                         "Determinism/AliasProofs.vo", "Gen/CapturePolicy.vo"])
    if not ok:
        return []
    okm, valsm, rawm = ctx.coq_eval(["OV.Determinism.KeyedCache", "OV.Gen.EvaluatorCache"], "Eval vm_compute in (bad_memos EvaluatorCache.memos).")
    if not okm:
        ctx.tie_broken("proof", "bad_memos evaluation", rawm[-600:])
    else:
        badm = re.findall(r'"([^"]+)"', valsm[0])
        ctx.obligation(f"memo tables: the key of each of the {len(_GEN.get('memos', []))} memo tables found in the sources contains every parameter "
                       "the memoizing method uses (vm_compute)", not badm, "key too coarse: " + ", ".join(badm))
        for b in badm:
            ctx.tie_broken("proof", "memo_ok " + b, "a process-wide memo table is keyed by fewer parameters than the memoized computation uses: "
                                                    "the first request with a given key decides what later requests get")
    ok, vals, raw = ctx.coq_eval(["OV.Determinism.MustDef", "OV.Gen.RuleCfgs"],
                                 "Eval vm_compute in (bad_rules RuleCfgs.all).\nEval vm_compute in (bad_rules RuleCfgs.passes).\n"
                                 "Eval vm_compute in (List.length RuleCfgs.all).")
    bad = []
    if not ok:
        ctx.tie_broken("proof", "bad_rules evaluation", raw[-600:])
    else:
        bad = re.findall(r'"([^"]+)"', vals[0] + " " + vals[1])
        n = int(re.sub(r"%\w+", "", vals[2]))
        ctx.obligation(f"must-definition check: rule_ok holds for all {n} translated rule classes and the folding pass (vm_compute)", not bad,
                       "rejected: " + ", ".join(bad))
        for b in bad:
            ctx.tie_broken("proof", "rule_ok " + b, "a field is read by rewrite()/check() that is not set on every successful path of check() "
                                                    "(or a configuration field is written): result may depend on the object's earlier state")
    # the rule-set object itself (module-level default rule set): variant decided here, explained by the oracle
    oks, valss, raws = ctx.coq_eval(["OV.Determinism.MustDef", "OV.Gen.RuleCfgs"],
                                    "Eval vm_compute in (bad_rules RuleCfgs.ruleset_passes).\nEval vm_compute in (List.length RuleCfgs.ruleset_passes).",
                                    name="ruleset_pass")
    if not oks:
        ctx.tie_broken("proof", "bad_rules ruleset_passes evaluation", raws[-600:])
        _GEN["ruleset_variant"] = None
    else:
        badset = re.findall(r'"([^"]+)"', valss[0])
        nset = int(re.sub(r"%\w+", "", valss[1]))
        if nset != 1:
            ctx.tie_broken("translator", "rule_cfgs", "RewriteRuleSet.apply_to_model was not translated")
        _GEN["ruleset_variant"] = "as-read" if badset else "reset"
        ctx.cover(ruleset_naming_state=_GEN["ruleset_variant"])
        if not badset and nset == 1:
            okt, _v, rawt = ctx.coq_eval([], "Require Import OV.Determinism.MustDef OV.Determinism.MustDefProofs OV.Determinism.RuleCfgsOk OV.Gen.RuleCfgs.\n"
                                             "From Coq Require Import List.\n"
                                             "Theorem ruleset_passes_ok : forallb rule_ok RuleCfgs.ruleset_passes = true.\nProof. vm_compute. reflexivity. Qed.\n"
                                             "Theorem ruleset_apply_history_independent : forall r, In r RuleCfgs.ruleset_passes ->\n"
                                             "  forall (h : list (oracle * nat * trace)) (s0 : state) orc fuel tr,\n"
                                             "    observable (run_match orc fuel (r_check r) (r_rewrite r) (run_history r h s0) tr) =\n"
                                             "    observable (run_match orc fuel (r_check r) (r_rewrite r) s0 tr).\n"
                                             "Proof. exact (ruleset_passes_history_independent_if_ok ruleset_passes_ok). Qed.\n"
                                             "Print Assumptions ruleset_apply_history_independent.\n", name="ruleset_thm")
            ctx.obligation("RewriteRuleSet.apply_to_model re-initialises every field of the rule-set object it reads (theorem "
                           "ruleset_apply_history_independent over Gen/RuleCfgs.v)", okt and "Closed under the global context" in rawt, rawt[-300:])
            if not (okt and "Closed under the global context" in rawt):
                ctx.tie_broken("proof", "ruleset_apply_history_independent", rawt[-400:])
        else:
            ctx.obligation("RewriteRuleSet.apply_to_model re-initialises every field of the rule-set object it reads (must-definition check "
                           "over Gen/RuleCfgs.v)", False, "rejected: " + ", ".join(badset) + " -- the direct oracle has to exhibit the history dependence")
    return bad


# module-level state that is neither keyed completely, nor re-initialised per operation, nor written only at import: each one
# is named with the reason why it cannot change a result (anything else the translator finds breaks the tie)
NAMED_RESIDUAL = {
    "rewriter/_pattern_ir:onnxop": "OpsetPatternBuilder('') is constructed with record=False: add_node() -- its only mutating method -- appends "
                                   "only `if self._record`",
    "rewriter/_pattern_ir:torch_module_op": "OpsetPatternBuilder(PrefixPattern('pkg.torch')) is constructed with record=False: add_node() appends only "
                                            "`if self._record`",
    "rewriter/_pattern_ir:_pattern_builder@pattern_builder":
        "swapped by the context manager pattern_builder() without try/finally: after a pattern function raised it keeps pointing to the recording "
        "builder of the failed pattern; every pattern construction (GraphPattern/_to_graph_pattern) enters `with pattern_builder(..)` before it "
        "evaluates the pattern function, so the stale value is never read by a later operation (histories with x_bad_pattern show no change); "
        "proposed_fixes/C14_pattern_builder_finally.diff",
}


def part_process_state(ctx):
    for p in _GEN.get("state_problems", []):
        ctx.tie_broken("translator", "process_state", p)
    sites = _GEN.get("state_sites", [])
    ctx.obligation("translator process_state: every module-level / class-level assignment, cache decorator and `global` statement of the "
                   f"{len(tr.STATE_FILES)} modules on the way to the serialized results has a recognised shape (fail-closed)",
                   not _GEN.get("state_problems"), "; ".join(_GEN.get("state_problems", [])[:3]))
    ok, vals, raw = ctx.coq_eval(["OV.Determinism.ProcessState", "OV.Gen.ProcessStateSites"],
                                 "Eval vm_compute in (bad_state_sites ProcessStateSites.state_sites).\n"
                                 "Eval vm_compute in (List.length (keyed_sites ProcessStateSites.state_sites)).", name="process_state")
    if not ok:
        ctx.tie_broken("proof", "bad_state_sites evaluation", raw[-600:])
        return
    bad = re.findall(r'"([^"]+)"', vals[0])
    by = {f"{s['module']}:{s['name']}": s for s in sites}
    ruleset_sites = {k for k, s in by.items() if s["disc"] == "RuleSet"}
    explained, unexplained = {}, []
    for b in bad:
        if b in NAMED_RESIDUAL and by.get(b, {}).get("disc") == "Uncontrolled":
            explained[b] = NAMED_RESIDUAL[b]
        elif b in ruleset_sites and _GEN.get("ruleset_variant") == "as-read":
            explained[b] = "rule-set object whose apply_to_model does not re-initialise _value_name_counter: reported under " + KEY_COUNTER
        else:
            unexplained.append(b)
    kinds = {}
    for s in sites:
        kinds[s["disc"].split(":")[0]] = kinds.get(s["disc"].split(":")[0], 0) + 1
        ctx.case(("state-site", s["disc"].split(":")[0], s["module"].split("/")[0]))
    ctx.cover(process_state_sites=len(sites), process_state_by_discipline=kinds,
              process_state_keyed=[f"{s['module']}:{s['name']} {s['disc']}" for s in sites if s["disc"].startswith("KeyedBy")],
              process_state_named_residual=explained)
    ctx.obligation(f"process-wide state: each of the {len(sites)} module-level mutable objects of the anchored modules is keyed completely, "
                   "re-initialised per operation (must-definition check), written only while its module is imported, or restored by a scope "
                   "(bad_state_sites over Gen/ProcessStateSites.v by vm_compute); the others are named with the reason",
                   not unexplained, f"uncontrolled: {unexplained}; named: {sorted(explained)}")
    for b in unexplained:
        ctx.tie_broken("translator", "process_state", f"module-level mutable object {b} ({by.get(b, {}).get('why', '?')}) is neither keyed completely nor "
                       "re-initialised per operation nor written only at import: results may depend on what the process did before")
    stale = [k for k in NAMED_RESIDUAL if k not in by]
    if stale:
        ctx.tie_broken("harness", "process_state", f"named residual entries no longer found in the sources: {stale}")
    if len(sites) < 20 or not any(s["disc"].startswith("KeyedBy") for s in sites):
        ctx.tie_broken("translator", "process_state", f"degenerate: {len(sites)} sites, keyed: {kinds.get('KeyedBy', 0)} (Opset.cache must be seen)")


def part_sites(ctx):
    """obligation `forallb site_ok sites = true` as a kernel-checked computation; returns unsorted emitting sites."""
    sites = _GEN.get("sites", [])
    body = ("Require Import OV.Determinism.Perm OV.Determinism.PermProofs OV.Gen.ConverterSites.\n"
            "Eval vm_compute in (unsorted_sites ConverterSites.sites).\n")
    ok, vals, raw = ctx.coq_eval([], body)
    if not ok:
        ctx.tie_broken("proof", "unsorted_sites evaluation", raw[-600:])
        return None
    bad_lines = common.parse_nat_list(vals[0])
    # the other modules on the way to serialized bytes (rewriter core, optimizer, version converter, values, builders, inliner)
    wsites = _GEN.get("wide_sites", [])
    okw, valsw, raww = ctx.coq_eval([], "Require Import OV.Determinism.Perm OV.Determinism.PermProofs OV.Gen.ConverterSites.\n"
                                        "Eval vm_compute in (unsorted_sites ConverterSites.sites_wide).\n"
                                        "Theorem wide_sites_all_ok : forallb site_ok ConverterSites.sites_wide = true.\nProof. vm_compute. reflexivity. Qed.\n",
                                    name="sites_wide")
    bad_wide = common.parse_nat_list(valsw[0]) if valsw else []
    ctx.obligation("rewriter core / optimizer / version converter / values / builders / inliner: every set that is definitely iterated into "
                   "something emitted is wrapped in sorted(...) (theorem wide_sites_all_ok by vm_compute over Gen/ConverterSites.v)",
                   okw and not bad_wide,
                   "unsorted emitting sites: " + "; ".join(f"{s['file']}:{s['line']} {s['func']} ({s['expr']})" for s in wsites
                                                           if s["line"] in bad_wide and s["emits"] and not s["sorted"]) if bad_wide else raww[-300:])
    ctx.cover(wide_set_sites=[f"{s['file']}:{s['func']}:{s['line']}:{s['kind']}:{'sorted' if s['sorted'] else 'unsorted'}" for s in wsites],
              wide_set_values_not_followed=len(_GEN.get("wide_unresolved", [])),
              wide_set_values_followed_one_level=list(getattr(tr.wide_sites, "followed", [])))
    ctx.obligation("rewriter core / optimizer / version converter: every set-typed value that is passed on is followed (callee of the same module "
                   "scanned with the receiving parameter as a set; default of a mapping lookup) -- the scan is fail-closed",
                   not _GEN.get("wide_unresolved"), "; ".join(_GEN.get("wide_unresolved", [])[:4]))
    for u in _GEN.get("wide_unresolved", [])[:6]:
        ctx.tie_broken("translator", "wide_sites", u)
    _GEN["bad_wide"] = [s for s in wsites if s["line"] in bad_wide and s["emits"] and not s["sorted"]]
    thm = ("Require Import OV.Determinism.Perm OV.Determinism.PermProofs OV.Gen.ConverterSites.\n"
           "From Coq Require Import Permutation.\n"
           "Theorem converter_sites_all_ok : forallb site_ok ConverterSites.sites = true.\nProof. vm_compute. reflexivity. Qed.\n"
           "Theorem converter_sites_deterministic : forall s, In s ConverterSites.sites -> s_emits s = true ->\n"
           "  forall (R : Type) (k : list string -> R) e1 e2, Permutation e1 e2 ->\n"
           "  emit k (if s_sorted s then as_sorted else as_enumerated) e1 = emit k (if s_sorted s then as_sorted else as_enumerated) e2.\n"
           "Proof. exact (sites_ok_deterministic ConverterSites.sites converter_sites_all_ok). Qed.\n"
           "Print Assumptions converter_sites_deterministic.\n")
    ok2, _vals, raw2 = ctx.coq_eval([], thm, name="sites_thm")
    closed = "Closed under the global context" in raw2
    ctx.obligation("converter: every site that turns a set into a sequence and emits from it is wrapped in sorted(...) "
                   "(theorem converter_sites_all_ok by vm_compute over Gen/ConverterSites.v, then converter_sites_deterministic)",
                   ok2 and closed and not bad_lines,
                   "unsorted emitting sites at converter.py lines " + ", ".join(map(str, bad_lines)) if bad_lines else raw2[-300:])
    if ok2 != (not bad_lines):
        ctx.tie_broken("proof", "converter_sites_all_ok", "theorem and evaluation disagree: " + raw2[-400:])
    return [s for s in sites if s["line"] in bad_lines and s["emits"] and not s["sorted"]]


def part_sort_correspondence(ctx):
    """Python's sorted() on identifiers = Perm.sort_names on their UTF-8 bytes (what the proposed fix relies on)."""
    rng = ctx.rng
    alphabet = list("abcxyzABZ_019") + ["é", "λ", "名", "_"]
    cases = []
    n = 150 if ctx.tier == "quick" else 1500
    for i in range(n):
        k = rng.choice([0, 1, 2, 3, 4, 5, 8])
        names = set()
        while len(names) < k:
            s = "".join(rng.choice(alphabet) for _ in range(rng.randint(1, 6)))
            if s.isidentifier():
                names.add(s)
        names = sorted(names)          # harness-side order is irrelevant: the enumeration is shuffled next
        enum = list(names)
        rng.shuffle(enum)
        cases.append((enum, sorted(enum)))
        ctx.case(("sort", k, any(ord(c) > 127 for s in enum for c in s)))
    items = [f"({clist(e, cstr)}, {clist(s, cstr)})" for e, s in cases]
    body = (f"Require Import OV.Determinism.Perm.\nDefinition cases : list (list string * list string) := {clist(items)}.\n"
            "Definition lseq (a b : list string) : bool := if list_eq_dec string_dec a b then true else false.\n"
            "Eval vm_compute in (map fst (filter (fun p => negb (lseq (sort_names (fst (snd p))) (snd (snd p)))) (combine (seq 0 (List.length cases)) cases))).")
    ok, vals, raw = ctx.coq_eval([], body, name="sortcorr")
    if not ok:
        ctx.tie_broken("correspondence", "sort_names", raw[-600:])
        return
    bad = common.parse_nat_list(vals[0])
    ctx.obligation(f"correspondence: python sorted() = Perm.sort_names on {n} shuffled identifier sets (incl. non-ASCII)", not bad, str(bad[:5]))
    for i in bad[:3]:
        ctx.tie_broken("correspondence", "sort_names", f"python sorted({cases[i][0]}) = {cases[i][1]} differs from the model")


def part_field_trace(ctx):
    """Run the rewrite operations once with attribute tracing on the real rule objects; compare with the CFGs."""
    rules = {r["name"]: r for r in _GEN.get("rules", [])}
    ops = [o for o in op_ids() if o.startswith(("m_rw_", "x_rw_")) and o != "m_rw_operator_pattern"]
    seq = []
    for o in ops + list(reversed(ops)):
        seq.append(o)
    try:
        res = _run(seq, 0, trace=True)
    except Exception as e:  # noqa: BLE001
        ctx.tie_broken("correspondence", "field-trace", f"trace run failed: {e}")
        return
    attempts = res.get("trace", [])
    unknown_cls, unknown_field, stale = set(), set(), set()
    seen_cls = set()
    n_events = 0
    for att in attempts:
        for cls, evs in att.items():
            r = rules.get(cls)
            if r is None:
                unknown_cls.add(cls)
                continue
            seen_cls.add(cls)
            known = set(r["config"]) | set(r["mutable"]) | set(r["caches"]) | set(r["reads"])
            written = set()
            for kind, f in evs:
                n_events += 1
                if f not in known:
                    unknown_field.add(f"{cls}.{f}")
                if kind == "W":
                    written.add(f)
                elif f in r["mutable"] and f not in written:
                    stale.add(f"{cls}.{f}")
    ctx.case(("trace", len(seen_cls)), n=len(attempts))
    ctx.cover(field_trace_attempts=len(attempts), field_trace_events=n_events, field_trace_classes=sorted(seen_cls))
    ok = not unknown_cls and not unknown_field and not stale and len(seen_cls) >= 6
    ctx.obligation("correspondence: fields read/written by the real rule objects during every match attempt of the rewrite operations "
                   "are those of the translated CFGs, and no per-match field is read before it is written in the same attempt",
                   ok, f"unknown classes {sorted(unknown_cls)[:3]} unknown fields {sorted(unknown_field)[:5]} stale reads {sorted(stale)[:5]} classes seen {len(seen_cls)}")
    if unknown_cls or unknown_field:
        ctx.tie_broken("correspondence", "field-trace", f"the running rule objects touch fields the translator did not see: {sorted(unknown_cls)[:3]} {sorted(unknown_field)[:6]}")
    if stale:
        ctx.tie_broken("correspondence", "field-trace", f"per-match field read before being written in the same match attempt: {sorted(stale)[:6]}")
    if len(seen_cls) < 6 and not (unknown_cls or unknown_field or stale):
        ctx.tie_broken("harness", "field-trace", f"generator degenerate: only {len(seen_cls)} rule classes exercised")


def part_later_calls(ctx, fresh0):
    """'mutating globals afterwards changes neither the generated protos nor later calls': measured per kind of global; the capture
    discipline (Determinism/Snapshot.v) the implementation follows for eager calls and for the protos is decided per kind and the
    model's prediction table (SnapshotProofs.predict_spec) is compared with what was observed."""
    rows = []
    for kind, rebind in LATER_KINDS.items():
        op = "s_later_" + kind
        e = fresh0.get(op)
        ctx.case(("later-calls", kind))
        if e is None or not e.get("ok"):
            ctx.tie_broken("harness", "later-calls", f"{op} did not run: {(e or {}).get('err')} {(e or {}).get('msg', '')[:120]}")
            continue
        sha, obs = e["sha"], e.get("obs", {})
        if sha["eager_before"] != sha["proto_before"] or obs.get("eager_before", "ERR").startswith("ERR"):
            ctx.tie_broken("harness", "later-calls", f"{op}: eager call and generated model disagree before any mutation: {obs.get('eager_before')} / {obs.get('proto_before')}")
            continue
        proto_fixed = sha["proto_after"] == sha["proto_before"] and sha["function_after"] == sha["function"]
        eager_fixed = sha["eager_after"] == sha["eager_before"] and sha["eager_again"] == sha["eager_before"]
        rows.append((kind, rebind, eager_fixed, proto_fixed))
        replay = {"op": op, "kind": kind, "mutation": "rebinding" if rebind else "in-place", **obs}
        if not proto_fixed:
            ctx.violation(KEY_ALIAS + kind, f"{op}: the protos generated by an already decorated script function change when the global it refers to is "
                          f"mutated in place afterwards (onnxruntime on to_model_proto(): {obs.get('proto_before')} -> {obs.get('proto_after')})", replay)
        if not eager_fixed:
            ctx.violation(KEY_EAGER + kind, f"{op}: a later eager call of an already decorated script function changes when the global it refers to is "
                          f"{'rebound' if rebind else 'mutated in place'} afterwards ({obs.get('eager_before')} -> {obs.get('eager_after')}; "
                          f"the generated model still gives {obs.get('proto_after')})", replay)
    if not rows:
        return
    # which capture disciplines explain the observations: per kind, and for all kinds together
    b = lambda x: "true" if x else "false"
    body = ("Require Import OV.Determinism.Snapshot.\nFrom Coq Require Import List.\nImport ListNotations.\n"
            + "".join(f"Eval vm_compute in (map capture_code (consistent [({b(r)}, {b(ef)})])).\n"
                      f"Eval vm_compute in (map capture_code (consistent [({b(r)}, {b(pf)})])).\n" for _k, r, ef, pf in rows)
            + "Eval vm_compute in (map capture_code (consistent [" + "; ".join(f"({b(r)}, {b(ef)})" for _k, r, ef, _pf in rows) + "])).\n"
            + "Eval vm_compute in (map capture_code (consistent [" + "; ".join(f"({b(r)}, {b(pf)})" for _k, r, _ef, pf in rows) + "])).\n")
    ok, vals, raw = ctx.coq_eval([], body, name="later_calls")
    if not ok or len(vals) != 2 * len(rows) + 2:
        ctx.tie_broken("correspondence", "later-calls", raw[-500:])
        return
    names = {0: "as-read", 1: "shallow", 2: "deep"}
    table = {}
    for i, (kind, r, ef, pf) in enumerate(rows):
        table[kind] = {"mutation": "rebinding" if r else "in-place", "eager_fixed": ef, "proto_fixed": pf,
                       "eager_capture": [names[c] for c in common.parse_nat_list(vals[2 * i])],
                       "proto_capture": [names[c] for c in common.parse_nat_list(vals[2 * i + 1])]}
    eager_all = [names[c] for c in common.parse_nat_list(vals[-2])]
    proto_all = [names[c] for c in common.parse_nat_list(vals[-1])]
    ctx.cover(later_calls=table, eager_capture_explaining_all_kinds=eager_all, proto_capture_explaining_all_kinds=proto_all)
    unexplained = [k for k, t in table.items() if not t["eager_capture"] or not t["proto_capture"]]
    ctx.obligation(f"later calls: for each of the {len(rows)} kinds of global the observed behaviour of eager calls and of the protos is the one "
                   "Snapshot.predict gives for some capture discipline (SnapshotProofs.predict_spec)", not unexplained, str(unexplained))
    for k in unexplained:
        ctx.tie_broken("correspondence", "later-calls", f"{k}: no capture discipline of the model explains {table[k]}")
    ctx.obligation("later calls: eager calls of decorated script functions are unchanged by later rebinding / in-place mutation of the globals "
                   "they refer to (capture discipline 'deep' explains every kind)", "deep" in eager_all, f"explaining disciplines: {eager_all}")
    ctx.obligation("later calls: generated protos are unchanged by later rebinding / in-place mutation of the globals the script refers to "
                   "(capture discipline 'deep' explains every kind)", "deep" in proto_all, f"explaining disciplines: {proto_all}")
    ctx.sample({"later_calls": {k: table[k] for k in list(table)[:3]}})


def part_state_inventory(ctx):
    """Gen/StateInventory.v: every piece of state that outlives one operation is in one of the four classes of StateClasses.v (decided by the
    translator and the proved analyses) or names the history experiments that exercise it; anything else fails."""
    for p in _GEN.get("object_problems", []):
        ctx.tie_broken("translator", "object_cfgs", p)
    for p in _GEN.get("inventory_problems", []):
        ctx.tie_broken("translator", "state_inventory", p)
    sites = _GEN.get("inventory", [])
    ctx.obligation(f"translator state_inventory: module-level objects, cache decorators, class attributes, `global` statements and instance attributes written "
                   f"outside the constructors of {len(_GEN.get('inventory_files', []))} modules enumerated; entry methods of {len(tr.OBJECT_ENTRIES)} further long-lived "
                   "classes reduced to the must-definition language (fail-closed for the anchored modules)",
                   not _GEN.get("object_problems") and not _GEN.get("inventory_problems"),
                   "; ".join((_GEN.get("object_problems", []) + _GEN.get("inventory_problems", []))[:3]))
    ok, log = ctx.build(["Determinism/StateClassesProofs.vo", "Gen/ObjectCfgs.vo", "Gen/StateInventory.vo"])
    if not ok:
        return
    ok, vals, raw = ctx.coq_eval(["OV.Determinism.MustDef", "OV.Determinism.StateClasses", "OV.Gen.ObjectCfgs", "OV.Gen.StateInventory"],
                                 "Eval vm_compute in (bad_inventory StateInventory.inventory).\n"
                                 "Eval vm_compute in (bad_rules ObjectCfgs.objects).\n"
                                 "Eval vm_compute in (List.length (List.filter in_four_classes StateInventory.inventory)).\n", name="state_inventory")
    if not ok:
        ctx.tie_broken("proof", "bad_inventory evaluation", raw[-600:])
        return
    bad = re.findall(r'"([^"]+)"', vals[0])
    bad_objs = re.findall(r'"([^"]+)"', vals[1])
    n_four = int(re.sub(r"%\w+", "", vals[2]))
    by = {f"{s['module']}:{s['name']}": s for s in sites}
    kinds = {}
    for s in sites:
        c = s["cls"].split()[0].strip("(")
        c = {"if": "decided-by-rule_ok"}.get(c, c)
        kinds[(s["kind"], c)] = kinds.get((s["kind"], c), 0) + 1
        ctx.case(("inventory", s["kind"], c, s["module"].split("/")[0]))
    exp_sites = {k: s for k, s in by.items() if s["cls"].startswith("SExperiment")}
    ctx.cover(inventory_sites=len(sites), inventory_in_four_classes=n_four, inventory_modules=len(_GEN.get("inventory_files", [])),
              inventory_by_kind_and_class={f"{a}/{b}": n for (a, b), n in sorted(kinds.items())},
              inventory_experiments={k: {"ops": INV_EXPERIMENTS[k][0], "why": INV_EXPERIMENTS[k][1]} for k in exp_sites if k in INV_EXPERIMENTS},
              inventory_object_entries_rejected_by_must_def=bad_objs, inventory_excluded_dirs=list(tr.INV_EXCLUDE))
    ctx.obligation(f"process state inventory: each of the {len(sites)} pieces of state that outlive one operation is keyed by everything the result depends on, "
                   "reset at the start of every operation (or belongs to an object created per operation), written before read on every path (must-definition "
                   "check), written only at import, or names its history experiments (bad_inventory over Gen/StateInventory.v by vm_compute)",
                   not bad, "neither classified nor exercised: " + "; ".join(f"{b} ({by.get(b, {}).get('why', '?')[:120]})" for b in bad[:6]))
    for b in bad[:8]:
        ctx.tie_broken("translator", "state_inventory", f"state that outlives an operation and is in none of the four classes, with no history experiment named: {b} "
                       f"({by.get(b, {}).get('why', '?')[:300]}): results may depend on what the process did before")
    # the experiments named must exist and have a history before them in a fixed sequence
    ids = set(op_ids())
    with_history = {o for sq in FIXED_SEQUENCES for o in sq[1:]}
    after_failure = {o for sq in FIXED_SEQUENCES for i, o in enumerate(sq) if any(h.startswith("x_") for h in sq[:i])}
    missing = sorted({o for k in exp_sites for o in INV_EXPERIMENTS.get(k, ([], ""))[0] if o not in ids or o not in with_history})
    no_fail = sorted(k for k in exp_sites if not any(o in after_failure for o in INV_EXPERIMENTS.get(k, ([], ""))[0]))
    stale = sorted(k for k in INV_EXPERIMENTS if k not in by)
    ctx.obligation(f"process state inventory: the {len(exp_sites)} sites outside the four classes name history experiments that exist, run after a history in "
                   "a fixed sequence, and at least one per site runs after a failing operation", not missing and not no_fail and not stale,
                   f"missing/without history: {missing}; never after a failing operation: {no_fail}; entries whose site is gone: {stale}")
    if missing or no_fail or stale:
        ctx.tie_broken("harness", "state_inventory", f"experiment table out of date: missing {missing}, no failing history {no_fail}, stale {stale}")
    _GEN["experiment_ops"] = sorted({o for k in exp_sites for o in INV_EXPERIMENTS.get(k, ([], ""))[0]})
    if not bad:
        okt, _v, rawt = ctx.coq_eval([], "Require Import OV.Determinism.MustDef OV.Determinism.StateClasses OV.Determinism.StateClassesProofs OV.Gen.StateInventory.\n"
                                         "From Coq Require Import List String.\nImport ListNotations.\n"
                                         "Theorem inventory_all_ok : bad_inventory StateInventory.inventory = [].\nProof. vm_compute. reflexivity. Qed.\n"
                                         "Theorem inventory_sites_classified : forall s, In s StateInventory.inventory ->\n"
                                         "  in_four_classes s = true \\/ exists ops, iv_class s = SExperiment ops /\\ ops <> [].\n"
                                         "Proof. exact (inventory_ok_classes StateInventory.inventory inventory_all_ok). Qed.\n"
                                         "Print Assumptions inventory_sites_classified.\n", name="inventory_thm")
        closed = okt and "Closed under the global context" in rawt
        ctx.obligation("process state inventory: theorem inventory_sites_classified over Gen/StateInventory.v (every site is in a class of "
                       "C14_four_classes_history_independent or names experiments)", closed, rawt[-300:])
        if not closed:
            ctx.tie_broken("proof", "inventory_sites_classified", rawt[-400:])
    must = ["optimizer/_constant_folding:FoldConstantsPass._modified", "rewriter/_rewrite_rule:RewriteRuleSet._value_name_counter",
            "_internal/values:Opset.cache", "rewriter/_matcher:SimplePatternMatcher._match", "_internal/converter:Converter._locals",
            "rewriter/rules/common/_basic_rules:ReshapeReshape._new_shape", "version_converter/_version_converter:_VersionConverter._modified"]
    gone = [m for m in must if m not in by]
    if gone or len(sites) < 150:
        ctx.tie_broken("translator", "state_inventory", f"degenerate: {len(sites)} sites; anchored state no longer seen: {gone}")


def part_capture_policy(ctx):
    """Gen/CapturePolicy.v: the copy policy of each place where a script-time constant enters the function, as the sources say now."""
    for p in _GEN.get("capture_problems", []):
        ctx.tie_broken("translator", "capture_policy", p)
    sites = _GEN.get("capture_sites", [])
    ctx.obligation("translator capture_policy: Converter._emit_const, Converter._translate_attr and main._freeze_constant copy an ndarray constant under a "
                   "recognised condition, before it is handed on, and no other function of converter.py/irbuilder.py builds a tensor from a python value "
                   "(fail-closed)", not _GEN.get("capture_problems") and len(sites) == len(tr.CAPTURE_SITES), "; ".join(_GEN.get("capture_problems", [])[:3]))
    ctx.cover(capture_sites={s["name"]: {"policy": s["policy"], "copied_types": s["types"], "line": s["line"]} for s in sites})
    for s in sites:
        ctx.case(("capture-site", s["name"], s["policy"]))
    ok, vals, raw = ctx.coq_eval([], "Require Import OV.Determinism.Alias OV.Determinism.AliasProofs OV.Gen.CapturePolicy.\nFrom Coq Require Import List String.\n"
                                     "Eval vm_compute in (weak_policies CapturePolicy.capture_policies).\n", name="capture_policy")
    if not ok:
        ctx.tie_broken("proof", "weak_policies evaluation", raw[-500:])
        return
    weak = re.findall(r'"([^"]+)"', vals[0])
    _GEN["weak_capture_sites"] = weak
    okt, rawt = False, ""
    if not weak:
        okt, _v, rawt = ctx.coq_eval([], "Require Import OV.Determinism.Alias OV.Determinism.AliasProofs OV.Gen.CapturePolicy.\nFrom Coq Require Import List String.\n"
                                         "Theorem capture_sites_all_deep : forallb (fun sp => is_always (snd sp)) CapturePolicy.capture_policies = true.\n"
                                         "Proof. vm_compute. reflexivity. Qed.\n"
                                         "Theorem capture_sites_fixed : forall sp, In sp CapturePolicy.capture_policies ->\n"
                                         "  later_results_fixed_alias (snd sp) /\\ captures_decoration_values (snd sp).\n"
                                         "Proof. exact (policies_fixed CapturePolicy.capture_policies capture_sites_all_deep). Qed.\n"
                                         "Print Assumptions capture_sites_fixed.\n", name="capture_thm")
    ctx.obligation(f"script-time constants: each of the {len(sites)} capture sites read from the sources copies an ndarray unconditionally, hence later writes "
                   "through any alias change nothing (theorem capture_sites_fixed over Gen/CapturePolicy.v)",
                   not weak and okt and "Closed under the global context" in rawt, f"sites that do not always copy: {weak}" if weak else rawt[-300:])
    if not weak and not (okt and "Closed under the global context" in rawt):
        ctx.tie_broken("proof", "capture_sites_fixed", rawt[-400:])


def part_alias_calls(ctx, fresh0):
    """Constants that share memory with a mutable base (Determinism/Alias.v): per kind, is the result fixed when the BASE is written after
    decoration; which copy policy explains the observations; does it agree with what the translator read from the sources."""
    rows, broken = [], []
    for kind, (flag, use, family) in ALIAS_KINDS.items():
        op = "s_alias_" + kind
        e = fresh0.get(op)
        ctx.case(("alias-calls", kind, family, use, flag))
        if e is None or not e.get("ok"):
            ctx.tie_broken("harness", "alias-calls", f"{op} did not run: {(e or {}).get('err')} {(e or {}).get('msg', '')[:120]}")
            continue
        sha, obs = e["sha"], e.get("obs", {})
        if sha["eager_before"] != sha["proto_before"] or obs.get("eager_before", "ERR").startswith("ERR"):
            broken.append(f"{op}: eager call and generated model disagree before any mutation: {obs.get('eager_before')} / {obs.get('proto_before')}")
            continue
        if obs.get("obs_seen_after") == obs.get("obs_seen_before") or "obs_seen_after" not in obs or obs.get("obs_seen_before", "ERR").startswith("ERR"):
            broken.append(f"{op}: the write to the base is not visible through the object the script refers to ({obs.get('obs_seen_before')} -> {obs.get('obs_seen_after')})")
            continue
        if flag is not None and obs.get("obs_writeable") != repr(flag):
            broken.append(f"{op}: the object's own writeable flag is {obs.get('obs_writeable')}, the kind table says {flag}")
            continue
        proto_fixed = sha["proto_after"] == sha["proto_before"] and sha["function_after"] == sha["function"]
        eager_fixed = sha["eager_after"] == sha["eager_before"] and sha["eager_again"] == sha["eager_before"]
        rows.append((kind, flag, use, family, eager_fixed, proto_fixed))
        replay = {"op": op, "kind": kind, "mutation": "write to the base object after decoration", **obs}
        if not proto_fixed:
            ctx.violation(KEY_ALIAS + "alias_" + kind, f"{op}: the protos generated by an already decorated script function change when the storage its constant "
                          f"shares with another object is written afterwards (onnxruntime on to_model_proto(): {obs.get('proto_before')} -> {obs.get('proto_after')}; "
                          f"own writeable flag of the constant: {obs.get('obs_writeable')})", replay)
        if not eager_fixed:
            ctx.violation(KEY_EAGER + "alias_" + kind, f"{op}: a later eager call of an already decorated script function changes when the storage its constant "
                          f"shares with another object is written afterwards ({obs.get('eager_before')} -> {obs.get('eager_after')}; the generated model gives "
                          f"{obs.get('proto_after')})", replay)
    for b in broken:
        ctx.tie_broken("harness", "alias-calls", b)
    ctx.obligation(f"shared-memory generator: each of the {len(ALIAS_KINDS)} kinds runs, eager call = generated model before the mutation, the write to the base is "
                   "visible through the object the script refers to, and the object's own writeable flag is the one the kind table states",
                   not broken and len(rows) == len(ALIAS_KINDS), "; ".join(broken[:3]))
    arr = [r for r in rows if r[1] is not None]
    if not arr:
        return
    b = lambda x: "true" if x else "false"
    groups = {"proto:expr": [(f, pf) for _k, f, u, _fam, _ef, pf in arr if u == "expr"],
              "proto:attr": [(f, pf) for _k, f, u, _fam, _ef, pf in arr if u == "attr"],
              "eager:ndarray": [(f, ef) for _k, f, _u, fam, ef, _pf in arr if fam == "ndarray"],
              "eager:container": [(f, ef) for _k, f, _u, fam, ef, _pf in arr if fam == "container"]}
    body = ("Require Import OV.Determinism.Alias.\nFrom Coq Require Import List.\nImport ListNotations.\n"
            + "".join("Eval vm_compute in (map policy_code (consistent_alias [" + "; ".join(f"({b(f)}, {b(x)})" for f, x in g) + "])).\n" for g in groups.values()))
    ok, vals, raw = ctx.coq_eval([], body, name="alias_calls")
    if not ok or len(vals) != len(groups):
        ctx.tie_broken("correspondence", "alias-calls", raw[-500:])
        return
    names = {0: "no-copy", 1: "copy-if-writeable", 2: "copy-always"}
    expl = {g: [names[c] for c in common.parse_nat_list(v)] for g, v in zip(groups, vals)}
    ctx.cover(alias_calls={k: {"own_writeable_flag": f, "use": u, "family": fam, "eager_fixed": ef, "proto_fixed": pf} for k, f, u, fam, ef, pf in rows},
              alias_policies_explaining=expl)
    ctx.sample({"alias_calls": {k: {"flag": f, "eager_fixed": ef, "proto_fixed": pf} for k, f, _u, _fam, ef, pf in rows[:3]}})
    site_of = {"proto:expr": "converter:_emit_const", "proto:attr": "converter:_translate_attr", "eager:ndarray": "main:_freeze_constant"}
    pol = {s["name"]: {"NoCopy": "no-copy", "CopyIfWriteable": "copy-if-writeable", "CopyAlways": "copy-always"}[s["policy"]] for s in _GEN.get("capture_sites", [])}
    for g, site in site_of.items():
        ctx.obligation(f"shared memory ({g}): the generated results are unchanged by writes to the base of a view / buffer window / memory map, whatever the "
                       "view's own writeable flag (policy 'copy-always' of Alias.predict_alias explains every kind)", "copy-always" in expl[g],
                       f"explaining policies: {expl[g]}")
        if site in pol and pol[site] not in expl[g]:
            ctx.obligation(f"correspondence: the copy policy the translator read at {site} explains the observed kinds", False, f"translated {pol[site]}, observed {expl[g]}")
            if "copy-always" in expl[g] or not expl[g]:
                # the observed behaviour is not what the source text says and no violation explains it
                ctx.tie_broken("correspondence", "capture_policy", f"{site}: translated policy {pol[site]} but the {g} observations are explained by {expl[g]}")
        elif site in pol:
            ctx.obligation(f"correspondence: the copy policy the translator read at {site} explains the observed kinds", True, "")
    ctx.obligation("shared memory (eager, arrays held in a list / tuple global): later eager calls are unchanged by writes to the arrays inside "
                   "(policy 'copy-always' explains every kind)", "copy-always" in expl["eager:container"], f"explaining policies: {expl['eager:container']}")
    others = [r for r in rows if r[1] is None]
    ctx.obligation("shared memory (tensor objects that are not arrays: TensorProto, onnx_ir.Tensor used as an attribute value): protos and eager calls are "
                   "unchanged by later mutation of the object", all(ef and pf for *_x, ef, pf in others), str([(r[0], r[4], r[5]) for r in others]))
    weak = _GEN.get("weak_capture_sites") or []
    if weak and all(pf and ef for _k, _f, _u, fam, ef, pf in rows if fam == "ndarray"):
        ctx.tie_broken("proof", "capture_sites_fixed", f"capture sites {weak} do not copy unconditionally but no sampled kind of shared memory shows a changed result")


def make_sequences(ctx):
    ids = op_ids()
    seqs = [list(s) for s in FIXED_SEQUENCES]
    for s in seqs:
        for o in s:
            assert o in ids, o
    n_random = 6 if ctx.tier == "quick" else 48
    rng = ctx.rng
    fams = sorted(FAMILIES)
    for _ in range(n_random):
        k = rng.randint(4, 8)
        f1, f2 = rng.choice(fams), rng.choice(fams)
        pool = FAMILIES[f1] * 2 + FAMILIES[f2] + [rng.choice(ids)]
        seqs.append([rng.choice(pool) for _ in range(k)])
    return seqs


def part_oracle(ctx, unsorted_sites, bad_rules):
    ids = op_ids()
    seeds = ["0", "1", "7"] if ctx.tier == "quick" else ["0", "1", "2", "3", "7", "42", "12345", "4294967295"]
    seqs = make_sequences(ctx)
    jobs = [("fresh", (o,), "0") for o in ids]
    for i, s in enumerate(seqs):
        if ctx.tier == "quick":
            jobs.append(("seq", tuple(s), seeds[i % len(seeds)]))
        else:
            for sd in (seeds[i % len(seeds)], seeds[(i + 3) % len(seeds)]):
                jobs.append(("seq", tuple(s), sd))
    # every operation once, in catalogue order, under further hash seeds (three processes per half): an order taken from a
    # Python set anywhere on the way to the serialized result shows up here whatever the operation is
    extra_seeds = ["1", "2", "3"] if ctx.tier == "quick" else ["1", "2", "3", "5", "11", "99"]
    half = (len(ids) + 1) // 2
    for sd in extra_seeds:
        jobs.append(("seq", tuple(ids[:half]), sd))
        jobs.append(("seq", tuple(ids[half:]), sd))
    cache = {}

    def do(job):
        kind, ops, seed = job
        key = (ops, seed)
        if key not in cache:
            cache[key] = _run(ops, seed, want_bytes=True)
        return cache[key]

    with ThreadPoolExecutor(max_workers=_workers()) as ex:
        results = list(ex.map(do, jobs))
    for r in results:
        if os.path.realpath(r.get("repo", "")) != os.path.realpath(common.REPO):
            ctx.tie_broken("harness", "runner", f"runner imported onnxscript from {r.get('repo')} instead of {common.REPO}")
            return
    fresh0 = {}
    for job, r in zip(jobs, results):
        if job[0] == "fresh":
            fresh0[job[1][0]] = r["results"][0]
    errs = sorted(o for o, e in fresh0.items() if not e["ok"])
    expected_err = sorted(o for o in ids if o.startswith("x_") and o != "x_opt_bad")
    if errs != expected_err:
        ctx.tie_broken("harness", "op-catalogue", f"operations expected to fail {expected_err}, failing {errs}: "
                       + "; ".join(f"{o}: {fresh0[o].get('msg', '')[:80]}" for o in errs if o not in expected_err))
    # --- fixed relations
    for a, b, key in SAME_AS:
        ea, eb = fresh0[a], fresh0[b]
        ctx.case(("same-as", a))
        if ea["ok"] and eb["ok"] and any(ea["sha"].get(k) != eb["sha"].get(k) for k in ("function", "model") if k in eb["sha"]):
            ctx.violation(key, f"{a}: protos differ from {b} although only globals were mutated after decoration", {"op": a, "reference": b, "got": ea["sha"], "want": eb["sha"]})
    for rop in ("s_repeat", "s_repeat_lib"):
        rep = fresh0.get(rop, {})
        ctx.case(("repeat", rop))
        if rep.get("flag") != "repeat-identical":
            ctx.violation("C14:repeat:to_proto-not-idempotent", f"{rop}: repeated to_model_proto()/to_function_proto() gave different bytes or modified a function",
                          {"op": rop, "result": rep})
            break
    po = fresh0.get("s_proto_options", {})
    ctx.case(("proto-options",))
    if po.get("flag") != "options-identical":
        ctx.violation("C14:repeat:to_model_proto-options-interfere", "to_model_proto() with different options in sequence: the same option set gave different bytes "
                      "at different points of the sequence, or the function proto changed", {"op": "s_proto_options", "result": po})
    # --- self-test of the comparison: a user rule with a counter on the rule object must be seen as history dependent
    try:
        st = _run(["t_rw_user_counter", "m_rw_flatten", "t_rw_user_counter"], "0")["results"]
        blind = _sig(st[0]) == _sig(st[2]) or not st[0]["ok"]
    except Exception as e:  # noqa: BLE001
        st, blind = [{"err": str(e)}], True
    ctx.case(("selftest", "user-rule-counter"))
    ctx.obligation("oracle self-test: rewriting with a user rule set whose rule keeps a counter on the rule object gives a different result the second "
                   "time in the same process (the comparison does notice history dependence)", not blind, json_short(st))
    if blind:
        ctx.tie_broken("harness", "oracle-selftest", "a rule that counts its matches on the rule object was not seen as history dependent: " + json_short(st))
    # --- histories and seeds
    extra_cache = {}

    def fresh_at(op, seed):
        if seed == "0":
            return fresh0[op]
        k = (op, seed)
        if k not in extra_cache:
            extra_cache[k] = _run([op], seed, want_bytes=True)["results"][0]
        return extra_cache[k]

    n_pairs = 0
    seed_dep = {}      # op -> class
    hist_dep = []
    fired = 0
    for job, r in zip(jobs, results):
        kind, ops, seed = job
        if kind != "seq":
            continue
        for i, e in enumerate(r["results"]):
            op = ops[i]
            n_pairs += 1
            hist = ops[:i]
            ctx.case((family_of(op), "after", tuple(sorted({family_of(h) for h in hist})), any(h.startswith("x_") for h in hist), seed != "0"))
            if e.get("optypes") is not None and e["ok"]:
                fired += 1
            if _sig(e) == _sig(fresh0[op]):
                continue
            # differs from the fresh seed-0 run: seed or history?
            f_s = fresh_at(op, seed)
            if _sig(f_s) != _sig(fresh0[op]):
                cls = "other"
                if f_s["ok"] and fresh0[op]["ok"] and "function_hex" in f_s and "function_hex" in fresh0[op]:
                    cls = classify_function_diff(fresh0[op]["function_hex"], f_s["function_hex"])
                seed_dep.setdefault((op, cls), seed)
            if _sig(e) != _sig(f_s):
                hist_dep.append((op, hist, seed, e, f_s))
    # every script op alone under the other seeds as well (the fresh process is the simplest history)
    script_ops = [o for o in ids if o.startswith("s_")]
    with ThreadPoolExecutor(max_workers=_workers()) as ex:
        todo = [(o, s) for o in script_ops for s in seeds[1:]]
        for (o, s), e in zip(todo, ex.map(lambda t: fresh_at(*t), todo)):
            n_pairs += 1
            ctx.case((family_of(o), "fresh", "seed"))
            if _sig(e) != _sig(fresh0[o]):
                cls = "other"
                if e["ok"] and fresh0[o]["ok"]:
                    cls = classify_function_diff(fresh0[o]["function_hex"], e["function_hex"])
                seed_dep.setdefault((o, cls), s)
    classes_seen = set()
    for (op, cls), seed in sorted(seed_dep.items()):
        classes_seen.add(cls)
        key = {"If-output-order": KEY_IF, "Loop-state-order": KEY_LOOP}.get(cls, f"C14:hashseed:{op}:{cls}")
        ctx.violation(key, f"{op}: serialized result under PYTHONHASHSEED={seed} differs from PYTHONHASHSEED=0 ({cls})",
                      {"op": op, "seed": seed, "class": cls, "seed0": fresh0[op].get("sha"), "seedN": fresh_at(op, seed).get("sha")})
    counter_dep = [t for t in hist_dep if t[3].get("ok") and t[4].get("ok") and "model_hex" in t[3] and "model_hex" in t[4]
                   and only_fresh_value_names_differ(t[3]["model_hex"], t[4]["model_hex"])]
    other_dep = [t for t in hist_dep if not any(t is c for c in counter_dep)]
    if counter_dep:
        op, hist, seed, e, f_s = min(counter_dep, key=lambda t: len(t[1]))
        last = [h for h in hist if h.startswith("m_rw_")][-1:] or hist[-1:]
        ctx.violation(KEY_COUNTER,
                      f"{op} after history {list(hist)} differs from the same operation in a fresh process only in the names the rewriter generates "
                      f"for new values (rewritten_val_<n>): RewriteRuleSet._value_name_counter is not re-initialised by apply_to_model "
                      f"({len(counter_dep)} target/history pairs)",
                      {"op": op, "history": list(hist), "seed": seed, "minimal_history": last, "got": e.get("sha"), "fresh": f_s.get("sha"),
                       "pairs": len(counter_dep)})
    if _GEN.get("ruleset_variant") == "as-read" and not counter_dep:
        ctx.tie_broken("proof", "rule_ok pass_rule_set", "RewriteRuleSet.apply_to_model reads a field of the rule-set object that it does not re-initialise, "
                       "but no sampled history shows a different result")
    ctx.cover(history_dependent_only_in_generated_names=len(counter_dep))
    for op, hist, seed, e, f_s in other_dep[:6]:
        culprit = "sequence"
        for p in reversed(hist):
            try:
                rr = _run([p, op], seed)["results"][1]
            except Exception:  # noqa: BLE001
                continue
            if _sig(rr) != _sig(f_s):
                culprit = p
                break
        ctx.violation(f"C14:history:{op}:after:{culprit}",
                      f"{op} after history {list(hist)} (PYTHONHASHSEED={seed}) differs from the same operation in a fresh process",
                      {"op": op, "history": list(hist), "seed": seed, "got": e.get("sha") or e.get("err"), "fresh": f_s.get("sha") or f_s.get("err"),
                       "got_flag": e.get("flag"), "fresh_flag": f_s.get("flag"), "got_optypes": e.get("optypes"), "fresh_optypes": f_s.get("optypes")})
    ctx.cover(operations=len(ids), sequences=len(seqs), seeds=seeds, target_history_seed_triples=n_pairs, processes=len(jobs) + len(extra_cache),
              failing_operations_in_histories=expected_err, seed_dependent=sorted(f"{o}:{c}" for (o, c) in seed_dep),
              history_dependent=len(hist_dep), rewrite_results_observed=fired)
    ctx.sample({"sequence": seqs[0], "seed": seeds[0]})
    ctx.sample({"sequence": seqs[-1], "seed": seeds[(len(seqs) - 1) % len(seeds)]})
    part_later_calls(ctx, fresh0)
    part_alias_calls(ctx, fresh0)
    ctx.obligation("direct oracle: every operation gives the same bytes after every sampled history as in a fresh process", not hist_dep,
                   "; ".join(f"{o} after {list(h)}" for o, h, *_ in hist_dep[:3]))
    ctx.obligation("direct oracle: every operation gives the same bytes under every sampled PYTHONHASHSEED", not seed_dep,
                   "; ".join(f"{o}: {c}" for (o, c) in sorted(seed_dep)))
    # unsorted sites must be explained by a concrete seed-dependent translation, else the translator tie is broken
    if unsorted_sites:
        need = set()
        for s in unsorted_sites:
            need.add("If-output-order" if "if_stmt" in s["func"] else "Loop-state-order" if "loop_stmt" in s["func"] else f"{s['func']}:{s['line']}")
        unexplained = sorted(need - classes_seen)
        if unexplained and not seed_dep:
            ctx.tie_broken("translator", "converter_sites", f"unsorted set->sequence sites without an observed seed-dependent result: {unexplained} "
                           f"(lines {[s['line'] for s in unsorted_sites]})")
    if _GEN.get("bad_wide") and not seed_dep:
        ctx.tie_broken("translator", "wide_sites", "unsorted set->sequence sites without an observed seed-dependent result: "
                       + "; ".join(f"{s['file']}:{s['line']}" for s in _GEN["bad_wide"]))
    return seed_dep, hist_dep


# ----------------------------------------------------------------------------------------------- run

def run(ctx):
    ctx.assume("expression values in check()/rewrite() are deterministic functions of the arguments, the model and the fields of self read so far "
               "(MustDef oracle); state outside the rule object (module globals mutated by a rule, objects shared through configuration fields) "
               "is not modelled -- the direct oracle measures it on the sampled histories")
    ctx.assume("protobuf map ordering is neutralised by SerializeToString(deterministic=True); OS-level nondeterminism is not modelled")
    ctx.assume("a configuration field (assigned only while the object is constructed) holds the same value in every process; mutation of the "
               "object a configuration field refers to by code outside the class is not modelled")
    ctx.assume("a script function body only looks outer names up (Snapshot.respects): python code that inspects the namespace object itself "
               "(globals(), vars()) is outside the model; kinds of globals measured: " + ", ".join(LATER_KINDS)
               + "; kinds of shared memory measured: " + ", ".join(ALIAS_KINDS))
    ctx.assume("Alias.outside: the rest of the program cannot name the buffers the decorator allocated for its copies (a copy made by ndarray.copy() / "
               "copy.deepcopy is referenced only by the function being built)")
    ctx.assume("what a memoizing method computes on a miss depends only on the parameters the method mentions (depends_only_on) and on "
               "process-constant state (the onnx reference-op registry)")
    ctx.trust("translators harness/c14_translate.py (python ast, fail-closed) -- trusted to emit a faithful image of the recognised shapes; "
              "cross-checked by the run-time field trace of the real rule objects")
    part_translators(ctx)
    bad_rules = part_rule_proofs(ctx)
    ctx.check_props()
    part_process_state(ctx)
    part_state_inventory(ctx)
    part_capture_policy(ctx)
    unsorted_sites = part_sites(ctx)
    part_sort_correspondence(ctx)
    part_field_trace(ctx)
    part_oracle(ctx, unsorted_sites or [], bad_rules)
    if ctx.tier == "thorough":
        ctx.coqchk(["Props.C14"])


def replay(doc):
    """./check C14 --replay <path>: re-run the recorded operation after its history and fresh."""
    import json
    r = doc.get("replay", {})
    if "op" not in r:
        print(json.dumps(doc, indent=1))
        return 0
    seed = r.get("seed", "0")
    hist = r.get("history", [])
    a = _run(list(hist) + [r["op"]], seed)["results"][-1]
    b = _run([r["op"]], "0")["results"][0]
    print(json.dumps({"after_history": a, "fresh_seed0": b}, indent=1)[:4000])
    return 1 if _sig(a) != _sig(b) else 0
