(* C05, extended values: the elementwise order rules (_fuse_relus_clips.py, _min_max_to_clip.py) over
   float tensors WITH NaN and the two infinities.

     xval := XNaN | XNInf | XFin z | XPInf

   XFin carries an integer: the content of these rules is order-theoretic, every finite float32 / float16 /
   float64 value v is sent to v * 2^k (an order isomorphism fixing 0) by the harness, and `M` is the image of
   numeric_limits<T>::max().  Equality of xval is the equality the property uses for float outputs:
   NaN equals NaN at the same position and nothing else (numpy array_equal(equal_nan=True)).
   Signed zero is NOT in this model: -0.0 and +0.0 are identified (as numpy equality does); the one rule
   where the sign of a zero changes (x + 0 at x = -0.0) has its own model in Rules/XNoOp.v.

   Kernel semantics are those of the onnxruntime 1.30 CPU kernels, MEASURED by harness/c05_fam_xval.py on
   every run (stream `kernel`), float32 / float64 / float16 alike:
     Relu(x)            = (x < 0) ? 0 : x                    Relu(NaN) = NaN, Relu(-inf) = 0
     Clip(x, lo, hi)    = kmin (kmax x lo') hi'              lo' = lo or lowest() when absent, hi' = hi or max()
         kmax x b = (x < b) ? b : x,  kmin x b = (b < x) ? b : x
         => Clip(NaN, ..) = NaN; a NaN BOUND IS IGNORED (as if -inf / +inf); an ABSENT bound clamps +-inf to
            +-max() (operator document: "default to numeric_limits::lowest() and max()"); lo > hi gives hi.
     Min / Max operators = NaN-propagating in either operand position (pmin / pmax); so are numpy's
         np.minimum / np.maximum / np.min / np.max, which the rules use to fuse the constants.
   onnx.reference differs (Clip with a NaN bound gives NaN everywhere, an absent bound does not clamp an
   infinity); onnxruntime is the judge.  No proofs in this file. *)
From Coq Require Import ZArith List Bool.
Import ListNotations.
Local Open Scope Z_scope.

Inductive xval := XNaN | XNInf | XFin (z : Z) | XPInf.

Definition xeqb (a b : xval) : bool :=
  match a, b with
  | XNaN, XNaN | XNInf, XNInf | XPInf, XPInf => true
  | XFin x, XFin y => x =? y
  | _, _ => false
  end.

Definition isnan (a : xval) : bool := match a with XNaN => true | _ => false end.

(* IEEE a < b: false as soon as one side is NaN *)
Definition xlt (a b : xval) : bool :=
  match a, b with
  | XNaN, _ | _, XNaN => false
  | XNInf, XNInf => false
  | XNInf, _ => true
  | _, XNInf => false
  | XPInf, _ => false
  | XFin _, XPInf => true
  | XFin x, XFin y => x <? y
  end.

(* --- kernels ------------------------------------------------------------------------------------ *)
Definition kmax (x b : xval) : xval := if xlt x b then b else x.
Definition kmin (x b : xval) : xval := if xlt b x then b else x.
Definition relu (x : xval) : xval := kmax x (XFin 0).
Definition lo_eff (M : Z) (lo : option xval) : xval := match lo with Some l => l | None => XFin (- M) end.
Definition hi_eff (M : Z) (hi : option xval) : xval := match hi with Some h => h | None => XFin M end.
Definition clip (M : Z) (x : xval) (lo hi : option xval) : xval := kmin (kmax x (lo_eff M lo)) (hi_eff M hi).

(* Min / Max operators, np.minimum / np.maximum *)
Definition pmax (a b : xval) : xval := if isnan a || isnan b then XNaN else if xlt a b then b else a.
Definition pmin (a b : xval) : xval := if isnan a || isnan b then XNaN else if xlt b a then b else a.

(* every value of the tensor's element type lies in [-M, M] or is special *)
Definition wfx (M : Z) (v : xval) : Prop := match v with XFin z => - M <= z <= M | _ => True end.
Definition wfo (M : Z) (o : option xval) : Prop := match o with Some v => wfx M v | None => True end.
Definition wfxb (M : Z) (v : xval) : bool := match v with XFin z => (- M <=? z) && (z <=? M) | _ => true end.

(* --- _fuse_relus_clips.py over xval --------------------------------------------------------------- *)
Definition combine (op : xval -> xval -> xval) (a b : option xval) : option xval :=
  match a, b with
  | Some x, Some y => Some (op x y)
  | Some x, None => Some x
  | None, Some y => Some y
  | None, None => None
  end.

(* FuseSuccessiveClip.compute_clip_min_max (np.maximum / np.minimum on the constants) *)
Definition clipclip_bounds (l1 h1 l2 h2 : option xval) : option xval * option xval :=
  let h1' := match h1, l2 with Some h, Some l => Some (pmax h l) | _, _ => h1 end in
  (combine pmax l1 l2, combine pmin h1' h2).
(* FuseSuccessiveClipRelu: np.maximum(0.0, min_clip or 0) *)
Definition cliprelu_bounds (lo hi : option xval) : option xval * option xval :=
  (Some (pmax (XFin 0) (match lo with Some l => l | None => XFin 0 end)), hi).
(* FuseSuccessiveReluClip: additionally np.maximum(0.0, max_clip) *)
Definition reluclip_bounds (lo hi : option xval) : option xval * option xval :=
  (Some (pmax (XFin 0) (match lo with Some l => l | None => XFin 0 end)),
   match hi with Some h => Some (pmax (XFin 0) h) | None => None end).

Definition lhs_clipclip M l1 h1 l2 h2 x := clip M (clip M x l1 h1) l2 h2.
Definition lhs_cliprelu M lo hi x := clip M (relu x) lo hi.
Definition lhs_reluclip M lo hi x := relu (clip M x lo hi).
Definition rhs M (b : option xval * option xval) x := clip M x (fst b) (snd b).

(* side conditions under which the fusions are value-preserving on extended values *)
Definition not_nan_o (o : option xval) : bool := match o with Some XNaN => false | _ => true end.
(* an absent bound (clamps the infinity to +-max) next to a present infinite one (does not clamp) *)
Definition is_inf (pos : bool) (o : option xval) : bool :=
  match o with Some XPInf => pos | Some XNInf => negb pos | _ => false end.
Definition absent (o : option xval) : bool := match o with None => true | _ => false end.
Definition mixes (pos : bool) (a b : option xval) : bool :=
  (absent a && is_inf pos b) || (is_inf pos a && absent b).
Definition safe_clipclip (l1 h1 l2 h2 : option xval) : bool :=
  not_nan_o l1 && not_nan_o h1 && not_nan_o l2 && not_nan_o h2 &&
  negb (mixes false l1 l2) && negb (mixes true h1 h2) &&
  (* a lower bound +inf / an upper bound -inf produces an infinity that an absent bound of the other Clip clamps *)
  negb (is_inf true l1) && negb (is_inf true l2) && negb (is_inf false h1) && negb (is_inf false h2).
Definition safe_relu (lo hi : option xval) : bool := not_nan_o lo && not_nan_o hi.

(* --- _min_max_to_clip.py over xval ----------------------------------------------------------------- *)
Definition minl (x : xval) (cs : list xval) : xval := fold_left pmin cs x.
Definition maxl (x : xval) (cs : list xval) : xval := fold_left pmax cs x.
Definition red (op : xval -> xval -> xval) (vs : list xval) : option xval :=
  match vs with [] => None | v :: t => Some (fold_left op t v) end.
Definition no_nans (l : list xval) : bool := forallb (fun c => negb (isnan c)) l.

Inductive mkind := MinMin | MaxMax | MaxMinClip | MinMaxClip.
Definition mm_lhs (k : mkind) (cs ds : list xval) (x : xval) : xval :=
  match k with
  | MinMin => minl (minl x cs) ds
  | MaxMax => maxl (maxl x cs) ds
  | MaxMinClip => minl (maxl x cs) ds
  | MinMaxClip => maxl (minl x cs) ds
  end.
(* value side of the rules (shape side conditions are in Rules/MinMax.v); None = does not fire / raises *)
Definition mm_rhs (M : Z) (k : mkind) (cs ds : list xval) (x : xval) : option xval :=
  match k with
  | MinMin => match red pmin (cs ++ ds) with Some c => Some (pmin x c) | None => None end
  | MaxMax => match red pmax (cs ++ ds) with Some c => Some (pmax x c) | None => None end
  | MaxMinClip =>
      match red pmax cs, red pmin ds with
      | Some lo, Some hi => Some (clip M x (Some lo) (Some hi))
      | _, _ => None
      end
  | MinMaxClip =>
      match red pmin cs, red pmax ds with
      | Some ub, Some lb => if xlt ub lb then None else Some (clip M x (Some lb) (Some ub))   (* `lower > upper` refuses *)
      | _, _ => None
      end
  end.

(* --- correspondence ------------------------------------------------------------------------------- *)
(* kernel stream: (op, operands, observed by onnxruntime) *)
Inductive kop := KRelu | KClip | KMin | KMax.
Definition kcase := (kop * xval * option xval * option xval * xval)%type.     (* op, x, a, b, observed *)
Definition kmodel (M : Z) (c : kcase) : xval :=
  let '(o, x, a, b, _) := c in
  match o with
  | KRelu => relu x
  | KClip => clip M x a b
  | KMin => match a with Some c => pmin x c | None => x end
  | KMax => match a with Some c => pmax x c | None => x end
  end.
Fixpoint idx_false {A} (f : A -> bool) (i : nat) (l : list A) : list nat :=
  match l with [] => [] | c :: t => (if f c then [] else [i]) ++ idx_false f (S i) t end.
Definition kdis (M : Z) (cs : list kcase) : list nat :=
  idx_false (fun c => let '(_, _, _, _, obs) := c in xeqb (kmodel M c) obs) 0 cs.

(* rule stream: bounds written by the real rule = bounds of the model *)
Inductive rkind := RClipClip | RClipRelu | RReluClip.
Definition oeqb (a b : option xval) : bool :=
  match a, b with Some x, Some y => xeqb x y | None, None => true | _, _ => false end.
Definition rcase := (rkind * (option xval * option xval * option xval * option xval) * (option xval * option xval))%type.
Definition rmodel (c : rcase) : option xval * option xval :=
  let '(k, (l1, h1, l2, h2), _) := c in
  match k with
  | RClipClip => clipclip_bounds l1 h1 l2 h2
  | RClipRelu => cliprelu_bounds l1 h1
  | RReluClip => reluclip_bounds l1 h1
  end.
Definition rdis (cs : list rcase) : list nat :=
  idx_false (fun c => let '(_, _, obs) := c in oeqb (fst (rmodel c)) (fst obs) && oeqb (snd (rmodel c)) (snd obs)) 0 cs.
(* whole-pattern stream: model's lhs / rhs on a point = onnxruntime's output of host / rewritten host *)
Definition vcase := (rkind * (option xval * option xval * option xval * option xval) * xval * xval * xval)%type.
Definition vmodel (M : Z) (c : vcase) : xval * xval :=
  let '(k, (l1, h1, l2, h2), x, _, _) := c in
  match k with
  | RClipClip => (lhs_clipclip M l1 h1 l2 h2 x, rhs M (clipclip_bounds l1 h1 l2 h2) x)
  | RClipRelu => (lhs_cliprelu M l1 h1 x, rhs M (cliprelu_bounds l1 h1) x)
  | RReluClip => (lhs_reluclip M l1 h1 x, rhs M (reluclip_bounds l1 h1) x)
  end.
Definition vdis (M : Z) (cs : list vcase) : list nat :=
  idx_false (fun c => let '(_, _, _, oh, on) := c in xeqb (fst (vmodel M c)) oh && xeqb (snd (vmodel M c)) on) 0 cs.
Definition safe_of (c : vcase) : bool :=
  let '(k, (l1, h1, l2, h2), _, _, _) := c in
  match k with RClipClip => safe_clipclip l1 h1 l2 h2 | _ => safe_relu l1 h1 end.
(* min/max stream *)
Definition mcase := (mkind * list xval * list xval * xval * xval * option xval)%type.   (* k, cs, ds, x, host output, rewritten output (None: not fired) *)
Definition mdis (M : Z) (cs : list mcase) : list nat :=
  idx_false (fun c => let '(k, a, b, x, oh, on) := c in
     xeqb (mm_lhs k a b x) oh && match on with Some v => oeqb (mm_rhs M k a b x) (Some v) | None => true end) 0 cs.
