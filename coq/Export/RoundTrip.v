(* The composed round trip of C13: graph --proto2python--> script function --converter--> graph.
   Export/EmitCFProofs.v `export_cf_sound` (eval_script (export g) = eval_graph g) composed with C01's
   Script/TranslateNestProofs.v `translate_nested_correct` (eval_script P = Some vs -> eval_graph (translate P) = Some vs). *)
From Coq Require Import List String ZArith Bool Lia.
Require Import OV.Graph.Syntax OV.Graph.Sem OV.Script.Syntax OV.Script.Translate OV.Script.PySem OV.Script.TranslateProofs
               OV.Script.TranslateNestDefs OV.Script.TranslateNestProofs
               OV.Export.Emit OV.Export.EmitCF OV.Export.EmitCFProofs.
Import ListNotations.
Local Open Scope string_scope.

Lemma export_cf_aparams : forall kw prename rename infun uo il sk fname ivals g f skl,
  export_cf kw prename rename infun uo il sk fname ivals g = Some (f, skl) -> f_aparams f = [] /\ f_tparams f = map prename (g_ins g).
Proof.
  intros kw prename rename infun uo il sk fname ivals g f skl H. unfold export_cf in H.
  destruct (scan rename infun il sk ivals g) as [rm consts].
  destruct (emit_all (emit_init_cf kw rename il sk rm) ivals); [|discriminate].
  destruct (emit_nodes kw rename infun uo il rm consts (depth_graph g) (g_nodes g)); [|discriminate].
  inversion H; subst. split; reflexivity.
Qed.

Section RoundTrip.
  Variable V : Type.
  Variable sem : string -> string -> list (string * attrv) -> list (option V) -> option (list V).
  Variable truth : V -> option bool.
  Variable trip : V -> option nat.
  Variable of_nat : nat -> V.
  Variable of_bool : bool -> V.
  Variable limit : nat.
  Variable globals : list (string * lit).
  Hypothesis sem_identity : forall v, sem "" "Identity" [] [Some v] = Some [v].
  Hypothesis truth_of_bool : forall b, truth (of_bool b) = Some b.
  Hypothesis sem_not : forall v b, truth v = Some b -> exists r, sem "" "Not" [] [Some v] = Some [r] /\ truth r = Some (negb b).
  Hypothesis sem_and : forall a b x y, truth a = Some x -> truth b = Some y ->
                         exists r, sem "" "And" [] [Some a; Some b] = Some [r] /\ truth r = Some (x && y).
  Hypothesis const_trip : forall z c, const_val V sem (LInt z) = Some c -> trip c = Some (Z.to_nat z).

  Theorem roundtrip_ops_sound :
    forall kw prename rename infun brk use_ops fname ivals g f sk wb cic afuel orders g' xs vs fg k pre es,
      export_cf kw prename rename infun use_ops None false fname ivals g = Some (f, sk) ->
      nested_ops_okb kw prename rename infun brk use_ops ivals g = true ->
      (brk = true -> forall v, exists b, truth v = Some b) ->
      (* the exported function lies in the class of C01's converter theorem *)
      (wb = true -> forall v, exists b, truth v = Some b) ->
      (forall c b pe v, cic c = Some b -> eval_expr V sem globals pe c = Some v -> ptruth V truth v = Some b) ->
      f_body f = (pre ++ [SReturn es])%list -> pre_ok globals cic afuel wb 11 pre [SReturn es] [] = true -> forallb expr_ok es = true ->
      NoDup (f_tparams f) ->
      translate false globals cic afuel orders f = Some g' ->
      depth_graph g <= S fg -> stmt_depth_fuel <= k ->
      match init_env V sem ivals with
      | Some outer => eval_graph V sem truth trip of_nat of_bool limit (S (S fg)) outer g xs = Some vs
      | None => False
      end ->
      eval_graph V sem truth trip of_nat of_bool limit (S k) [] g' xs = Some vs.
  Proof.
    intros kw prename rename infun brk use_ops fname ivals g f sk wb cic afuel orders g' xs vs fg k pre es He Hok Hbrk Hwb Hcic Hb Hpre Hes Hnd Htr Hfg Hk Hg.
    destruct (export_cf_aparams _ _ _ _ _ _ _ _ _ _ _ _ He) as [Hap _].
    pose proof (export_cf_ops_sound V sem truth trip of_nat of_bool limit globals kw prename rename infun sem_identity truth_of_bool brk sem_not Hbrk
                  use_ops fname ivals g f sk He Hok (depth_graph g) fg xs ltac:(lia) Hfg) as E.
    destruct (init_env V sem ivals) as [outer|]; [|contradiction]. rewrite Hg in E.
    exact (translate_nested_correct V sem truth trip of_nat of_bool limit limit globals sem_identity truth_of_bool sem_not sem_and
             (le_n limit) const_trip wb cic afuel orders f g' xs vs (S (depth_graph g)) k pre es Hwb Hcic Hb Hpre Hes Hap Hnd Htr E Hk).
  Qed.

  Theorem roundtrip_sound :
    forall kw prename rename infun brk fname ivals g f sk wb cic afuel orders g' xs vs fg k pre es,
      export_cf kw prename rename infun None None false fname ivals g = Some (f, sk) ->
      nested_okb kw prename rename infun brk ivals g = true ->
      (brk = true -> forall v, exists b, truth v = Some b) ->
      (wb = true -> forall v, exists b, truth v = Some b) ->
      (forall c b pe v, cic c = Some b -> eval_expr V sem globals pe c = Some v -> ptruth V truth v = Some b) ->
      f_body f = (pre ++ [SReturn es])%list -> pre_ok globals cic afuel wb 11 pre [SReturn es] [] = true -> forallb expr_ok es = true ->
      NoDup (f_tparams f) ->
      translate false globals cic afuel orders f = Some g' ->
      depth_graph g <= S fg -> stmt_depth_fuel <= k ->
      match init_env V sem ivals with
      | Some outer => eval_graph V sem truth trip of_nat of_bool limit (S (S fg)) outer g xs = Some vs
      | None => False
      end ->
      eval_graph V sem truth trip of_nat of_bool limit (S k) [] g' xs = Some vs.
  Proof. intros kw prename rename infun brk. exact (roundtrip_ops_sound kw prename rename infun brk None). Qed.
End RoundTrip.

(* ---- a worked instance: every hypothesis evaluated, the graph obtained back from the exported function computes
   what the original computes --------------------------------------------------------------------------------- *)
Require Import OV.Script.AnalysisAux OV.Script.Corr OV.Export.RoundTripClass OV.Gen.ExportTables OV.Export.Cleanup.
Definition zgraph_rt (g : graph) (xs : list Z) : option (list Z) :=
  eval_graph Z zsem2 ztruth (fun z => Some (Z.to_nat z)) Z.of_nat (fun b : bool => if b then 1%Z else 0%Z) 10 16 [] g xs.
Definition back (f : func) : option graph :=
  translate false [] (cic_of (f_body f) []) (fuel_of (f_body f)) [] f.

Theorem roundtrip_example :
  nested_okb kwlist (cleanup kwlist) (cleanup kwlist) false false iv_nested g_nested = true /\
  export_cf kwlist (cleanup kwlist) (cleanup kwlist) false None None false "g" iv_nested g_nested = Some (f_nested, []) /\
  rt_class (Some (f_nested, [])) = (true, true, true) /\
  exists g', back f_nested = Some g' /\
             zgraph_rt g' [(-3)%Z] = Some [94%Z] /\ zgraph_rt g' [5%Z] = Some [(-10)%Z] /\
             option_map (fun outer => zgraph2 outer g_nested [(-3)%Z]) (init_env Z zsem2 iv_nested) = Some (Some [94%Z]) /\
             option_map (fun outer => zgraph2 outer g_nested [5%Z]) (init_env Z zsem2 iv_nested) = Some (Some [(-10)%Z]).
Proof.
  split; [vm_compute; reflexivity|]. split; [vm_compute; reflexivity|]. split; [vm_compute; reflexivity|].
  eexists. split; [vm_compute; reflexivity|]. repeat split; vm_compute; reflexivity.
Qed.

(* the same with use_operators on: the exported function with operator expressions is in the converter's class too *)
Theorem roundtrip_ops_example :
  nested_ops_okb kwlist (cleanup kwlist) (cleanup kwlist) false false (Some true) iv_nested g_nested = true /\
  exists f, export_cf kwlist (cleanup kwlist) (cleanup kwlist) false (Some true) None false "g" iv_nested g_nested = Some (f, []) /\
    rt_class (Some (f, [])) = (true, true, true) /\
    exists g', back f = Some g' /\ zgraph_rt g' [(-3)%Z] = Some [94%Z] /\ zgraph_rt g' [5%Z] = Some [(-10)%Z].
Proof.
  split; [vm_compute; reflexivity|]. eexists. split; [vm_compute; reflexivity|]. split; [vm_compute; reflexivity|].
  eexists. split; [vm_compute; reflexivity|]. split; vm_compute; reflexivity.
Qed.
