"""C06: the declarative meaning of a pattern, evaluated by brute force (independent of the matcher).

`instances_enum` enumerates *every* map from pattern nodes to host nodes (or unmapped), checks the
local conditions of each mapped node (coq/Match/Spec.v `nlocal`), solves the variable equations and
keeps the maps whose domain is exactly what the chosen alternatives reach from the output nodes.
`instances_search` finds the same set by nondeterministic descent from the output nodes (used for
patterns too large for the enumeration; the two are cross-checked on the small ones).

Abstract pattern: see harness/c06_pat.abstract_of_desc.  Bound things: ("val", vid) | ("none",) |
("attr", name, value) | ("tag", t).
"""
from __future__ import annotations

import itertools
from fractions import Fraction

import numpy as np


class Host:
    def __init__(self, h):
        self.nodes = list(h.get("outer_nodes", [])) + list(h["nodes"])
        self.first_own = len(h.get("outer_nodes", []))
        self.outs = list(h["outs"])
        self.consts = {int(k): v for k, v in h.get("outer_consts", {}).items()}
        self.consts.update({int(k): v for k, v in h.get("consts", {}).items()})
        self.foreign = set(h.get("outer_inputs", [])) | {int(k) for k in h.get("outer_consts", {})}
        for nd in h.get("outer_nodes", []):
            self.foreign.update(nd["outs"])
        self.producer = {}
        self.consumers = {}
        for n, nd in enumerate(self.nodes):
            for i, o in enumerate(nd["outs"]):
                self.producer.setdefault(o, (n, i))
            for v in nd["ins"]:
                if v is not None:
                    self.consumers.setdefault(v, [])
                    if n not in self.consumers[v]:
                        self.consumers[v].append(n)

    def own(self, n):
        return n >= self.first_own


def bv(v):
    return ("none",) if v is None else ("val", v)


def _f32(x):
    return Fraction(float(np.float32(x)))


def isclose(a, b, rel, abs_):
    """"constants agree within the stated tolerance": |a - b| <= max(rel * max(|a|, |b|), abs) with the tolerances given
    in the pattern, evaluated EXACTLY (rationals) on the float32 value stored in the tensor and the python float of the
    pattern -- not through math.isclose, which is what the matcher calls.  (The generators leave out the values on
    which the double rounding inside math.isclose decides differently from the exact reading; they are counted.)"""
    a, b, rel, abs_ = Fraction(a), Fraction(b), Fraction(rel), Fraction(abs_)
    return abs(a - b) <= max(rel * max(abs(a), abs(b)), abs_)


def const_view(c):
    """(shape, elements in row-major order) of a host constant; None for a constant that is not read."""
    if c == "other":
        return None
    if isinstance(c, dict):
        return tuple(int(d) for d in c["shape"]), list(c["data"])
    if isinstance(c, (list, tuple)):
        return (len(c),), list(c)
    return (), [c]


def const_ok(H, pv, v):
    """A list constant stands for a rank-1 tensor of exactly that length whose elements agree within the tolerance;
    a scalar constant for a 0-d tensor."""
    if v not in H.consts:
        return False
    view = const_view(H.consts[v])
    if view is None:
        return False
    shape, data = view
    value, rel, abs_ = pv[2], pv[3], pv[4]
    if isinstance(value, (list, tuple)):
        if len(shape) != 1 or shape[0] != len(value) or len(data) != len(value):
            return False
        return all(isclose(_f32(x), p, rel, abs_) for x, p in zip(data, value))
    if len(shape) != 0:
        return False
    return isclose(_f32(data[0]), value, rel, abs_)


def spat_matches(sp, s):
    return s == sp[1] if sp[0] == "exact" else s.startswith(sp[1])


def attr_value_key(a):
    """ir.Attr equality is (name, type, value); the type is implied by the python type here."""
    return tuple(a) if isinstance(a, (list, tuple)) else a


def attr_const_matches(pat, a):
    if isinstance(a, (list, tuple)):
        return isinstance(pat, (list, tuple)) and tuple(pat) == tuple(a)
    if isinstance(pat, (list, tuple)):
        return False
    return type(pat) is type(a) and pat == a


def v_sats(P, H, m, pv, v):
    """Every way `pv` is satisfied by host value v under node map m: yields (equations, referenced pattern nodes)."""
    k = pv[0]
    if v is not None and v in H.foreign and k not in ("any", "var", "const"):
        return
    if k == "any":
        yield (), ()
    elif k == "var":
        if v is None and not pv[2]:
            return
        yield ((("v", pv[1]), bv(v)),), ()
    elif k == "const":
        if v is None or not const_ok(H, pv, v):
            return
        yield ((("k", pv[1]), bv(v)),), ()
    elif k == "out":
        if v is None or v not in H.producer:
            return
        n, i = H.producer[v]
        if i != pv[2] or m.get(pv[1]) != n:
            return
        yield (), (pv[1],)
    elif k == "or":
        base = ((("v", pv[2]) if pv[2] is not None else ("k", pv[1]), bv(v)),)
        for tag, alt in pv[4]:
            teq = ((("v", pv[3]), ("tag", tag)),) if pv[3] is not None else ()
            for eqs, refs in v_sats(P, H, m, alt, v):
                yield base + eqs + teq, refs
    else:
        raise ValueError(pv)


def node_sats(P, H, m, p):
    np_ = P["nodes"][p]
    hn = H.nodes[m[p]]
    if not spat_matches(np_["op"], hn["op"]) or not spat_matches(np_["dom"], hn.get("dom") or ""):
        return
    hattrs = dict((n, a) for n, a in hn.get("attrs", []))
    eqs = []
    for name, ap in np_["attrs"]:
        a = hattrs.get(name)
        if ap[0] == "c":
            if a is None or not attr_const_matches(ap[1], a):
                return
        else:
            if a is None and not ap[2]:
                return
            if ap[1] is not None:
                eqs.append((("v", ap[1]), ("none",) if a is None else ("attr", name, attr_value_key(a))))
    if not np_["other_attrs"]:
        if any(n not in dict(np_["attrs"]) for n in hattrs):
            return
    if len(hn["ins"]) > len(np_["ins"]) and not np_["other_ins"]:
        return
    for i, name in enumerate(np_["outs"]):
        if i >= len(hn["outs"]):
            return
        if name is not None:
            eqs.append((("v", name), ("val", hn["outs"][i])))
    per_input = []
    for i, pv in enumerate(np_["ins"]):
        a = hn["ins"][i] if i < len(hn["ins"]) else None
        if pv is None:
            if a is not None:
                return
            continue
        alts = list(v_sats(P, H, m, pv, a))
        if not alts:
            return
        per_input.append(alts)
    for combo in itertools.product(*per_input):
        e = list(eqs)
        refs = []
        for ce, cr in combo:
            e.extend(ce)
            refs.extend(cr)
        yield e, refs


def _solve(eqs):
    env = {}
    for k, b in eqs:
        if k in env and env[k] != b:
            return None
        env[k] = b
    return env


def _finish(P, H, m, env, roots):
    bindings = {k[1]: b for k, b in env.items() if k[0] == "v"}
    outs = []
    for pv in P["outs"]:
        k = pv[0]
        if k == "var":
            b = bindings.get(pv[1])
        elif k == "out":
            if pv[1] not in m:
                b = None
            else:
                name = P["nodes"][pv[1]]["outs"][pv[2]] if pv[2] < len(P["nodes"][pv[1]]["outs"]) else None
                ho = H.nodes[m[pv[1]]]["outs"]
                b = bindings.get(name) if name is not None else (("val", ho[pv[2]]) if pv[2] < len(ho) else None)
        elif k == "or":
            b = bindings.get(pv[2]) if pv[2] is not None else env.get(("k", pv[1]))
        elif k == "const":
            b = env.get(("k", pv[1]))
        else:
            b = None
        if b is None:
            return None            # an output of the pattern stands for nothing: not a usable instance
        outs.append(b)
    for x in P["inputs"]:
        bindings.setdefault(x, ("none",))
    return {"bindings": bindings, "nmap": dict(m), "nodes": frozenset(m.values()), "outs": outs,
            "keys": {k[1]: b for k, b in env.items() if k[0] == "k"}}


def _dedupe(insts):
    seen = []
    out = []
    for i in insts:
        key = (sorted(i["bindings"].items()), sorted(i["nmap"].items()), i["outs"])
        if key not in seen:
            seen.append(key)
            out.append(i)
    return out


def instances_enum(P, H, roots, root0):
    """All instances with the first output node at host node root0 (the other output nodes anywhere)."""
    N = len(P["nodes"])
    cands = []
    for p in range(N):
        np_ = P["nodes"][p]
        c = [n for n in range(len(H.nodes)) if spat_matches(np_["op"], H.nodes[n]["op"])
             and spat_matches(np_["dom"], H.nodes[n].get("dom") or "")]
        if p == roots[0]:
            c = [n for n in c if n == root0]
        elif p in roots:
            c = [n for n in c if H.own(n)]
        else:
            c = [None] + c
        cands.append(c)
    res = []
    for assign in itertools.product(*cands):
        m = {p: n for p, n in enumerate(assign) if n is not None}
        per_node = []
        ok = True
        for p in sorted(m):
            alts = list(node_sats(P, H, m, p))
            if not alts:
                ok = False
                break
            per_node.append((p, alts))
        if not ok:
            continue
        for combo in itertools.product(*[a for _, a in per_node]):
            eqs = []
            refs = {}
            for (p, _), (e, r) in zip(per_node, combo):
                eqs.extend(e)
                refs[p] = r
            env = _solve(eqs)
            if env is None:
                continue
            reach = set()
            todo = list(roots)
            while todo:
                q = todo.pop()
                if q in reach:
                    continue
                reach.add(q)
                todo.extend(refs.get(q, ()))
            if reach != set(m):
                continue
            inst = _finish(P, H, m, env, roots)
            if inst is not None:
                res.append(inst)
    return _dedupe(res)


def instances_search(P, H, roots, root0):
    """Same set, by nondeterministic descent from the output nodes."""
    res = []

    def bind_eqs(env, eqs):
        env = dict(env)
        for k, b in eqs:
            if k in env and env[k] != b:
                return None
            env[k] = b
        return env

    def match_node(p, n, m, env, k):
        if p in m:
            if m[p] == n:
                k(m, env)
            return
        m2 = dict(m)
        m2[p] = n
        np_ = P["nodes"][p]
        hn = H.nodes[n]
        if not spat_matches(np_["op"], hn["op"]) or not spat_matches(np_["dom"], hn.get("dom") or ""):
            return
        hattrs = dict((a, b) for a, b in hn.get("attrs", []))
        eqs = []
        for name, ap in np_["attrs"]:
            a = hattrs.get(name)
            if ap[0] == "c":
                if a is None or not attr_const_matches(ap[1], a):
                    return
            else:
                if a is None and not ap[2]:
                    return
                if ap[1] is not None:
                    eqs.append((("v", ap[1]), ("none",) if a is None else ("attr", name, attr_value_key(a))))
        if not np_["other_attrs"] and any(a not in dict(np_["attrs"]) for a in hattrs):
            return
        if len(hn["ins"]) > len(np_["ins"]) and not np_["other_ins"]:
            return
        for i, name in enumerate(np_["outs"]):
            if i >= len(hn["outs"]):
                return
            if name is not None:
                eqs.append((("v", name), ("val", hn["outs"][i])))
        env2 = bind_eqs(env, eqs)
        if env2 is None:
            return

        def inputs(i, m, env):
            if i == len(np_["ins"]):
                k(m, env)
                return
            pv = np_["ins"][i]
            a = hn["ins"][i] if i < len(hn["ins"]) else None
            if pv is None:
                if a is None:
                    inputs(i + 1, m, env)
                return
            match_value(pv, a, m, env, lambda m, env: inputs(i + 1, m, env))

        inputs(0, m2, env2)

    def match_value(pv, v, m, env, k):
        kind = pv[0]
        if v is not None and v in H.foreign and kind not in ("any", "var", "const"):
            return
        if kind == "any":
            k(m, env)
        elif kind == "var":
            if v is None and not pv[2]:
                return
            e = bind_eqs(env, [(("v", pv[1]), bv(v))])
            if e is not None:
                k(m, e)
        elif kind == "const":
            if v is None or not const_ok(H, pv, v):
                return
            e = bind_eqs(env, [(("k", pv[1]), bv(v))])
            if e is not None:
                k(m, e)
        elif kind == "out":
            if v is None or v not in H.producer:
                return
            n, i = H.producer[v]
            if i != pv[2]:
                return
            match_node(pv[1], n, m, env, k)
        elif kind == "or":
            e = bind_eqs(env, [((("v", pv[2]) if pv[2] is not None else ("k", pv[1])), bv(v))])
            if e is None:
                return
            for tag, alt in pv[4]:
                def k2(m, env, tag=tag):
                    if pv[3] is not None:
                        env = bind_eqs(env, [(("v", pv[3]), ("tag", tag))])
                        if env is None:
                            return
                    k(m, env)
                match_value(alt, v, m, e, k2)
        else:
            raise ValueError(pv)

    def roots_from(j, m, env):
        if j == len(roots):
            inst = _finish(P, H, m, env, roots)
            if inst is not None:
                res.append(inst)
            return
        if j == 0:
            cands = [root0]
        else:
            cands = [n for n in range(len(H.nodes)) if H.own(n)]
        for n in cands:
            match_node(roots[j], n, m, env, lambda m, env: roots_from(j + 1, m, env))

    roots_from(0, {}, {})
    return _dedupe(res)


def removable(H, nodes, outs):
    for n in nodes:
        for v in H.nodes[n]["outs"]:
            if ("val", v) in outs:
                continue
            if v in H.outs:
                return False
            if any(c not in nodes for c in H.consumers.get(v, [])):
                return False
    return True


def spec_roots(P):
    """Output nodes of the pattern: a minimal set of producers of the outputs whose backward slices (through
    node outputs, not through OR values) cover the others -- in the order of the outputs."""
    covered = set()
    roots = []

    def slice_(p):
        if p in covered:
            return
        covered.add(p)
        for pv in P["nodes"][p]["ins"]:
            if pv is not None and pv[0] == "out":
                slice_(pv[1])

    for pv in P["outs"]:
        if pv is not None and pv[0] == "out" and pv[1] not in covered:
            roots.append(pv[1])
            slice_(pv[1])
    return roots


# ----------------------------------------------------------------------------- the committed-choice meaning
# Independent evaluation of coq/Match/Committed.v (`crun`) from the *description* of the pattern: one flat
# environment threaded left to right, an OrValue takes the first alternative that matches from the environment
# at the OrValue (a failed alternative leaves no trace, a later failure is final), the output nodes after the
# first range over the nodes of the matched graph in graph order, the first tuple that matches (and is
# removable, when asked) decides.  Returns None (no match), "err" (a tag variable clashes: outside the compared
# domain) or {"bindings", "nodes" (matching order), "outs"}.

class _CommittedErr(Exception):
    pass


def _c_bind(env, k, b):
    if k in env:
        return env if env[k] == b else None
    e = dict(env)
    e[k] = b
    return e


def _c_value(P, H, pv, v, st):
    m, env, order = st
    kind = pv[0]
    if v is not None and v in H.foreign and kind not in ("any", "var", "const"):
        return None
    if kind == "any":
        return st
    if kind == "var":
        e = _c_bind(env, ("v", pv[1]), bv(v))
        if e is None or (v is None and not pv[2]):
            return None
        return (m, e, order)
    if kind == "const":
        e = _c_bind(env, ("k", pv[1]), bv(v))
        if e is None or v is None or not const_ok(H, pv, v):
            return None
        return (m, e, order)
    if kind == "out":
        names = P["nodes"][pv[1]]["outs"]
        name = names[pv[2]] if pv[2] < len(names) else None
        e = _c_bind(env, ("v", name) if name is not None else ("k", ("out", pv[1], pv[2])), bv(v))
        if e is None or v is None or v not in H.producer:
            return None
        n, i = H.producer[v]
        if i != pv[2]:
            return None
        return _c_node(P, H, pv[1], n, (m, e, order))
    if kind == "or":
        e = _c_bind(env, ("v", pv[2]) if pv[2] is not None else ("k", pv[1]), bv(v))
        if e is None:
            return None
        st1 = (m, e, order)
        for tag, alt in pv[4]:
            r = _c_value(P, H, alt, v, st1)
            if r is not None:
                if pv[3] is not None:
                    e2 = _c_bind(r[1], ("v", pv[3]), ("tag", tag))
                    if e2 is None:
                        raise _CommittedErr("tag variable clash")
                    r = (r[0], e2, r[2])
                return r
        return None
    raise ValueError(pv)


def _c_node(P, H, p, n, st):
    m, env, order = st
    if p in m:
        return st if m[p] == n else None
    np_ = P["nodes"][p]
    hn = H.nodes[n]
    if not spat_matches(np_["op"], hn["op"]) or not spat_matches(np_["dom"], hn.get("dom") or ""):
        return None
    hattrs = dict((a, b) for a, b in hn.get("attrs", []))
    for name, ap in np_["attrs"]:
        a = hattrs.get(name)
        if ap[0] == "c":
            if a is None:
                return None
            # a scalar pattern against a list attribute: no match (attr_const_matches answers False; the source before
            # bbeff32 raised TypeError there -- an observed raise is classified by the harness, not compared here)
            if not attr_const_matches(ap[1], a):
                return None
        else:
            if a is None and not ap[2]:
                return None
            if ap[1] is not None:
                env = _c_bind(env, ("v", ap[1]), ("none",) if a is None else ("attr", name, attr_value_key(a)))
                if env is None:
                    return None
    if not np_["other_attrs"] and any(a not in dict(np_["attrs"]) for a in hattrs):
        return None
    m = dict(m)
    m[p] = n
    order = order + [n]
    if len(hn["ins"]) > len(np_["ins"]) and not np_["other_ins"]:
        return None
    st = (m, env, order)
    for i, pv in enumerate(np_["ins"]):
        a = hn["ins"][i] if i < len(hn["ins"]) else None
        if pv is None:
            if a is not None:
                return None
            continue
        st = _c_value(P, H, pv, a, st)
        if st is None:
            return None
    m, env, order = st
    for i, name in enumerate(np_["outs"]):
        if i >= len(hn["outs"]):
            return None
        env = _c_bind(env, ("v", name) if name is not None else ("k", ("out", p, i)), ("val", hn["outs"][i]))
        if env is None:
            return None
    return (m, env, order)


def _c_outputs(P, st):
    m, env, order = st
    outs = []
    for pv in P["outs"]:
        k = pv[0]
        if k == "var":
            b = env.get(("v", pv[1]))
        elif k == "out":
            names = P["nodes"][pv[1]]["outs"]
            name = names[pv[2]] if pv[2] < len(names) else None
            b = env.get(("v", name)) if name is not None else env.get(("k", ("out", pv[1], pv[2])))
        elif k == "or":
            b = env.get(("v", pv[2])) if pv[2] is not None else env.get(("k", pv[1]))
        elif k == "const":
            b = env.get(("k", pv[1]))
        else:
            b = None
        if b is None:
            return None
        outs.append(b)
    return outs


def committed_match(P, H, roots, root0, rm):
    if not roots:
        return "err"
    lists = [[root0]]
    for r in roots[1:]:
        np_ = P["nodes"][r]
        known = np_["op"][0] == "exact" and np_["dom"][0] == "exact"       # constant operator and domain: candidates by operator
        lists.append([n for n in range(len(H.nodes)) if H.own(n)
                      and (not known or (H.nodes[n]["op"] == np_["op"][1] and (H.nodes[n].get("dom") or "") == np_["dom"][1]))])
    try:
        for cand in itertools.product(*lists):
            st = ({}, {}, [])
            for r, n in zip(roots, cand):
                st = _c_node(P, H, r, n, st)
                if st is None:
                    break
            if st is None:
                continue
            outs = _c_outputs(P, st)
            if outs is None:
                continue
            if rm and not removable(H, set(st[2]), outs):
                continue
            bindings = {k[1]: b for k, b in st[1].items() if k[0] == "v"}
            for x in P["inputs"]:
                bindings.setdefault(x, ("none",))
            return {"bindings": bindings, "nodes": list(st[2]), "outs": outs}
    except _CommittedErr:
        return "err"
    return None


def committed_match_variants(variants, H, root0, rm):
    """RewriteRuleSet(commute=True): the variants in order, the first that matches."""
    for Pv, rv in variants:
        r = committed_match(Pv, H, rv, root0, rm)
        if r is not None:
            return r
    return None
