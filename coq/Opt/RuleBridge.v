(* The bridge between the per-rule algebra (C05: coq/Rules) and the graph semantics (C03 / C07): for three rule families the
   C05 theorem implies `rule_sound` (Opt/StagesProofs.v) once the kernels of the operators involved are the family's element
   semantics, applied elementwise to flat integer tensors (V = list Z).
     Relu(Relu(x)) -> Relu(x)                          (Rules/Clip.v, relurelu_sound = C05_successive_relu)
     Dropout(x) in inference mode -> Identity(x)       (Rules/Dropout.v, dropout_inference_sound = C05_noop_dropout_inference)
     Mul(x, c), c = Constant<value_int = 1> -> Identity(x)   (Rules/NoOp.v, noop_int_sound = C05_noop_int_sound)
   A rule is given as a function on a window of one or two adjacent nodes ending at the root.  Rules whose side condition is a
   fact about values that are NOT produced inside the match (an initializer equal to 1, a declared element type, a known shape)
   do not fit `rule_sound`, which quantifies over every environment: they need the equivalence under an invariant of the
   reachable environments (what Opt/FoldProofs.v calls inv); C07 does not provide that form.  Transpose(Transpose) is proved in
   C05 up to extensional equality of index functions, which is not the equality of values the graph semantics compares. *)
From Coq Require Import List String ZArith Bool Lia.
Require Import OV.Graph.Syntax OV.Graph.Sem OV.Graph.Names OV.Graph.SemProofs OV.Opt.Inits OV.Opt.Stages OV.Opt.StagesProofs.
Require Import OV.Rewrite.Apply.
Require OV.Rules.Clip OV.Rules.ClipProofs OV.Rules.Dropout OV.Rules.DropoutProofs OV.Rules.NoOp OV.Rules.NoOpProofs.
Import ListNotations.
Local Open Scope list_scope.
Local Open Scope string_scope.

(* ---- rules on a window of the last one / two nodes before and including the root *)
Definition one_rule (f : node -> option (list node * list vname)) : rule :=
  fun ns i => match nth_error ns i with
              | Some n => match f n with Some (new, X) => Some (App (repeat false i ++ [true]) new true [], X) | None => None end
              | None => None
              end.
Definition two_rule (f : node -> node -> option (list node * list vname)) : rule :=
  fun ns i => match i with
              | O => None
              | S j => match nth_error ns j, nth_error ns (S j) with
                       | Some n1, Some n2 =>
                         match f n1 n2 with Some (new, X) => Some (App (repeat false j ++ [true; true]) new true [], X) | None => None end
                       | _, _ => None
                       end
              end.

Lemma len_mask1 i : List.length (repeat false i ++ [true]) = S i.
Proof. rewrite app_length, repeat_length. cbn. lia. Qed.
Lemma len_mask2 j : List.length (repeat false j ++ [true; true]) = S (S j).
Proof. rewrite app_length, repeat_length. cbn. lia. Qed.
Lemma sel_one : forall i ns n, nth_error ns i = Some n -> sel (repeat false i ++ [true]) (firstn (S i) ns) = [n].
Proof.
  induction i as [|i IH]; intros [|m t] n; cbn; try discriminate.
  - intro H; inversion H; subst. destruct t; reflexivity.
  - intro H. exact (IH t n H).
Qed.
Lemma sel_two : forall j ns n1 n2, nth_error ns j = Some n1 -> nth_error ns (S j) = Some n2 ->
  sel (repeat false j ++ [true; true]) (firstn (S (S j)) ns) = [n1; n2].
Proof.
  induction j as [|j IH]; intros [|m t] n1 n2; cbn; try discriminate.
  - intro H; inversion H; subst. destruct t as [|m2 t2]; cbn; [discriminate|]. intro H2; inversion H2; subst. destruct t2; reflexivity.
  - intros H1 H2. exact (IH t n1 n2 H1 H2).
Qed.

Section B.
  Variable sem : string -> string -> list (string * attrv) -> list (option (list Z)) -> option (list (list Z)).
  Variable truth : list Z -> option bool.
  Variable trip : list Z -> option nat.
  Variable of_nat : nat -> list Z.
  Variable of_bool : bool -> list Z.
  Variable limit : nat.
  Notation V := (list Z).
  Notation eval_graph := (eval_graph V sem truth trip of_nat of_bool limit).
  Notation run := (run V sem truth trip of_nat of_bool limit).
  Notation seg_equiv := (seg_equiv V sem truth trip of_nat of_bool limit).
  Notation rule_sound := (rule_sound V sem truth trip of_nat of_bool limit).

  Lemma one_rule_sound f : (forall n new X, f n = Some (new, X) -> forall fu, seg_equiv X (eval_graph fu) [n] new) -> rule_sound (one_rule f).
  Proof.
    intros H ns i a X. unfold one_rule. destruct (nth_error ns i) as [n|] eqn:E; [|discriminate].
    destruct (f n) as [[new X0]|] eqn:Ef; [|discriminate]. intro Hh; inversion Hh; subst; clear Hh. intro fu.
    cbn [a_mask a_remove a_dead a_new kept_sel]. rewrite len_mask1, (sel_one i ns n E). cbn [List.app]. exact (H n new X Ef fu).
  Qed.
  Lemma two_rule_sound f : (forall n1 n2 new X, f n1 n2 = Some (new, X) -> forall fu, seg_equiv X (eval_graph fu) [n1; n2] new) ->
    rule_sound (two_rule f).
  Proof.
    intros H ns i a X. unfold two_rule. destruct i as [|j]; [discriminate|].
    destruct (nth_error ns j) as [n1|] eqn:E1; [|discriminate]. destruct (nth_error ns (S j)) as [n2|] eqn:E2; [|discriminate].
    destruct (f n1 n2) as [[new X0]|] eqn:Ef; [|discriminate]. intro Hh; inversion Hh; subst; clear Hh. intro fu.
    cbn [a_mask a_remove a_dead a_new kept_sel]. rewrite len_mask2, (sel_two j ns n1 n2 E1 E2). cbn [List.app]. exact (H n1 n2 new X Ef fu).
  Qed.

  Lemma agree_drop (X : list vname) (e : list (vname * V)) y v t w :
    In t X -> agree_except V X ((y, v) :: (t, w) :: e) ((y, v) :: e).
  Proof.
    intros Ht x Hx. cbn. destruct (String.eqb x y); [reflexivity|].
    destruct (String.eqb x t) eqn:E; [apply String.eqb_eq in E; subst; contradiction|reflexivity].
  Qed.

  (* ---------------------------------------------------------------- family 1: Relu(Relu(x)) *)
  Hypothesis relu_kernel : forall attrs v, sem "" "Relu" attrs [Some v] = Some [map OV.Rules.Clip.relu v].

  Definition is_op (n : node) (op : string) : bool := String.eqb (n_dom n) "" && String.eqb (n_op n) op.
  Definition relurelu (n1 n2 : node) : option (list node * list vname) :=
    match n_ins n1, n_outs n1, n_subs n1, n_ins n2, n_outs n2, n_subs n2 with
    | [Some x], [t], [], [Some t'], [y], [] =>
      if is_op n1 "Relu" && is_op n2 "Relu" && String.eqb t t' && negb (String.eqb t y)
      then Some ([Node "" "Relu" [Some x] [y] (n_attrs n1) []], [t]) else None
    | _, _, _, _, _, _ => None
    end.

  Lemma relu_idem v : map OV.Rules.Clip.relu (map OV.Rules.Clip.relu v) = map OV.Rules.Clip.relu v.
  Proof. rewrite map_map. apply map_ext. intro x. exact (OV.Rules.ClipProofs.relurelu_sound x). Qed.

  Theorem relurelu_rule_sound : rule_sound (two_rule relurelu).
  Proof.
    apply two_rule_sound. intros n1 n2 new X Hf fu e.
    destruct n1 as [d1 o1 i1 u1 a1 s1], n2 as [d2 o2 i2 u2 a2 s2]. unfold relurelu, is_op in Hf. cbn [n_ins n_outs n_subs n_dom n_op n_attrs] in Hf.
    destruct i1 as [|[v|] [|? ?]]; try discriminate. destruct u1 as [|t [|? ?]]; try discriminate. destruct s1; try discriminate.
    destruct i2 as [|[t'|] [|? ?]]; try discriminate. destruct u2 as [|y [|? ?]]; try discriminate. destruct s2; try discriminate.
    match type of Hf with (if ?c then _ else _) = _ => destruct c eqn:Cnd; [|discriminate] end.
    inversion Hf; subst; clear Hf.
    apply andb_true_iff in Cnd. destruct Cnd as [Cnd C4]. apply andb_true_iff in Cnd. destruct Cnd as [Cnd C3].
    apply andb_true_iff in Cnd. destruct Cnd as [C1 C2]. apply andb_true_iff in C1, C2. destruct C1 as [D1 O1], C2 as [D2 O2].
    apply String.eqb_eq in D1, O1, D2, O2, C3. subst.
    cbn [Sem.run]. unfold Sem.eval_node. cbn [is_if is_loop String.eqb Ascii.eqb Bool.eqb andb lookup_opts].
    destruct (lookup e v) as [xv|] eqn:Lx; [|exact I].
    rewrite relu_kernel. cbn [bind option_map lookup]. rewrite String.eqb_refl, relu_kernel. cbn [bind option_map].
    rewrite relu_idem. apply agree_drop. left. reflexivity.
  Qed.

  (* ---------------------------------------------------------------- family 2: Dropout in inference mode *)
  Variables (zero : Z) (mul : Z -> Z -> Z) (scale_of : Z -> Z) (ratio0 : Z) (mask0 : list bool).
  Hypothesis dropout_kernel : forall attrs v,
    sem "" "Dropout" attrs [Some v] = Some [OV.Rules.Dropout.dropout Z zero mul scale_of false ratio0 mask0 v].
  Hypothesis identity_kernel : forall attrs v, sem "" "Identity" attrs [Some v] = Some [v].

  Definition dropout_inference (n : node) : option (list node * list vname) :=
    match n_ins n, n_outs n, n_subs n with
    | [Some x], [y], [] => if is_op n "Dropout" then Some ([Node "" "Identity" [Some x] [y] [] []], []) else None
    | _, _, _ => None
    end.

  Theorem dropout_inference_rule_sound : rule_sound (one_rule dropout_inference).
  Proof.
    apply one_rule_sound. intros n new X Hf fu e. destruct n as [d o i u a s]. unfold dropout_inference, is_op in Hf.
    cbn [n_ins n_outs n_subs n_dom n_op] in Hf.
    destruct i as [|[v|] [|? ?]]; try discriminate. destruct u as [|y [|? ?]]; try discriminate. destruct s; try discriminate.
    match type of Hf with (if ?c then _ else _) = _ => destruct c eqn:Cnd; [|discriminate] end.
    inversion Hf; subst; clear Hf. apply andb_true_iff in Cnd. destruct Cnd as [D1 O1]. apply String.eqb_eq in D1, O1. subst.
    cbn [Sem.run]. unfold Sem.eval_node. cbn [is_if is_loop String.eqb Ascii.eqb Bool.eqb andb lookup_opts].
    destruct (lookup e v) as [xv|]; [|exact I].
    rewrite dropout_kernel, identity_kernel, (OV.Rules.DropoutProofs.dropout_inference_sound Z zero mul scale_of ratio0 mask0 xv).
    cbn [bind option_map]. intros z _. reflexivity.
  Qed.

  (* ---------------------------------------------------------------- family 3: x * 1 with the 1 produced inside the match *)
  Hypothesis const_int_kernel : forall c vs, sem "" "Constant" [("value_int", AInt c)] vs = Some [[c]].
  Hypothesis mul_scalar_kernel : forall attrs v c, sem "" "Mul" attrs [Some v; Some [c]] = Some [map (fun x => OV.Rules.NoOp.lhs_int OV.Rules.NoOp.MulR c x) v].

  Definition mul_by_const_one (n1 n2 : node) : option (list node * list vname) :=
    match n_ins n1, n_outs n1, n_attrs n1, n_subs n1, n_ins n2, n_outs n2, n_subs n2 with
    | [], [c], [(kn, AInt k)], [], [Some x; Some c'], [y], [] =>
      if is_op n1 "Constant" && is_op n2 "Mul" && String.eqb kn "value_int" && String.eqb c c' && negb (String.eqb x c) &&
         OV.Rules.NoOp.check OV.Rules.NoOp.MulR 0 (OV.Rules.NoOp.of_int k)
      then Some ([Node "" "Constant" [] [c] [("value_int", AInt k)] []; Node "" "Identity" [Some x] [y] [] []], []) else None
    | _, _, _, _, _, _, _ => None
    end.

  Theorem mul_by_const_one_rule_sound : rule_sound (two_rule mul_by_const_one).
  Proof.
    apply two_rule_sound. intros n1 n2 new X Hf fu e.
    destruct n1 as [d1 o1 i1 u1 a1 s1], n2 as [d2 o2 i2 u2 a2 s2]. unfold mul_by_const_one, is_op in Hf.
    cbn [n_ins n_outs n_subs n_dom n_op n_attrs] in Hf.
    destruct i1; try discriminate. destruct u1 as [|c [|? ?]]; try discriminate.
    destruct a1 as [|[kn [z| | | | | | | |]] [|? ?]]; try discriminate. destruct s1; try discriminate.
    destruct i2 as [|[v0|] [|[c'|] [|? ?]]]; try discriminate. destruct u2 as [|y [|? ?]]; try discriminate. destruct s2; try discriminate.
    match type of Hf with (if ?cc then _ else _) = _ => destruct cc eqn:Cnd; [|discriminate] end.
    inversion Hf; subst; clear Hf.
    apply andb_true_iff in Cnd. destruct Cnd as [Cnd Ck]. apply andb_true_iff in Cnd. destruct Cnd as [Cnd C3].
    apply andb_true_iff in Cnd. destruct Cnd as [Cnd C2]. apply andb_true_iff in Cnd. destruct Cnd as [Cnd C1].
    apply andb_true_iff in Cnd. destruct Cnd as [A1 A2]. apply andb_true_iff in A1, A2. destruct A1 as [D1 O1], A2 as [D2 O2].
    apply String.eqb_eq in D1, O1, D2, O2, C1, C2. subst. apply negb_true_iff in C3.
    cbn [Sem.run]. unfold Sem.eval_node. cbn [is_if is_loop String.eqb Ascii.eqb Bool.eqb andb lookup_opts].
    rewrite const_int_kernel. cbn [bind option_map lookup_opts lookup]. rewrite String.eqb_refl, C3.
    destruct (lookup e v0) as [xv|]; [|exact I].
    rewrite mul_scalar_kernel, identity_kernel. cbn [bind option_map].
    replace (map (fun x => OV.Rules.NoOp.lhs_int OV.Rules.NoOp.MulR z x) xv) with xv; [intros q _; reflexivity|].
    rewrite <- (map_id xv) at 1. apply map_ext. intro x. symmetry. exact (OV.Rules.NoOpProofs.noop_int_sound _ _ _ x Ck).
  Qed.
End B.

(* the rules do fire through the guarded node iteration of the rewrite stage (side conditions of C07 evaluated) *)
Example relurelu_fires :
  rewrite_nodes 10 [two_rule relurelu] ["y"]
    [Node "" "Relu" [Some "x"] ["t"] [] []; Node "" "Relu" [Some "t"] ["y"] [] []]
  = Some ([Node "" "Relu" [Some "x"] ["y"] [] []], [App [true; true] [Node "" "Relu" [Some "x"] ["y"] [] []] true []]).
Proof. vm_compute. reflexivity. Qed.
Example mul_by_one_fires :
  match rewrite_nodes 10 [two_rule mul_by_const_one; one_rule dropout_inference] ["z"]
    [Node "" "Constant" [] ["c"] [("value_int", AInt 1)] []; Node "" "Mul" [Some "x"; Some "c"] ["y"] [] [];
     Node "" "Dropout" [Some "y"] ["z"] [] []] with
  | Some (ns, _) => ns = [Node "" "Constant" [] ["c"] [("value_int", AInt 1)] []; Node "" "Identity" [Some "x"] ["y"] [] [];
                          Node "" "Identity" [Some "y"] ["z"] [] []]
  | None => False
  end.
Proof. vm_compute. reflexivity. Qed.
