"""Translator (Python ast, fail-closed) of the pass list of onnxscript.optimizer._optimizer.optimize_ir into
coq/Gen/OptPipeline.v: constructor names, keyword / positional arguments, order, the inner PassManager's steps / early_stop
wiring, the `if inline:` prefix.  coq/Opt/PipelineShape.v proves (vm_compute) that the list read from the source has the
shape the soundness argument needs (Opt/Pipeline.v: pipeline_ok)."""
from __future__ import annotations

import ast
import os

from harness import common
from harness.common import clist, cstr

SRC = os.path.join("onnxscript", "optimizer", "_optimizer.py")


class Unrecognised(Exception):
    pass


def _ctor(call):
    if not isinstance(call, ast.Call):
        raise Unrecognised("pass list element is not a constructor call: " + ast.unparse(call)[:80])
    f = call.func
    name = f.attr if isinstance(f, ast.Attribute) else (f.id if isinstance(f, ast.Name) else None)
    if name is None:
        raise Unrecognised("constructor expression: " + ast.unparse(f)[:80])
    kwargs = []
    for i, a in enumerate(call.args):
        if isinstance(a, ast.Starred):
            raise Unrecognised("starred argument in " + name)
        kwargs.append((f"#{i}", ast.unparse(a)))
    for k in call.keywords:
        if k.arg is None:
            raise Unrecognised("**kwargs in " + name)
        kwargs.append((k.arg, ast.unparse(k.value)))
    return name, kwargs, call


def parse(repo):
    path = os.path.join(repo, SRC)
    tree = ast.parse(open(path).read())
    fn = next((n for n in tree.body if isinstance(n, ast.FunctionDef) and n.name == "optimize_ir"), None)
    if fn is None:
        raise Unrecognised("optimize_ir not found")
    # `v = E` bound once and read once, the read being the first thing the next statement evaluates (harness/c01_pynorm.py inline_single_use):
    # a pass / pass manager hoisted into a named local right before its only use reads as the expression in place
    from harness import c01_pynorm as PN
    fn = PN.inline_single_use(fn)
    body = list(fn.body)
    if body and isinstance(body[0], ast.Expr) and isinstance(body[0].value, ast.Constant) and isinstance(body[0].value.value, str):
        body = body[1:]
    kinds = [type(s).__name__ for s in body]
    restores = False
    if kinds == ["Assign", "If", "Assign", "Assert", "Assign", "Assert"]:
        a0, if_, a1, as0, a2, as1 = body
    elif kinds == ["Assign", "If", "Assign", "Assert", "Assign", "Assign", "Assert", "For"]:
        # repaired form: the declared types / shapes of the graph outputs are recorded before the passes run and given back to
        # outputs that come out untyped under the same name (nothing else may happen in these statements)
        a0, if_, a1, as0, rec, a2, as1, loop_ = body
        if ast.unparse(rec) != "declared_outputs = [(v.name, v.type, v.shape) for v in model.graph.outputs]":
            raise Unrecognised("unexpected statement before the passes run: " + ast.unparse(rec)[:80])
        want = ("for value, (name, type_, shape) in zip(model.graph.outputs, declared_outputs):\n    if value.name == name:\n"
                "        if value.type is None:\n            value.type = type_\n        if value.shape is None:\n            value.shape = shape")
        if ast.unparse(loop_) != want:
            raise Unrecognised("the statements after the passes are not the restoration of declared output types: " + ast.unparse(loop_)[:80])
        restores = True
    else:
        raise Unrecognised(f"statements of optimize_ir: {kinds}")
    if not (len(a0.targets) == 1 and isinstance(a0.targets[0], ast.Name) and a0.targets[0].id == "passes" and isinstance(a0.value, ast.List)):
        raise Unrecognised("first statement is not `passes = [...]`")
    elts = a0.value.elts
    if not elts:
        raise Unrecognised("empty pass list")
    name0, kw0, call0 = _ctor(elts[0])
    if name0 != "PassManager" or len(call0.args) != 1 or not isinstance(call0.args[0], ast.List):
        raise Unrecognised("first pass is not PassManager([...], ...)")
    mk = {k.arg: ast.unparse(k.value) for k in call0.keywords}
    if set(mk) != {"steps", "early_stop"}:
        raise Unrecognised(f"PassManager keywords {sorted(mk)}")
    loop = [_ctor(e)[:2] for e in call0.args[0].elts]
    post = [_ctor(e)[:2] for e in elts[1:]]
    if any(n in ("PassManager", "Sequential") for n, _ in loop + post):
        raise Unrecognised("nested pass manager")
    # if inline: passes = [common_passes.InlinePass(), *passes]
    if not (isinstance(if_.test, ast.Name) and not if_.orelse and len(if_.body) == 1 and isinstance(if_.body[0], ast.Assign)):
        raise Unrecognised("the conditional prefix is not `if <name>: passes = [...]`")
    pa = if_.body[0]
    if not (len(pa.targets) == 1 and isinstance(pa.targets[0], ast.Name) and pa.targets[0].id == "passes" and isinstance(pa.value, ast.List)
            and pa.value.elts and isinstance(pa.value.elts[-1], ast.Starred) and isinstance(pa.value.elts[-1].value, ast.Name)
            and pa.value.elts[-1].value.id == "passes"):
        raise Unrecognised("the conditional prefix does not prepend to `passes`")
    prefix = [_ctor(e)[:2] for e in pa.value.elts[:-1]]
    # optimizer_pass = ir.passes.Sequential(*passes); result = optimizer_pass(model)
    if ast.unparse(a1.value) != "ir.passes.Sequential(*passes)" or ast.unparse(a1.targets[0]) != "optimizer_pass":
        raise Unrecognised("the passes are not run by ir.passes.Sequential(*passes): " + ast.unparse(a1)[:80])
    if ast.unparse(a2.value) != "optimizer_pass(model)":
        raise Unrecognised("the sequence is not applied to `model`: " + ast.unparse(a2)[:80])
    params = [a.arg for a in fn.args.args + fn.args.kwonlyargs]
    for need in (mk["steps"], mk["early_stop"], if_.test.id):
        if need not in params:
            raise Unrecognised(f"{need} is not a parameter of optimize_ir")
    return {"prefix_guard": if_.test.id, "prefix": prefix, "loop": loop, "steps": mk["steps"], "early_stop": mk["early_stop"], "post": post,
            "restores_output_types": restores}


def _plist(l):
    return clist([f"mkPass {cstr(n)} {clist([f'({cstr(k)}, {cstr(v)})' for k, v in kw])}" for n, kw in l])


def regenerate(ctx):
    try:
        info = parse(common.REPO)
    except Unrecognised as e:
        ctx.tie_broken("translator", SRC, str(e))
        return None
    except Exception as e:  # fail-closed
        ctx.tie_broken("translator", SRC, f"{type(e).__name__}: {e}")
        return None
    text = ("(* GENERATED by harness/c03_pipeline.py from onnxscript/optimizer/_optimizer.py (optimize_ir) - do not edit *)\n"
            "From Coq Require Import List String.\nRequire Import OV.Opt.Pipeline.\nImport ListNotations.\nLocal Open Scope string_scope.\n\n"
            f"Definition src_prefix_guard : string := {cstr(info['prefix_guard'])}.\n"
            f"Definition src_prefix : list pass_desc := {_plist(info['prefix'])}.\n"
            f"Definition src_loop : list pass_desc := {_plist(info['loop'])}.\n"
            f"Definition src_steps : string := {cstr(info['steps'])}.\n"
            f"Definition src_early_stop : string := {cstr(info['early_stop'])}.\n"
            f"Definition src_post : list pass_desc := {_plist(info['post'])}.\n"
            "(* the declared types of the graph outputs are given back to outputs that come out of the passes untyped *)\n"
            f"Definition src_restores_output_types : bool := {'true' if info['restores_output_types'] else 'false'}.\n")
    ctx.gen("OptPipeline", text)
    return info
