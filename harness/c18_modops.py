"""C18 model A, imperative module programs (coq/Builder/ModOps.v): random sequences of the operations onnxscript.nn
offers on Module / ModuleList / Sequential objects, executed on the real classes and by the Gallina heap semantics;
initializer names, named_parameters()/state_dict() keys and raise / no raise compared inside Coq; the side condition
of C18_modops_param_names_eq_state_dict evaluated on every program."""
from __future__ import annotations

from harness import common
from harness.common import cbool, clist, cnat, copt, cstr

REQ = ["OV.Builder.Strings", "OV.Builder.Modules", "OV.Builder.ModOps"]
K_SEQ_DIRECT = "C18:naming:sequential-child-called-directly"
K_REATTACHED = "C18:naming:reattached-module-keeps-first-name"
K_SHARED_SUB = "C18:naming:shared-submodule"
K_SHARED_PARAM = "C18:naming:shared-parameter-object"
ABSENT = ("insert", "__setitem__", "__delitem__", "pop", "register_parameter", "register_module", "add_module", "__delattr__")


def _classes():
    from onnxscript.nn import Module, ModuleList, Sequential

    def call(obj, op, x, direct):
        if isinstance(obj, Sequential):
            if direct:                      # seq[i](op, x) / for m in seq[a:b]: the Sequential itself is not called
                for c in obj[0:len(obj)]:
                    x = call(c, op, x, False)
                return x
            return obj(op, x)
        if isinstance(obj, ModuleList):
            for c in obj:
                x = call(c, op, x, direct)
            return x
        return obj(op, x)

    class Box(Module):
        def __init__(self, name=None, direct=False):
            super().__init__(name)
            object.__setattr__(self, "_c18_direct", direct)

        def forward(self, op, x):
            for m in list(self._modules.values()):
                x = call(m, op, x, self._c18_direct)
            return x
    return Box, ModuleList, Sequential


def execute(prog, root=0):
    """Replay on the real classes; returns (initializer names | None when the call raises, named_parameters keys,
    state_dict keys, error text)."""
    import numpy as np
    import onnx_ir as ir
    from onnxscript._internal import builder as B
    from onnxscript.nn import Parameter

    Box, ModuleList, Sequential = _classes()
    objs, params = [], []
    for o in prog:
        t = o[0]
        if t == "new":
            _, k, nm, direct = o
            objs.append(Box(nm, direct) if k == "mod" else ModuleList() if k == "list" else Sequential())
        elif t == "newparam":
            i = len(params)
            params.append(Parameter([2], name=o[1], data=ir.tensor(np.array([i + 1, -i - 1], dtype=np.float32))))
        elif t == "setparam":
            setattr(objs[o[1]], o[2], params[o[3]])
        elif t == "setchild":
            setattr(objs[o[1]], o[2], objs[o[3]])
        elif t == "append":
            objs[o[1]].append(objs[o[2]])
        elif t == "slice":
            objs.append(objs[o[1]][o[2]:o[3]])
        elif t == "rename":
            objs[o[1]]._set_name(o[2])  # noqa: SLF001
        elif t == "delattr":
            delattr(objs[o[1]], o[2])
        else:
            raise ValueError(o)
    r = objs[root]
    np_keys = [k for k, _ in r.named_parameters()]
    sd_keys = list(r.state_dict().keys())
    g = ir.Graph(name="g", inputs=[], outputs=[], nodes=[], opset_imports={"": 21})
    x = ir.Value(name="x", type=ir.TensorType(ir.DataType.FLOAT), shape=ir.Shape([2]))
    g.inputs.append(x)
    gb = B.GraphBuilder(g)
    try:
        r(gb.op, x)
        return list(g.initializers.keys()), np_keys, sd_keys, None, (r.name or "")
    except (NotImplementedError, RuntimeError, ValueError) as e:
        return None, np_keys, sd_keys, f"{type(e).__name__}: {str(e)[:120]}", (r.name or "")


def op_lit(o):
    t = o[0]
    if t == "new":
        return f"(ONew {dict(mod='KMod', list='KList', seq='KSeq')[o[1]]} {copt(o[2], cstr)} {cbool(o[3])})"
    if t == "newparam":
        return f"(ONewParam {copt(o[1], cstr)})"
    if t == "setparam":
        return f"(OSetParam {cnat(o[1])} {cstr(o[2])} {cnat(o[3])})"
    if t == "setchild":
        return f"(OSetChild {cnat(o[1])} {cstr(o[2])} {cnat(o[3])})"
    if t == "append":
        return f"(OAppend {cnat(o[1])} {cnat(o[2])})"
    if t == "slice":
        return f"(OSlice {cnat(o[1])} {cnat(o[2])} {cnat(o[3])})"
    if t == "rename":
        return f"(ORename {cnat(o[1])} {cstr(o[2])})"
    return f"(ODelAttr {cnat(o[1])} {cstr(o[2])})"


class Gen:
    """Random programs: objects are created and attached (mostly at once, sometimes later = a module that sits in a
    temporary holder first), re-assigned, attached under a second name, sliced, appended late; no cycles."""

    KEYS = ["a", "b", "c", "layers", "seq", "blk"]

    def __init__(self, rng, max_depth=4):
        self.rng, self.max_depth = rng, max_depth
        self.prog, self.kinds, self.children, self.np = [], [], {}, 0
        self.attr = {}       # module id -> set of live attribute names
        self.feat = set()
        self.times_registered = {}
        self.param_sites = {}

    def new(self, k, nm=None, direct=False):
        self.prog.append(("new", k, nm, direct))
        self.kinds.append(k)
        self.children[len(self.kinds) - 1] = []
        self.attr[len(self.kinds) - 1] = set()
        return len(self.kinds) - 1

    def reach(self, a):
        seen, todo = set(), [a]
        while todo:
            z = todo.pop()
            if z in seen:
                continue
            seen.add(z)
            todo += self.children[z]
        return seen

    def depth_of(self, m, root=0):
        best, todo = None, [(root, 0)]
        while todo:
            z, d = todo.pop()
            if z == m:
                best = d if best is None else max(best, d)
            for c in self.children[z]:
                if d < 8:
                    todo.append((c, d + 1))
        return best

    def attach(self, m, c):
        """Register object c in object m (no cycle)."""
        if m in self.reach(c):
            return False
        if self.kinds[m] == "mod":
            key = self.rng.choice(self.KEYS)
            self.prog.append(("setchild", m, key, c))
            self.attr[m].add(key)
        else:
            self.prog.append(("append", m, c))
        self.children[m].append(c)
        self.times_registered[c] = self.times_registered.get(c, 0) + 1
        return True

    def leaf_params(self, m):
        for _ in range(self.rng.choice([0, 1, 1, 2])):
            self.prog.append(("newparam", None))
            key = self.rng.choice(["w", "bias", "scale"])
            self.prog.append(("setparam", m, key, self.np))
            self.param_sites.setdefault(self.np, []).append((m, key))
            self.attr[m].add(key)
            self.np += 1

    def program(self, n_steps):
        rng = self.rng
        root = self.new("mod", rng.choice(["root", "model", None]), rng.random() < 0.12)
        self.leaf_params(root)
        for _ in range(n_steps):
            r = rng.random()
            tree = sorted(self.reach(root))
            hosts = [m for m in tree if (self.depth_of(m) or 0) < self.max_depth]
            if r < 0.62:
                k = rng.choice(["mod", "mod", "mod", "list", "seq"])
                c = self.new(k, None, k == "mod" and rng.random() < 0.08)
                if k == "mod":
                    self.leaf_params(c)
                else:
                    for _ in range(rng.choice([0, 1, 2])):      # constructor / early appends
                        g = self.new("mod")
                        self.leaf_params(g)
                        self.attach(c, g)
                if rng.random() < 0.88 and hosts:
                    self.attach(rng.choice(hosts), c)
                else:
                    self.feat.add("dangling")
            elif r < 0.72:                                       # attach something created earlier (dangling, or again)
                cands = [i for i in range(len(self.kinds)) if i != root]
                if cands and hosts:
                    c = rng.choice(cands)
                    if self.attach(rng.choice(hosts), c):
                        self.feat.add("attach-later")
            elif r < 0.80:                                       # slice of a container in the tree
                conts = [m for m in tree if self.kinds[m] != "mod" and self.children[m]]
                if conts and hosts:
                    l = rng.choice(conts)
                    n = len(self.children[l])
                    lo = rng.randrange(0, n)
                    hi = rng.randrange(lo, n + 1)
                    self.prog.append(("slice", l, lo, hi))
                    self.kinds.append("list")
                    new = len(self.kinds) - 1
                    self.children[new] = list(self.children[l][lo:hi])
                    self.attr[new] = set()
                    for c in self.children[new]:
                        self.times_registered[c] = self.times_registered.get(c, 0) + 1
                    self.feat.add("slice")
                    if rng.random() < 0.7:
                        self.attach(rng.choice(hosts), new)
            elif r < 0.86:                                       # re-assign a parameter attribute
                mods = [m for m in tree if self.kinds[m] == "mod"]
                m = rng.choice(mods)
                self.prog.append(("newparam", None))
                key = rng.choice(["w", "bias", "scale"])
                self.prog.append(("setparam", m, key, self.np))
                self.param_sites.setdefault(self.np, []).append((m, key))
                self.attr[m].add(key)
                self.np += 1
                self.feat.add("param-reassign")
            elif r < 0.90 and self.np:                           # the same Parameter object under another key / module
                mods = [m for m in tree if self.kinds[m] == "mod"]
                m, p = rng.choice(mods), rng.randrange(self.np)
                key = rng.choice(["w", "bias", "scale", "tied"])
                self.prog.append(("setparam", m, key, p))
                self.param_sites.setdefault(p, []).append((m, key))
                self.attr[m].add(key)
                self.feat.add("param-shared")
            elif r < 0.95:                                       # del an attribute (the dicts keep the entry)
                mods = [m for m in tree if self.attr[m]]
                if mods:
                    m = rng.choice(mods)
                    key = rng.choice(sorted(self.attr[m]))
                    self.prog.append(("delattr", m, key))
                    self.attr[m].discard(key)
                    self.feat.add("delattr")
            else:                                                # _set_name (private): rename to the registered key or not
                if len(tree) > 1:
                    m = rng.choice(tree[1:])
                    self.prog.append(("rename", m, rng.choice(["zz", "a", "0"])))
                    self.feat.add("rename")
        return self.prog


def directed():
    leaf = lambda: None  # noqa: E731
    w_seq = [("new", "mod", "root", True), ("new", "seq", None, False), ("new", "mod", None, False), ("new", "mod", None, False),
             ("newparam", None), ("newparam", None), ("setparam", 2, "w", 0), ("setparam", 3, "w", 1),
             ("append", 1, 2), ("append", 1, 3), ("setchild", 0, "seq", 1)]
    w_re = [("new", "mod", "root", False), ("new", "mod", None, False), ("new", "mod", None, False), ("newparam", None),
            ("setparam", 2, "w", 0), ("setchild", 1, "c", 2), ("setchild", 0, "d", 2)]
    ex = [("new", "mod", "model", False), ("new", "list", None, False), ("new", "mod", None, False), ("new", "mod", None, False),
          ("new", "seq", None, False), ("new", "mod", None, False), ("newparam", None), ("newparam", None), ("newparam", None),
          ("newparam", None), ("setparam", 2, "w", 0), ("setparam", 3, "w", 1), ("setparam", 5, "w", 2), ("setparam", 0, "bias", 3),
          ("append", 1, 2), ("setchild", 0, "layers", 1), ("append", 1, 3), ("append", 4, 5), ("append", 1, 4),
          ("setchild", 0, "layers", 1), ("delattr", 0, "bias"), ("rename", 1, "layers")]
    two = [("new", "mod", "root", False), ("new", "mod", None, False), ("newparam", None), ("setparam", 1, "w", 0),
           ("setchild", 0, "a", 1), ("setchild", 0, "b", 1)]
    reassign = [("new", "mod", "root", False), ("new", "mod", None, False), ("new", "mod", None, False), ("newparam", None), ("newparam", None),
                ("setparam", 1, "w", 0), ("setparam", 2, "w", 1), ("setchild", 0, "a", 1), ("setchild", 0, "a", 2)]
    slice_seq = [("new", "mod", None, False), ("new", "seq", None, False), ("new", "mod", None, False), ("new", "mod", None, False),
                 ("newparam", None), ("newparam", None), ("setparam", 2, "w", 0), ("setparam", 3, "w", 1), ("append", 1, 2), ("append", 1, 3),
                 ("setchild", 0, "seq", 1), ("slice", 1, 1, 2), ("setchild", 0, "tail", 4)]
    empty_seq = [("new", "mod", "root", False), ("new", "seq", None, False), ("setchild", 0, "s", 1)]
    list_in_seq = [("new", "mod", "root", False), ("new", "seq", None, False), ("new", "list", None, False), ("append", 1, 2), ("setchild", 0, "s", 1)]
    rename = [("new", "mod", "root", False), ("new", "mod", None, False), ("newparam", None), ("setparam", 1, "w", 0), ("setchild", 0, "a", 1),
              ("rename", 1, "zz")]
    collide = [("new", "mod", "root", False), ("new", "mod", None, False), ("new", "mod", None, False), ("newparam", None), ("newparam", None),
               ("setparam", 1, "w", 0), ("setparam", 2, "w", 1), ("setchild", 0, "a", 1), ("setchild", 0, "b", 2), ("rename", 2, "a")]
    del leaf
    return [("w_seq_direct", w_seq, K_SEQ_DIRECT), ("w_reattached", w_re, K_REATTACHED), ("ex_ops", ex, None), ("two-names", two, K_SHARED_SUB),
            ("reassign-child", reassign, None), ("slice-of-sequential-attached", slice_seq, K_SHARED_SUB), ("empty-sequential", empty_seq, None),
            ("list-in-sequential", list_in_seq, None), ("rename", rename, "private"), ("rename-collision", collide, "private")]


def classify(prog):
    """Why a program may legitimately leave the side condition (read off the program alone)."""
    regs, psites, direct, private = {}, {}, False, False
    kinds, children = [], {}
    for o in prog:
        if o[0] == "new":
            kinds.append(o[1])
            children[len(kinds) - 1] = []
            direct |= bool(o[3])
        elif o[0] in ("setchild", "append"):
            c = o[3] if o[0] == "setchild" else o[2]
            regs[c] = regs.get(c, 0) + 1
            children[o[1]].append(c)
        elif o[0] == "slice":
            kinds.append("list")
            new = len(kinds) - 1
            children[new] = list(dict.fromkeys(children[o[1]]))[o[2]:o[3]]
            for c in children[new]:
                regs[c] = regs.get(c, 0) + 1
        elif o[0] == "setparam":
            psites.setdefault(o[3], set()).add((o[1], o[2]))
        elif o[0] == "rename":
            private = True
    out = set()
    if private:
        out.add("private")
    if direct:
        out.add(K_SEQ_DIRECT)
    if any(len(v) > 1 for v in psites.values()):
        out.add(K_SHARED_PARAM)
    if any(v > 1 for v in regs.values()):
        out.add(K_SHARED_SUB)
        out.add(K_REATTACHED)
    return out


def run_modops(ctx, cfg):
    from onnxscript.nn import Module, ModuleList, Sequential

    present = [n for n in ABSENT if any(n in vars(k) for k in (Module, ModuleList, Sequential))]
    ctx.obligation("onnxscript.nn has no ModuleList.insert / __setitem__ / __delitem__ / pop, register_parameter / register_module / add_module, "
                   "Module.__delattr__ (operations outside the modelled set)", not present, f"present: {present}")
    for n in present:
        ctx.tie_broken("translator", "nn:operations", f"onnxscript.nn now defines {n}: not modelled by coq/Builder/ModOps.v")
    if {k: cfg.get(k) for k in ("realize_uses_root_scope", "container_renames_named_child", "unattached_list_propagates", "raises_on_collision")} != \
            {"realize_uses_root_scope": False, "container_renames_named_child": True, "unattached_list_propagates": True, "raises_on_collision": True}:
        ctx.tie_broken("translator", "nn:cfg", f"ModOps.v models the current behaviours (cfg_fixed) but the probe found {cfg}")
    rng = ctx.rng
    n = 150 if ctx.tier == "quick" else 1500
    cases, meta = [], []
    for name, prog, key in directed():
        cases.append((name, prog, key))
    for i in range(n):
        g = Gen(rng)
        cases.append((f"random{i}", g.program(rng.choice([3, 6, 10, 16])), None))
    lits, seen_keys = [], set()
    for name, prog, key in cases:
        try:
            init, npk, sdk, err, rname = execute(prog)
        except Exception as e:  # noqa: BLE001
            ctx.tie_broken("harness", "modops:execute", f"{name}: {type(e).__name__}: {str(e)[:200]} on {prog}")
            continue
        if npk != sdk and len(set(npk)) == len(npk):
            ctx.violation("C18:naming:state-dict-differs-from-named-parameters", f"{name}: state_dict keys {sdk} != named_parameters keys {npk}", {"program": repr(prog)})
        kinds = sorted({o[1] for o in prog if o[0] == "new"})
        ops = sorted({o[0] for o in prog})
        ctx.case(("modops", tuple(kinds), tuple(ops), min(len(prog), 40) // 8, err.split(":")[0] if err else None))
        want = [(rname + "." + k) if rname else k for k in npk]
        holds = init is not None and init == want
        meta.append((name, prog, key, init, npk, err, holds))
        lits.append(f"({clist([op_lit(o) for o in prog])}, 0, {copt(init, lambda l: clist(l, cstr))}, {clist(npk, cstr)})")
    if cases:
        ctx.sample({"model": "A/modops", "program": repr(cases[2][1])[:600], "observed": repr(meta[2][3:6])[:300]})
    shard = 60
    bodies = [f"Definition cases : list mcase := {clist(lits[a:a + shard])}.\n"
              "Eval vm_compute in (mdisagreeing 0 cases).\n"
              "Eval vm_compute in (map (fun c => if mcase_ok c then 1 else 0) cases).\n" for a in range(0, len(lits), shard)]
    res = ctx.coq_eval_shards(REQ, bodies, par=4)
    disagree, ok_cnt, ok_bad, unclassified = [], 0, [], []
    stats = {"programs": len(meta), "side_condition_holds": 0, "names_equal": 0, "raise": 0}
    for k, (okc, vals, raw) in enumerate(res):
        if not okc or len(vals) < 2:
            ctx.tie_broken("correspondence", "modelA-ops:evaluation", raw[-1200:])
            continue
        dis = set(common.parse_nat_list(vals[0]))
        oks = common.parse_nat_list(vals[1])
        for j, okb in enumerate(oks):
            name, prog, key, init, npk, err, holds = meta[k * shard + j]
            stats["side_condition_holds"] += okb
            stats["names_equal"] += holds
            stats["raise"] += init is None
            if j in dis:
                disagree.append((name, prog, init, npk, err))
            if okb and init is not None and not holds:     # a call that raises is compared by the correspondence above
                ok_bad.append((name, prog, init, npk, err))
            if not holds and init is not None:
                # the property fails on this program: a known class (read off the program) or a new defect
                cls = classify(prog)
                if key and key != "private":
                    cls = {key}
                if not cls:
                    unclassified.append((name, prog, init, npk))
                for kk in sorted(cls):
                    if kk == "private" or kk in seen_keys:
                        continue
                    if key is None and kk in (K_SHARED_SUB, K_SHARED_PARAM, K_REATTACHED) and len(cls - {"private"}) > 1:
                        continue    # ambiguous random program: the directed witnesses carry these keys
                    seen_keys.add(kk)
                    ctx.violation(kk, f"module program {name}: initializer names {init} but root name + named_parameters keys {npk}",
                                  {"program": repr(prog), "initializers": init, "keys": npk})
    for (name, prog, init, npk, err) in disagree[:5]:
        ctx.tie_broken("correspondence", "modelA-ops:names", f"{name}: real classes give initializers {init} / error {err} / keys {npk}; "
                       f"ModOps.v run_ops + to_tree predicts something else; program {prog}")
    for (name, prog, init, npk, err) in ok_bad[:5]:
        ctx.violation("C18:naming:modops:side-condition-holds-but-names-differ", f"{name}: heap_okb holds but initializers {init} (error {err}) != root + keys {npk}",
                      {"program": repr(prog)})
    for (name, prog, init, npk) in unclassified[:3]:
        ctx.violation("C18:naming:modops:unclassified", f"{name}: initializer names {init} != root + keys {npk} and the program uses no sharing, "
                      "re-attachment, direct Sequential-child call or private renaming", {"program": repr(prog)})
    ctx.obligation("correspondence A (imperative programs): initializer names / raise-or-not of the real Module/ModuleList/Sequential classes and "
                   "named_parameters() keys = ModOps.v run_ops + to_tree + call_outcome / sd_keys on every program", not disagree, f"{len(disagree)} disagreements")
    ctx.obligation("whenever heap_okb (side condition of C18_modops_param_names_eq_state_dict) holds, the real initializer names = root name + state_dict keys",
                   not ok_bad, f"{len(ok_bad)} programs")
    if stats["programs"] and stats["side_condition_holds"] * 5 < stats["programs"]:
        ctx.tie_broken("harness", "modops:generator", f"the side condition holds on too few programs: {stats}")
    ctx.cover(modops=stats, modops_operations="new/newparam/setparam/setchild/append(extend)/slice/rename/delattr; forward calls every registered child, "
              "optionally the children of a Sequential directly")
