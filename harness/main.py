"""./check entry point (see DESIGN.md 1.2)."""
import argparse
import importlib
import json
import os
import subprocess
import sys
import time
import traceback

sys.path.insert(0, os.path.dirname(os.path.dirname(os.path.abspath(__file__))))
from harness import common  # noqa: E402

ALL = [f"C{n:02d}" for n in range(1, 21)]


def available():
    here = os.path.dirname(os.path.abspath(__file__))
    return [p for p in ALL if os.path.exists(os.path.join(here, p.lower() + ".py"))]


def setup():
    """Regenerate every translated model from /repo, then build the whole Coq development.

    Each check re-makes its own targets and reports a broken build as a broken tie, so setup only
    warms the build: it keeps going past a failing file (make -k) and reports what failed."""
    t0 = time.time()
    import shutil
    for pid in available():
        try:
            mod = importlib.import_module("harness." + pid.lower())
            if hasattr(mod, "regenerate"):
                ctx = common.Ctx(pid, "quick", 0)
                try:
                    mod.regenerate(ctx)
                finally:
                    shutil.rmtree(ctx.scratch, ignore_errors=True)
        except Exception:
            print(f"setup: regenerate for {pid} failed (the check itself will report it)")
            traceback.print_exc()
    bad = common.hygiene_scan()
    if bad:
        print("setup: hygiene scan:", bad)
    ok, log = common.coq_make(["-k", "all"], timeout=5400)
    print(log[-3000:])
    print(f"setup: coq build ok={ok} in {time.time()-t0:.0f}s")
    return 0


def main():
    ap = argparse.ArgumentParser()
    ap.add_argument("prop", nargs="?")
    ap.add_argument("--tier", default=os.environ.get("VERIF_TIER", "quick"), choices=["quick", "thorough"])
    ap.add_argument("--setup", action="store_true")
    ap.add_argument("--all", action="store_true")
    ap.add_argument("--replay")
    args = ap.parse_args()
    if args.setup:
        sys.exit(setup())
    if args.all:
        rc = 0
        for pid in available():
            r = subprocess.run([os.path.join(common.VERIF, "check"), pid, "--tier", args.tier])
            rc |= r.returncode
        sys.exit(rc)
    pid = args.prop
    if pid not in ALL:
        ap.error("unknown property")
    seed = int(os.environ.get("VERIF_SEED", "0") or 0)
    mod = importlib.import_module("harness." + pid.lower())
    if args.replay:
        doc = json.load(open(args.replay))
        sys.exit(mod.replay(doc) if hasattr(mod, "replay") else print(json.dumps(doc, indent=1)) or 0)
    ctx = common.Ctx(pid, args.tier, seed)
    try:
        if hasattr(mod, "regenerate"):
            mod.regenerate(ctx)
        mod.run(ctx)
    except Exception as e:  # the check itself broke: report as a broken tie, never pass silently
        tb = traceback.format_exc()
        print(tb, file=sys.stderr)
        ctx.tie_broken("harness", type(e).__name__, tb)
    sys.exit(ctx.finish(getattr(mod, "LEVEL", "proof")))


if __name__ == "__main__":
    main()
