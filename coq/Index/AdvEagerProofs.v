(* C11 -- eager Tensor.__getitem__ (EagerFix.eager_ops_c, with the start clamp of 54bfea1): the op chain
   Slice (+ numpy.squeeze) / Gather of the lone scalar, then one Gather per tensor index of rank >= 1 from the last axis to
   the first, computes the per-axis view for EVERY index tuple. *)
From Coq Require Import ZArith List Bool Lia Arith Permutation.
Import ListNotations.
Require Import OV.Index.NumpySpec OV.Index.OnnxSlice OV.Index.ConverterIdx OV.Index.EagerIdx OV.Index.SliceProofs
               OV.Index.ViewProofs OV.Index.AdvChain OV.Index.AdvConvProofs OV.Index.EagerFix OV.Index.EagerFixProofs.
Open Scope Z_scope.

(* ---- generic counting (as AdvChain.count_below_enum / knum_count, any element type) ---- *)
Fixpoint cnt_g {A} (Q : A -> bool) (l : list A) (a : nat) : nat :=
  match a, l with
  | S a', c :: t => ((if Q c then 1 else 0) + cnt_g Q t a')%nat
  | _, _ => 0%nat
  end.

Lemma count_below_enum_g {A} (Q : A -> bool) : forall (l : list A) j a,
  count_below a (map fst (filter (fun p => Q (snd p)) (enum_from j l))) = cnt_g Q l (a - j).
Proof.
  induction l as [|c l IH]; intros j a.
  - cbn. destruct (a - j)%nat; reflexivity.
  - cbn [enum_from filter snd]. destruct (a - j)%nat as [|n] eqn:E.
    + cbn [cnt_g]. assert (Z0 : cnt_g Q l (a - S j) = 0%nat) by (replace (a - S j)%nat with 0%nat by lia; destruct l; reflexivity).
      destruct (Q c); cbn [map fst]; unfold count_below in *; cbn [filter].
      * assert (Nat.ltb j a = false) as -> by (apply Nat.ltb_ge; lia). rewrite <- Z0. apply IH.
      * rewrite <- Z0. apply IH.
    + cbn [cnt_g]. replace n with (a - S j)%nat by lia.
      destruct (Q c); cbn [map fst]; unfold count_below in *; cbn [filter].
      * assert (Nat.ltb j a = true) as -> by (apply Nat.ltb_lt; lia). cbn [length]. rewrite IH. reflexivity.
      * rewrite IH. reflexivity.
Qed.

Lemma knum_count_g {A} (Q : A -> bool) : forall a v (l : list A), (a <= length l)%nat ->
  (forall m c, (m < a)%nat -> nth_error l m = Some c -> exists s, nth_error v m = Some s /\ is_pickb s = Q c) ->
  (knum v a + cnt_g Q l a = a)%nat.
Proof.
  induction a as [|a IH]; intros v l Hl H; [destruct l; reflexivity|].
  destruct l as [|c l]; [cbn in Hl; lia|]. destruct (H 0%nat c ltac:(lia) eq_refl) as [s [Hs Hq]].
  destruct v as [|s0 v]; [discriminate|]. cbn in Hs. injection Hs as ->.
  assert (IH' : (knum v a + cnt_g Q l a = a)%nat).
  { apply IH; [cbn in Hl; lia|]. intros m c' Hm Hc. apply (H (S m) c'); [lia|assumption]. }
  cbn [cnt_g]. rewrite <- Hq. unfold knum in *. destruct s; cbn [firstn nkeeps is_pickb]; lia.
Qed.

(* ---- the tensor Gathers of eager mode as a descending chain ---- *)
Definition proj (p : nat * (Z * comp)) : nat * comp := (fst p, snd (snd p)).
Definition eG (shape : list Z) (idx : list comp) : list (nat * comp) := rev (map proj (e_tens shape idx)).

Lemma desc_snoc {A} : forall (l : list (nat * A)) x, desc l -> (forall y, In y l -> (fst x < fst y)%nat) -> desc (l ++ [x]).
Proof.
  induction l as [|z l IH]; intros x Hd H.
  - cbn. split; [intros y []|exact I].
  - simpl in Hd. destruct Hd as [Hlt Hd]. simpl. split.
    + intros y Hy. apply in_app_or in Hy. destruct Hy as [Hy|[<-|[]]]; [apply Hlt; assumption|apply H; left; reflexivity].
    + apply IH; [assumption|]. intros y Hy. apply H. right. assumption.
Qed.

Lemma desc_rev_filter {A} (Q : nat * A -> bool) (pr : nat * A -> nat * comp) : (forall p, fst (pr p) = fst p) ->
  forall (l : list A) j, desc (rev (map pr (filter Q (enum_from j l)))).
Proof.
  intros Hpr. induction l as [|x l IH]; intros j; [exact I|].
  cbn [enum_from filter]. destruct (Q (j, x)); [|apply IH].
  cbn [map rev]. apply desc_snoc; [apply IH|].
  intros y Hy. apply in_rev in Hy. apply in_map_iff in Hy. destruct Hy as [p [<- Hp]].
  apply filter_In in Hp. destruct Hp as [Hp _]. apply enum_from_range in Hp. rewrite !Hpr. cbn. lia.
Qed.

Lemma desc_eG : forall shape idx, desc (eG shape idx).
Proof. intros. unfold eG, e_tens. apply desc_rev_filter. reflexivity. Qed.

Lemma egathers_true_eq : forall sq shape idx,
  egathers true sq (e_tens shape idx) = gather_ops (fun a => (a - count_below a sq)%nat) (eG shape idx).
Proof.
  intros. unfold egathers, gather_ops, eG. rewrite <- map_rev. rewrite map_map. reflexivity.
Qed.

Lemma in_efilter (Q : comp -> bool) : forall shape idx p,
  In p (filter (fun q : nat * (Z * comp) => Q (e_comp q)) (enum_from 0 (combine shape idx))) ->
  nth_error shape (fst p) = Some (e_dim p) /\ nth_error idx (fst p) = Some (e_comp p) /\ Q (e_comp p) = true.
Proof.
  intros shape idx [a [d c]] Hin.
  pose proof (find_axis_in _ a (d, c) (NoDup_keys_filter _ _ (NoDup_keys_enum (combine shape idx) 0%nat)) Hin) as F.
  rewrite find_axis_combine in F. unfold e_dim, e_comp. cbn [fst snd].
  destruct (nth_error shape a) as [d'|]; [|discriminate]. destruct (nth_error idx a) as [c'|]; [|discriminate].
  destruct (Q c') eqn:E; [|discriminate]. injection F as <- <-. repeat split; assumption.
Qed.

Lemma in_eG : forall shape idx q, In q (eG shape idx) ->
  exists d, nth_error shape (fst q) = Some d /\ nth_error idx (fst q) = Some (snd q) /\ is_t1 (snd q) = true.
Proof.
  intros shape idx q Hq. unfold eG in Hq. apply in_rev in Hq. apply in_map_iff in Hq. destruct Hq as [p [<- Hp]].
  apply in_efilter in Hp. destruct Hp as [H1 [H2 H3]]. exists (e_dim p). repeat split; assumption.
Qed.

Lemma nth_in_enum {A} : forall (l : list A) j m x, nth_error l m = Some x -> In ((j + m)%nat, x) (enum_from j l).
Proof.
  induction l as [|y l IH]; intros j m x H; [destruct m; discriminate|]. destruct m as [|m]; cbn in H.
  - injection H as ->. rewrite Nat.add_0_r. left. reflexivity.
  - right. replace (j + S m)%nat with (S j + m)%nat by lia. apply IH. assumption.
Qed.

Lemma find_axis_notin {A} : forall (G : list (nat * A)) m c, find_axis m G = None -> ~ In (m, c) G.
Proof.
  induction G as [|[a x] G IH]; intros m c H Hin; [destruct Hin|]. cbn in H.
  destruct (Nat.eqb a m) eqn:E; [discriminate|]. destruct Hin as [Hin|Hin].
  - injection Hin as -> _. rewrite Nat.eqb_refl in E. discriminate.
  - eapply IH; eassumption.
Qed.

Lemma eG_none_not_t1 : forall shape idx m d c, find_axis m (eG shape idx) = None ->
  nth_error shape m = Some d -> nth_error idx m = Some c -> is_t1 c = false.
Proof.
  intros shape idx m d c F Hm Hc. destruct (is_t1 c) eqn:E; [|reflexivity]. exfalso.
  apply (find_axis_notin _ m c F). unfold eG. apply in_rev. rewrite rev_involutive.
  apply in_map_iff. exists (m, (d, c)). split; [reflexivity|]. unfold e_tens. apply filter_In. split; [|exact E].
  apply (nth_in_enum (combine shape idx) 0%nat m (d, c)). rewrite nth_error_combine, Hm, Hc. reflexivity.
Qed.

(* ---- the first stage, position by position ---- *)
Definition epw (shape : list Z) (idx : list comp) (v1 : view) : Prop :=
  length v1 = length shape /\
  forall m d, nth_error shape m = Some d -> exists s, nth_error v1 m = Some s /\
    forall c, nth_error idx m = Some c -> is_pickb s = is_escalar c /\ (is_t1 c = true -> s = Keep (zrange d)).

Lemma estage_ok : forall shape idx v1, (length idx <= length shape)%nat -> epw shape idx v1 ->
  stage_ok shape idx (fun a => (a - count_below a (map e_axis (e_scalars shape idx)))%nat) (eG shape idx) v1.
Proof.
  intros shape idx v1 Hlen [L P] q Hq. destruct (in_eG _ _ _ Hq) as [d [Hm [Hc Ht]]]. exists d.
  destruct (P _ _ Hm) as [s [Hs Hk]]. destruct (Hk _ Hc) as [_ Hkeep]. rewrite (Hkeep Ht) in Hs.
  repeat split; try assumption.
  - unfold is_advc. destruct (snd q); try discriminate. reflexivity.
  - unfold e_scalars. change (fun p : nat * (Z * comp) => is_escalar (e_comp p)) with (fun p : nat * (Z * comp) => (fun dc : Z * comp => is_escalar (snd dc)) (snd p)).
    change (map e_axis) with (map (@fst nat (Z * comp))).
    rewrite (count_below_enum_g (fun dc : Z * comp => is_escalar (snd dc)) (combine shape idx) 0%nat). rewrite Nat.sub_0_r.
    assert (Hal : (fst q < length idx)%nat) by (apply nth_error_Some; congruence).
    pose proof (knum_count_g (fun dc : Z * comp => is_escalar (snd dc)) (fst q) v1 (combine shape idx)) as K.
    rewrite <- K at 1; [lia|rewrite combine_length; lia|].
    intros m [dm cm] Hlt Hcm. rewrite nth_error_combine in Hcm.
    destruct (nth_error shape m) as [dm'|] eqn:Hdm; [|discriminate]. destruct (nth_error idx m) as [cm'|] eqn:Hcm'; [|discriminate].
    injection Hcm as <- <-. destruct (P _ _ Hdm) as [s' [Hs' Hk']]. exists s'. split; [assumption|]. apply (Hk' _ Hcm').
Qed.

(* ---- Slice (+ squeeze) stage with the clamp ---- *)
Definition eager_pt_c (cl : bool) (idx : list comp) (m : nat) (d : Z) : option sel :=
  match nth_error idx m with
  | Some (CInt i) => if i =? -1 then None else sel_of d (CInt i)
  | Some (CT0 i) => if i =? -1 then None else sel_of d (CT0 i)
  | Some (CSlice a b s) =>
      if is_trivial (CSlice a b s) then Some (Keep (zrange d)) else option_map Keep (eager_slice_c cl d a b s)
  | _ => Some (Keep (zrange d))
  end.

Lemma eslice_spec_c_axis : forall cl p, spec_axis (eslice_spec_c cl p) = fst p.
Proof.
  intros cl [k [d c]]. unfold eslice_spec_c, e_comp, e_dim, e_axis. cbn. destruct c; try reflexivity.
  destruct (eager_bounds_c cl d a b s) as [[x y] st]. reflexivity.
Qed.

Lemma eager_fused_pt_c : forall cl shape idx m d, nth_error shape m = Some d -> 0 <= d ->
  match slice_f (map (eslice_spec_c cl) (e_sliced shape idx) ++ map escalar_spec (e_scalars shape idx)) m (zrange d) with
  | Some (Keep l') => squeeze_f (map e_axis (e_scalars shape idx)) m l'
  | _ => None
  end = eager_pt_c cl idx m d.
Proof.
  intros cl shape idx m d Hm Hd. unfold slice_f, squeeze_f, eager_pt_c.
  rewrite lookup_spec_app.
  rewrite (lookup_spec_map (eslice_spec_c cl) (eslice_spec_c_axis cl)). rewrite (lookup_spec_map escalar_spec escalar_spec_axis).
  unfold e_axis. rewrite existsb_axis.
  unfold e_sliced, e_scalars. rewrite !find_axis_combine. rewrite Hm.
  rewrite zrange_length by assumption.
  destruct (nth_error idx m) as [c|]; [|reflexivity].
  destruct c as [i|a b s|i|l].
  - cbn [is_sliced is_slice is_escalar andb option_map escalar_spec e_comp e_axis snd fst].
    apply scalar_slice_squeeze. assumption.
  - cbn [is_escalar]. destruct (is_sliced (CSlice a b s)) eqn:Hsl.
    + assert (is_trivial (CSlice a b s) = false) as ->.
      { unfold is_sliced in Hsl. cbn [is_slice andb] in Hsl. destruct (is_trivial (CSlice a b s)); [discriminate|reflexivity]. }
      cbn [option_map eslice_spec_c e_comp e_dim e_axis snd fst]. unfold eager_slice_c.
      destruct (eager_bounds_c cl d a b s) as [[x y] st].
      destruct (onnx_slice d x y st) as [js|] eqn:Hjs; cbn [option_map]; [|reflexivity].
      rewrite pick_all_zrange by (intros z Hz; eapply onnx_slice_in_range; eassumption). reflexivity.
    + assert (is_trivial (CSlice a b s) = true) as ->.
      { unfold is_sliced in Hsl. cbn [is_slice andb] in Hsl. destruct (is_trivial (CSlice a b s)); [reflexivity|discriminate]. }
      reflexivity.
  - cbn [is_sliced is_slice is_escalar andb option_map escalar_spec e_comp e_axis snd fst].
    apply scalar_slice_squeeze. assumption.
  - reflexivity.
Qed.

Lemma eager_slice_stage_run : forall cl shape idx,
  dims_nat shape -> (length idx <= length shape)%nat ->
  run_ops (OSlice (map (eslice_spec_c cl) (e_sliced shape idx) ++ map escalar_spec (e_scalars shape idx))
           :: (match map e_axis (e_scalars shape idx) with [] => [] | _ => [OSqueeze (map e_axis (e_scalars shape idx))] end))
          (full shape)
  = build (fun m d => eager_pt_c cl idx m (zlen (zrange d))) 0 shape.
Proof.
  intros cl shape idx Hd Hlen.
  assert (Hrun : forall S sq v,
    run_ops (OSlice S :: match sq with [] => [] | _ => [OSqueeze sq] end) v = run_ops [OSlice S; OSqueeze sq] v).
  { intros S sq v. destruct sq; [|reflexivity]. cbn [run_ops]. destruct (run_op (OSlice S) v); [|reflexivity].
    rewrite run_squeeze_nil. reflexivity. }
  rewrite Hrun. rewrite run_slice_squeeze.
  - rewrite <- (map_keeps_full_build (fun m l => eager_pt_c cl idx m (zlen l))). apply map_keeps_full_ext. intros m d Hm. cbn [Nat.add].
    rewrite zrange_length by (apply (dims_nat_nth _ _ _ Hd Hm)).
    apply eager_fused_pt_c; [assumption|apply (dims_nat_nth _ _ _ Hd Hm)].
  - rewrite map_app, axes_ok_app. rewrite !map_map.
    rewrite (map_ext (fun x => spec_axis (eslice_spec_c cl x)) fst (eslice_spec_c_axis cl)).
    rewrite (map_ext (fun x => spec_axis (escalar_spec x)) fst escalar_spec_axis).
    unfold e_sliced, e_scalars. rewrite !axes_ok_filter; [reflexivity| |]; pose proof (combine_length_le shape idx); lia.
  - unfold e_scalars, e_axis. apply axes_ok_filter. pose proof (combine_length_le shape idx); lia.
Qed.

Lemma eager_pt_c_kind : forall cl idx m d c s, nth_error idx m = Some c -> eager_pt_c cl idx m d = Some s ->
  is_pickb s = is_escalar c /\ (is_t1 c = true -> s = Keep (zrange d)).
Proof.
  intros cl idx m d c s Hc H. unfold eager_pt_c in H. rewrite Hc in H. destruct c as [i|a b st|i|l].
  - destruct (i =? -1); [discriminate|]. cbn in H. destruct (py_int d i); [|discriminate]. injection H as <-. split; [reflexivity|discriminate].
  - split; [|discriminate]. destruct (is_trivial (CSlice a b st)).
    + injection H as <-. reflexivity.
    + destruct (eager_slice_c cl d a b st); [|discriminate]. injection H as <-. reflexivity.
  - destruct (i =? -1); [discriminate|]. cbn in H. destruct (py_int d i); [|discriminate]. injection H as <-. split; [reflexivity|discriminate].
  - injection H as <-. split; [reflexivity|reflexivity].
Qed.

(* the repaired slice stage against NumPy, one position: no corner left *)
Lemma eager_pt_c_sound : forall idx m d s, 0 <= d ->
  (forall c, nth_error idx m = Some c -> is_t1 c = false) ->
  eager_pt_c true idx m d = Some s -> np_pt idx m (zrange d) = Some s.
Proof.
  intros idx m d s Hd Hc H. unfold eager_pt_c, np_pt in *. rewrite zrange_length by lia.
  destruct (nth_error idx m) as [c|]; [|assumption].
  pose proof (Hc c eq_refl) as Ht. destruct c as [i|a b st|i|l]; try discriminate.
  - destruct (i =? -1); [discriminate|assumption].
  - destruct (is_trivial (CSlice a b st)) eqn:Ht'.
    + destruct a, b, st; try discriminate. assumption.
    + cbn [sel_of]. rewrite <- eager_slice_fixed_eq_python by assumption. assumption.
  - destruct (i =? -1); [discriminate|assumption].
Qed.

Lemma eager_pt_c_complete : forall idx m d s, 0 <= d ->
  (forall c, nth_error idx m = Some c -> is_t1 c = false /\ is_eminus1 c = false) ->
  np_pt idx m (zrange d) = Some s -> eager_pt_c true idx m d = Some s.
Proof.
  intros idx m d s Hd Hc H. unfold eager_pt_c, np_pt in *. rewrite zrange_length in H by lia.
  destruct (nth_error idx m) as [c|]; [|assumption].
  destruct (Hc c eq_refl) as [Ht Hm]. destruct c as [i|a b st|i|l]; try discriminate.
  - cbn in Hm. rewrite Hm. assumption.
  - destruct (is_trivial (CSlice a b st)) eqn:Ht'.
    + destruct a, b, st; try discriminate. assumption.
    + cbn [sel_of] in H. rewrite eager_slice_fixed_eq_python by assumption. assumption.
  - cbn in Hm. rewrite Hm. assumption.
Qed.

(* ---- Gather-only stage: the lone scalar (if any) gathered on the full tensor ---- *)
Definition gpath_pt (idx : list comp) (m : nat) (d : Z) : option sel :=
  match nth_error idx m with
  | Some c => if is_escalar c then sel_of d c else Some (Keep (zrange d))
  | None => Some (Keep (zrange d))
  end.

Lemma escalar_advc : forall c, is_escalar c = true -> is_advc c = true.
Proof. intros [| | |]; cbn; congruence. Qed.

Lemma flags_trivial : forall c, is_sliced c = false -> is_escalar c = false -> is_t1 c = false ->
  is_sliced c = false /\ is_cint c = false /\ is_tensor c = false.
Proof. intros [| | |]; cbn; intros; repeat split; congruence. Qed.

Section GatherPath.
  Variable shape : list Z.
  Variable idx : list comp.
  Hypothesis Hd : dims_nat shape.
  Hypothesis Hlen : (length idx <= length shape)%nat.
  Hypothesis Hsl : e_sliced shape idx = [].

  Lemma not_sliced_at : forall m d c, nth_error shape m = Some d -> nth_error idx m = Some c -> is_sliced c = false.
  Proof.
    intros m d c Hm Hc. pose proof (find_axis_combine is_sliced shape idx m) as F. fold (e_sliced shape idx) in F.
    rewrite Hsl, Hm, Hc in F. cbn in F. destruct (is_sliced c); [discriminate|reflexivity].
  Qed.

  (* no scalar at all: the first stage is the tensor itself *)
  Lemma epw_full : e_scalars shape idx = [] -> epw shape idx (full shape).
  Proof.
    intros Hsc. split; [unfold full; apply map_length|]. intros m d Hm. exists (Keep (zrange d)).
    split; [apply nth_error_full; assumption|]. intros c Hc. split; [|reflexivity].
    pose proof (find_axis_combine is_escalar shape idx m) as F. fold (e_scalars shape idx) in F.
    rewrite Hsc, Hm, Hc in F. cbn in F. destruct (is_escalar c); [discriminate|reflexivity].
  Qed.

  (* one scalar p: Gather on its axis *)
  Variable p : nat * (Z * comp).
  Hypothesis Hsc : e_scalars shape idx = [p].

  Lemma lone_scalar_at : nth_error shape (fst p) = Some (e_dim p) /\ nth_error idx (fst p) = Some (e_comp p) /\ is_escalar (e_comp p) = true.
  Proof. apply (in_efilter is_escalar shape idx p). fold (e_scalars shape idx). rewrite Hsc. left. reflexivity. Qed.

  Lemma escalar_only_p : forall m d c, nth_error shape m = Some d -> nth_error idx m = Some c -> is_escalar c = true -> m = fst p.
  Proof.
    intros m d c Hm Hc He. pose proof (find_axis_combine is_escalar shape idx m) as F. fold (e_scalars shape idx) in F.
    rewrite Hsc, Hm, Hc, He in F. cbn in F. destruct p as [a x]. cbn in *. destruct (Nat.eqb a m) eqn:E; [|discriminate].
    apply Nat.eqb_eq in E. symmetry. assumption.
  Qed.

  Lemma lone_gather_run :
    run_op (OGather (e_axis p) (gix (e_comp p))) (full shape)
    = option_map (fun s => put (fst p) s (full shape)) (sel_of (e_dim p) (e_comp p)).
  Proof.
    destruct lone_scalar_at as [Hm [Hc He]].
    assert (Hlt : (fst p < length shape)%nat) by (apply nth_error_Some; congruence).
    unfold e_axis. rewrite <- (knum_full shape (fst p)) at 1 by lia.
    rewrite (run_gather_at (full shape) (fst p) (zrange (e_dim p)) _ (nth_error_full _ _ _ Hm)).
    rewrite gather_sel_zrange_adv; [reflexivity|eapply dims_nat_nth; eassumption|apply escalar_advc; assumption].
  Qed.

  Lemma epw_lone : forall s, sel_of (e_dim p) (e_comp p) = Some s -> epw shape idx (put (fst p) s (full shape)).
  Proof.
    intros s Hs. destruct lone_scalar_at as [Hm [Hc He]].
    assert (Hlt : (fst p < length (full shape))%nat) by (unfold full; rewrite map_length; apply nth_error_Some; congruence).
    split; [rewrite length_put by assumption; unfold full; apply map_length|].
    intros m d Hmd. destruct (Nat.eq_dec m (fst p)) as [->|Hne].
    - exists s. split; [apply nth_error_put_eq; assumption|]. intros c Hc'. rewrite Hc in Hc'. injection Hc' as <-.
      rewrite He. split.
      + destruct (e_comp p) as [i| |i|]; try discriminate; cbn in Hs; destruct (py_int (e_dim p) i); try discriminate; injection Hs as <-; reflexivity.
      + intros Ht. destruct (e_comp p); discriminate.
    - exists (Keep (zrange d)). split.
      + assert (nth_error (put (fst p) s (full shape)) m = nth_error (full shape) m) as ->.
        { destruct (Nat.lt_ge_cases m (fst p)); [apply nth_error_put_lt; assumption|apply nth_error_put_gt; [lia|assumption]]. }
        apply nth_error_full. assumption.
      + intros c Hc'. split; [|reflexivity]. destruct (is_escalar c) eqn:E; [|reflexivity].
        exfalso. apply Hne. eapply escalar_only_p; eassumption.
  Qed.
End GatherPath.

(* ---- the theorems ---- *)
Lemma eager_ops_c_cases : forall cl shape idx, (length idx <= length shape)%nat ->
  eager_ops_c cl shape idx =
    match e_sliced shape idx, e_scalars shape idx, e_tens shape idx with
    | [], [], [] => Some [OIdentity]
    | [], [p], _ => Some (OGather (e_axis p) (gix (e_comp p)) :: egathers true (map e_axis (e_scalars shape idx)) (e_tens shape idx))
    | [], [], _ => Some (egathers true [] (e_tens shape idx))
    | _, _, _ =>
        Some ((OSlice (map (eslice_spec_c cl) (e_sliced shape idx) ++ map escalar_spec (e_scalars shape idx))
               :: (match map e_axis (e_scalars shape idx) with [] => [] | _ => [OSqueeze (map e_axis (e_scalars shape idx))] end))
              ++ egathers true (map e_axis (e_scalars shape idx)) (e_tens shape idx))
    end.
Proof.
  intros cl shape idx Hlen. unfold eager_ops_c.
  assert (Nat.ltb (length shape) (length idx) = false) as -> by (apply Nat.ltb_ge; assumption).
  cbv zeta.
  change (filter (fun p : nat * (Z * comp) => is_sliced (e_comp p)) (enum_from 0 (combine shape idx))) with (e_sliced shape idx).
  change (filter (fun p : nat * (Z * comp) => is_escalar (e_comp p)) (enum_from 0 (combine shape idx))) with (e_scalars shape idx).
  change (filter (fun p : nat * (Z * comp) => is_t1 (e_comp p)) (enum_from 0 (combine shape idx))) with (e_tens shape idx).
  destruct (e_sliced shape idx) as [|q sl]; destruct (e_scalars shape idx) as [|p [|p' sc]]; destruct (e_tens shape idx); reflexivity.
Qed.

(* every route: a first stage, then the descending chain of tensor Gathers *)
Definition stage1 (cl : bool) (shape : list Z) (idx : list comp) : option view :=
  match e_sliced shape idx, e_scalars shape idx with
  | [], [] => Some (full shape)
  | [], [p] => option_map (fun s => put (fst p) s (full shape)) (sel_of (e_dim p) (e_comp p))
  | _, _ => build (fun m d => eager_pt_c cl idx m (zlen (zrange d))) 0 shape
  end.
Definition eadj (shape : list Z) (idx : list comp) : nat -> nat :=
  fun a => (a - count_below a (map e_axis (e_scalars shape idx)))%nat.

Lemma gather_ops_nil : forall adj v, run_ops (gather_ops adj []) v = Some v.
Proof. reflexivity. Qed.

Lemma eG_nil : forall shape idx, e_tens shape idx = [] -> eG shape idx = [].
Proof. intros shape idx H. unfold eG. rewrite H. reflexivity. Qed.

Lemma eager_run_cases : forall cl shape idx, dims_nat shape -> (length idx <= length shape)%nat ->
  run_eager_c cl shape idx =
    match stage1 cl shape idx with
    | Some v1 => run_ops (gather_ops (eadj shape idx) (eG shape idx)) v1
    | None => None
    end.
Proof.
  intros cl shape idx Hd Hlen. unfold run_eager_c. rewrite (eager_ops_c_cases cl shape idx Hlen).
  pose proof (eager_slice_stage_run cl shape idx Hd Hlen) as S1.
  pose proof (egathers_true_eq (map e_axis (e_scalars shape idx)) shape idx) as G1. fold (eadj shape idx) in G1.
  pose proof (lone_gather_run shape idx Hd) as L1.
  pose proof (eG_nil shape idx) as N1.
  unfold stage1.
  destruct (e_sliced shape idx) as [|q sl] eqn:Hsl; destruct (e_scalars shape idx) as [|p [|p' sc]] eqn:Hsc.
  - destruct (e_tens shape idx) eqn:Hte.
    + rewrite (N1 eq_refl). reflexivity.
    + rewrite <- G1. reflexivity.
  - assert (E : forall T, match T with [] | _ => Some (OGather (e_axis p) (gix (e_comp p)) :: egathers true (map e_axis [p]) T) end
                  = Some (OGather (e_axis p) (gix (e_comp p)) :: egathers true (map e_axis [p]) T)) by (intros []; reflexivity).
    rewrite ?E. cbn [run_ops]. rewrite (L1 Hlen p eq_refl).
    destruct (sel_of (e_dim p) (e_comp p)); cbn [option_map]; [rewrite G1; reflexivity|reflexivity].
  - assert (E : forall (X : option (list op)) (T : list (nat * (Z * comp))), match T with [] | _ => X end = X) by (intros X []; reflexivity).
    rewrite ?E. rewrite run_ops_app, S1, G1. reflexivity.
  - assert (E : forall (X : option (list op)) (T : list (nat * (Z * comp))), match T with [] | _ => X end = X) by (intros X []; reflexivity).
    rewrite ?E. rewrite run_ops_app, S1, G1. reflexivity.
  - assert (E : forall (X : option (list op)) (T : list (nat * (Z * comp))), match T with [] | _ => X end = X) by (intros X []; reflexivity).
    rewrite ?E. rewrite run_ops_app, S1, G1. reflexivity.
  - assert (E : forall (X : option (list op)) (T : list (nat * (Z * comp))), match T with [] | _ => X end = X) by (intros X []; reflexivity).
    rewrite ?E. rewrite run_ops_app, S1, G1. reflexivity.
Qed.

Lemma stage1_cases : forall cl shape idx v1, stage1 cl shape idx = Some v1 ->
  (e_sliced shape idx = [] /\ e_scalars shape idx = [] /\ v1 = full shape) \/
  (e_sliced shape idx = [] /\ exists p s, e_scalars shape idx = [p] /\ sel_of (e_dim p) (e_comp p) = Some s /\
                                          v1 = put (fst p) s (full shape)) \/
  ((e_sliced shape idx <> [] \/ (2 <= length (e_scalars shape idx))%nat) /\
   build (fun m d => eager_pt_c cl idx m (zlen (zrange d))) 0 shape = Some v1).
Proof.
  intros cl shape idx v1 H. unfold stage1 in H.
  destruct (e_sliced shape idx) as [|q sl]; destruct (e_scalars shape idx) as [|p [|p' sc]].
  - injection H as <-. left. repeat split; reflexivity.
  - right. left. split; [reflexivity|]. destruct (sel_of (e_dim p) (e_comp p)) as [s|] eqn:Es; [|discriminate].
    injection H as <-. exists p, s. repeat split; try reflexivity; assumption.
  - right. right. split; [right; cbn; lia|assumption].
  - right. right. split; [left; discriminate|assumption].
  - right. right. split; [left; discriminate|assumption].
  - right. right. split; [left; discriminate|assumption].
Qed.

Lemma slice_route_path : forall shape idx, (length idx <= length shape)%nat ->
  e_sliced shape idx <> [] \/ (2 <= length (e_scalars shape idx))%nat -> eager_slice_path idx = true.
Proof.
  intros shape idx Hlen H. unfold eager_slice_path.
  rewrite <- (filter_combine_length is_sliced idx shape Hlen). rewrite <- (filter_combine_length is_escalar idx shape Hlen).
  fold (e_sliced shape idx). fold (e_scalars shape idx). destruct H as [H|H].
  - destruct (e_sliced shape idx); [contradiction|reflexivity].
  - apply orb_true_iff. right. apply Nat.ltb_lt. lia.
Qed.

Section Stage1.
  Variable shape : list Z.
  Variable idx : list comp.
  Variable v1 : view.
  Hypothesis Hd : dims_nat shape.
  Hypothesis Hlen : (length idx <= length shape)%nat.
  Hypothesis Hst : stage1 true shape idx = Some v1.

  Lemma stage1_epw : epw shape idx v1.
  Proof.
    destruct (stage1_cases _ _ _ _ Hst) as [[Hsl [Hsc ->]]|[[Hsl [p [s [Hsc [Hs ->]]]]]|[_ Hb]]].
    - apply epw_full; assumption.
    - eapply epw_lone; eassumption.
    - destruct (build_nth _ _ _ _ Hb) as [L P]. split; [assumption|]. intros m d Hm.
      destruct (P m d Hm) as [s [H1 H2]]. cbn [Nat.add] in H1. rewrite zrange_length in H1 by (eapply dims_nat_nth; eassumption).
      exists s. split; [assumption|]. intros c Hc. eapply eager_pt_c_kind; eassumption.
  Qed.

  Lemma stage1_rest_sound : forall m d s, nth_error shape m = Some d -> find_axis m (eG shape idx) = None ->
    nth_error v1 m = Some s -> np_pt idx m (zrange d) = Some s.
  Proof.
    intros m d s Hm Hf Hs. pose proof (dims_nat_nth _ _ _ Hd Hm) as Hdm.
    assert (Hnt : forall c, nth_error idx m = Some c -> is_t1 c = false) by (intros c Hc; eapply eG_none_not_t1; eassumption).
    destruct (stage1_cases _ _ _ _ Hst) as [[Hsl [Hsc ->]]|[[Hsl [p [s0 [Hsc [Hs0 ->]]]]]|[_ Hb]]].
    - rewrite (nth_error_full _ _ _ Hm) in Hs. injection Hs as <-. apply np_pt_trivial; [assumption|].
      intros c Hc. apply flags_trivial; [apply (not_sliced_at shape idx Hsl m d c Hm Hc)| |apply Hnt; assumption].
      pose proof (find_axis_combine is_escalar shape idx m) as F. fold (e_scalars shape idx) in F.
      rewrite Hsc, Hm, Hc in F. cbn in F. destruct (is_escalar c); [discriminate|reflexivity].
    - destruct (lone_scalar_at shape idx p Hsc) as [Hpm [Hpc Hpe]].
      assert (Hlt : (fst p < length (full shape))%nat) by (unfold full; rewrite map_length; apply nth_error_Some; congruence).
      destruct (Nat.eq_dec m (fst p)) as [->|Hne].
      + rewrite nth_error_put_eq in Hs by assumption. injection Hs as <-. rewrite Hm in Hpm. injection Hpm as ->.
        unfold np_pt. rewrite Hpc. rewrite zrange_length by assumption. assumption.
      + assert (nth_error (put (fst p) s0 (full shape)) m = nth_error (full shape) m) as E.
        { destruct (Nat.lt_ge_cases m (fst p)); [apply nth_error_put_lt; assumption|apply nth_error_put_gt; [lia|assumption]]. }
        rewrite E, (nth_error_full _ _ _ Hm) in Hs. injection Hs as <-. apply np_pt_trivial; [assumption|].
        intros c Hc. apply flags_trivial; [apply (not_sliced_at shape idx Hsl m d c Hm Hc)| |apply Hnt; assumption].
        destruct (is_escalar c) eqn:Ee; [|reflexivity]. exfalso. apply Hne. eapply (escalar_only_p shape idx p Hsc); eassumption.
    - destruct (build_nth _ _ _ _ Hb) as [_ P]. destruct (P m d Hm) as [s' [H1 H2]]. cbn [Nat.add] in H1.
      rewrite zrange_length in H1 by assumption. rewrite Hs in H2. injection H2 as <-.
      apply eager_pt_c_sound; assumption.
  Qed.

  Lemma stage1_rest_complete : eager_minus1_ok idx = true ->
    forall m d s, nth_error shape m = Some d -> find_axis m (eG shape idx) = None ->
    np_pt idx m (zrange d) = Some s -> nth_error v1 m = Some s.
  Proof.
    intros Hm1 m d s Hm Hf Hs. pose proof (dims_nat_nth _ _ _ Hd Hm) as Hdm.
    assert (Hnt : forall c, nth_error idx m = Some c -> is_t1 c = false) by (intros c Hc; eapply eG_none_not_t1; eassumption).
    destruct (stage1_cases _ _ _ _ Hst) as [[Hsl [Hsc ->]]|[[Hsl [p [s0 [Hsc [Hs0 ->]]]]]|[Hr Hb]]].
    - rewrite (nth_error_full _ _ _ Hm). rewrite <- Hs. symmetry. apply np_pt_trivial; [assumption|].
      intros c Hc. apply flags_trivial; [apply (not_sliced_at shape idx Hsl m d c Hm Hc)| |apply Hnt; assumption].
      pose proof (find_axis_combine is_escalar shape idx m) as F. fold (e_scalars shape idx) in F.
      rewrite Hsc, Hm, Hc in F. cbn in F. destruct (is_escalar c); [discriminate|reflexivity].
    - destruct (lone_scalar_at shape idx p Hsc) as [Hpm [Hpc Hpe]].
      assert (Hlt : (fst p < length (full shape))%nat) by (unfold full; rewrite map_length; apply nth_error_Some; congruence).
      destruct (Nat.eq_dec m (fst p)) as [->|Hne].
      + rewrite nth_error_put_eq by assumption. rewrite Hm in Hpm. injection Hpm as ->.
        unfold np_pt in Hs. rewrite Hpc in Hs. rewrite zrange_length in Hs by assumption. congruence.
      + assert (nth_error (put (fst p) s0 (full shape)) m = nth_error (full shape) m) as ->.
        { destruct (Nat.lt_ge_cases m (fst p)); [apply nth_error_put_lt; assumption|apply nth_error_put_gt; [lia|assumption]]. }
        rewrite (nth_error_full _ _ _ Hm). rewrite <- Hs. symmetry. apply np_pt_trivial; [assumption|].
        intros c Hc. apply flags_trivial; [apply (not_sliced_at shape idx Hsl m d c Hm Hc)| |apply Hnt; assumption].
        destruct (is_escalar c) eqn:Ee; [|reflexivity]. exfalso. apply Hne. eapply (escalar_only_p shape idx p Hsc); eassumption.
    - destruct (build_nth _ _ _ _ Hb) as [_ P]. destruct (P m d Hm) as [s' [H1 H2]]. cbn [Nat.add] in H1.
      rewrite zrange_length in H1 by assumption. rewrite H2. f_equal.
      rewrite (eager_pt_c_complete idx m d s) in H1; [congruence|assumption| |assumption].
      intros c Hc. split; [apply Hnt; assumption|].
      unfold eager_minus1_ok in Hm1. rewrite (slice_route_path shape idx Hlen Hr) in Hm1. cbn in Hm1.
      pose proof (forallb_nth _ idx m c Hm1 Hc) as Hx. cbn beta in Hx. destruct (is_eminus1 c); [discriminate|reflexivity].
  Qed.
End Stage1.

Lemma dims_nat_nonneg : forall shape, dims_nat shape -> dims_nonneg shape.
Proof. intros shape H m d Hm. eapply dims_nat_nth; eassumption. Qed.

(* soundness, every index tuple, no corner (the start clamp of 54bfea1 is in the model) *)
Theorem eager_view_sound_all : forall shape idx v,
  dims_nat shape -> (length idx <= length shape)%nat ->
  run_eager_c true shape idx = Some v -> np_index shape idx = Some v.
Proof.
  intros shape idx v Hd Hlen H. rewrite eager_run_cases in H by assumption.
  destruct (stage1 true shape idx) as [v1|] eqn:E; [|discriminate].
  pose proof (stage1_epw shape idx v1 Hd Hlen E) as Hp.
  eapply chain_sound; try exact H; try assumption.
  - apply dims_nat_nonneg. assumption.
  - apply Hp.
  - apply desc_eG.
  - unfold eadj. apply estage_ok; assumption.
  - apply stage1_rest_sound; assumption.
Qed.

Lemma stage1_total : forall shape idx v, dims_nat shape -> eager_minus1_ok idx = true ->
  np_index shape idx = Some v -> exists v1, stage1 true shape idx = Some v1.
Proof.
  intros shape idx v Hd Hm1 H. pose proof (np_index_length _ _ _ H) as Hlen.
  pose proof (dims_nat_nonneg _ Hd) as Hnn.
  rewrite np_index_build in H by assumption. destruct (build_nth _ _ _ _ H) as [Lv Pv].
  unfold stage1.
  assert (Hroute : e_sliced shape idx <> [] \/ (2 <= length (e_scalars shape idx))%nat ->
                   exists v1, build (fun m d => eager_pt_c true idx m (zlen (zrange d))) 0 shape = Some v1).
  { intros Hr. apply build_total. intros m d Hm. cbn [Nat.add]. rewrite zrange_length by (eapply Hnn; eassumption).
    destruct (nth_error idx m) as [c|] eqn:Hc.
    - destruct (is_t1 c) eqn:Ht.
      + unfold eager_pt_c. rewrite Hc. destruct c; try discriminate. eexists. reflexivity.
      + destruct (Pv m d Hm) as [s [H1 H2]]. cbn [Nat.add] in H1. exists s. apply eager_pt_c_complete; [eapply Hnn; eassumption| |assumption].
        intros c' Hc'. rewrite Hc in Hc'. injection Hc' as <-. split; [assumption|].
        unfold eager_minus1_ok in Hm1. rewrite (slice_route_path shape idx Hlen Hr) in Hm1. cbn in Hm1.
        pose proof (forallb_nth _ idx m c Hm1 Hc) as Hx. cbn beta in Hx. destruct (is_eminus1 c); [discriminate|reflexivity].
    - unfold eager_pt_c. rewrite Hc. eexists. reflexivity. }
  destruct (e_sliced shape idx) as [|q sl] eqn:Hsl; destruct (e_scalars shape idx) as [|p [|p' sc]] eqn:Hsc.
  - eexists. reflexivity.
  - destruct (lone_scalar_at shape idx p Hsc) as [Hpm [Hpc Hpe]].
    destruct (Pv _ _ Hpm) as [s [H1 H2]]. cbn [Nat.add] in H1. unfold np_pt in H1. rewrite Hpc in H1.
    rewrite zrange_length in H1 by (eapply Hnn; eassumption). rewrite H1. eexists. reflexivity.
  - apply Hroute. right. cbn. lia.
  - apply Hroute. left. discriminate.
  - apply Hroute. left. discriminate.
  - apply Hroute. left. discriminate.
Qed.

(* completeness, every index tuple: where NumPy's per-axis view exists eager returns it, unless the scalar -1 goes through
   Slice(-1, 0) + squeeze (an error, allowed) *)
Theorem eager_view_complete_all : forall shape idx v,
  dims_nat shape -> eager_minus1_ok idx = true ->
  np_index shape idx = Some v -> run_eager_c true shape idx = Some v.
Proof.
  intros shape idx v Hd Hm1 H. pose proof (np_index_length _ _ _ H) as Hlen.
  rewrite eager_run_cases by assumption.
  destruct (stage1_total shape idx v Hd Hm1 H) as [v1 E]. rewrite E.
  pose proof (stage1_epw shape idx v1 Hd Hlen E) as Hp.
  apply chain_complete with (shape := shape) (idx := idx); try assumption.
  - apply dims_nat_nonneg. assumption.
  - apply Hp.
  - apply desc_eG.
  - unfold eadj. apply estage_ok; assumption.
  - apply stage1_rest_complete; assumption.
Qed.
