(* C04: the places of onnxscript/optimizer/_constant_folding.py that read the constant value of an ir.Value, as enumerated from the
   current source by harness/c03_tables.py (coq/Gen/ConstReads.v: every `.const_value` attribute read and every call of
   _get_numpy_value / get_constant_value, fail-closed), and the data FoldConstantsPass._do_inference hands to node-level ONNX shape
   inference (`get_constant_value`).

   A read site is GUARDED when its class says how the default of an initializer that is also a graph input (an overridable
   default) is kept away from it:
     via-_get_numpy_value                      a call of _get_numpy_value, which returns None for a graph input BEFORE it reads const_value;
     behind-is_graph_input-return              the read inside _get_numpy_value itself, after `if val.is_graph_input(): return None`;
     dominated-by-_get_numpy_value-not-None    x.const_value inside `if v is not None:` right after `v = _get_numpy_value(x, ...)`;
     via-guarded-local-wrapper                 a call of the local get_constant_value whose own reads are all guarded;
     after-graph-input-early-return            process_node, over node.inputs, after `if any(x.is_graph_input() ...): return None`.
   Any other read must carry a written reason (harness/c03_tables.py CONST_READ_REASONS).  No proofs in this file. *)
From Coq Require Import List String ZArith Bool.
Require Import OV.Graph.Syntax OV.Opt.Fold OV.Gen.ConstReads.
Import ListNotations.
Local Open Scope string_scope.

Definition guard_classes : list string :=
  ["via-_get_numpy_value"; "via-guarded-local-wrapper"; "behind-is_graph_input-return";
   "dominated-by-_get_numpy_value-not-None"; "after-graph-input-early-return"].

Definition site := (string * string * string * string)%type.
Definition site_fn (s : site) : string := fst (fst (fst s)).
Definition site_kind (s : site) : string := snd (fst (fst s)).
Definition site_class (s : site) : string := snd (fst s).
Definition site_reason (s : site) : string := snd s.

Definition site_guarded (s : site) : bool := mem (site_class s) guard_classes.
Definition site_ok (s : site) : bool := site_guarded s || negb (String.eqb (site_reason s) "").
Definition all_const_reads_guarded_b : bool :=
  numpy_value_guard_precedes_read && forallb site_ok const_read_sites.
(* the sites in a given function *)
Definition sites_of (fn : string) : list site := filter (fun s => String.eqb (site_fn s) fn) const_read_sites.
Definition do_inference_fn : string := "FoldConstantsPass._do_inference.get_constant_value".

Section InferData.
  Variable V : Type.
  Variable v_dtype : V -> Z.
  Variable v_dims : V -> list Z.

  (* get_constant_value of _do_inference, as the source has it: _get_numpy_value(x, size_limit=20), then the tensor itself *)
  Definition infer_data (st : state V) (x : vname) : option V :=
    numpy_value V v_dtype v_dims st (Some x) None (Some (Z.of_nat do_inference_size_limit)).
  (* the variant that looks at x.const_value directly (size check on the tensor) *)
  Definition infer_data_unguarded (st : state V) (x : vname) : option V :=
    match get_const V st (Some x) with
    | Some v => if Z.ltb (Z.of_nat do_inference_size_limit) (v_size V v_dims v) then None else Some v
    | None => None
    end.
  (* what the current source does *)
  Definition infer_data_src (st : state V) (x : vname) : option V :=
    if do_inference_reads_through_numpy_value then infer_data st x else infer_data_unguarded st x.
End InferData.
