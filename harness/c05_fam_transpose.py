"""C05 family: TransposeIdentity, TransposeTranspose (_basic_rules.py).

Model: coq/Rules/Transpose.v; theorems: coq/Props/C05_transpose.v.
Correspondence: (a) the helper `_apply_transposes` called directly on enumerated permutation pairs, (b) the real rules applied
to hosts (ranks 0-4; all permutation pairs up to rank 3, sampled at rank 4): fired?, Identity vs Transpose, emitted perm ==
Transpose.tt_rewrite / ti_check evaluated in Coq.  Direct oracle on both engines incl. zero-size and size-1 dims.
"""
from __future__ import annotations

import itertools

import numpy as np

from harness import c05_basic_util as U
from harness import common
from harness.common import clist, cnat


def _nl(p):
    return clist([cnat(k) for k in p])


def _tnode(inp, out, perm):
    from onnx import AttributeProto, helper
    n = helper.make_node("Transpose", [inp], [out])
    if perm is not None:
        n.attribute.append(helper.make_attribute("perm", list(perm), attr_type=AttributeProto.INTS))
    return n


def _shape_for(rank, variant):
    base = [[2, 3, 4, 2], [1, 3, 1, 2], [2, 0, 3, 1], [3, 1, 2, 2]][variant % 4]
    return base[:rank]


def family(ctx):
    from onnx import helper
    from onnxscript.rewriter.rules.common import _basic_rules as br

    rng = ctx.rng
    pairs = []
    for n in range(0, 4):
        perms = list(itertools.permutations(range(n)))
        pairs += [(list(a), list(b)) for a in perms for b in perms]
    p4 = list(itertools.permutations(range(4)))
    if ctx.tier == "quick":
        pairs += [(list(rng.choice(p4)), list(rng.choice(p4))) for _ in range(40)]
        pairs += [(list(a), [int(v) for v in np.argsort(a)]) for a in rng.sample(p4, 6)]        # inverse pairs at rank 4
    else:
        pairs += [(list(a), list(b)) for a in p4 for b in p4]

    # (a) helper correspondence on every pair (cheap)
    inst = br.TransposeTranspose()
    helper_cases = []
    for p1, p2 in pairs:
        last = inst._apply_transposes([p1, p2])
        first = list(range(len(p1)))
        obs = None if first == last else last
        helper_cases.append(f"({_nl(p1)}, {_nl(p2)}, {common.copt(obs, _nl)})")
        ctx.case(("transpose-helper", len(p1), obs is None))

    # (b) the rules on hosts
    host_pairs = pairs if ctx.tier == "thorough" else [pq for i, pq in enumerate(pairs) if len(pq[0]) < 3 or i % 2 == 0]
    if ctx.tier == "thorough":
        host_pairs = [pq for i, pq in enumerate(pairs) if len(pq[0]) < 4 or i % 4 == 0]
    tt_cases, tt_meta = [], []
    for i, (p1, p2) in enumerate(host_pairs):
        n = len(p1)
        shp = _shape_for(n, i)
        decl = list(shp)
        sym = n > 0 and shp[0] != 0 and i % 3 == 0
        if sym:
            decl[0] = "N"
        extra_out = (i % 7 == 3)        # intermediate also a graph output: the rewriter must keep it (it does not fire then)
        extra_use = (i % 7 == 5)        # intermediate has a second consumer
        mid = [decl[k] for k in p1]
        out = [mid[k] for k in p2]
        nodes = [_tnode("x", "t", p1), _tnode("t", "y", p2)] + ([helper.make_node("Neg", ["t"], ["z"])] if extra_use else [])
        outs = [("y", "float32", out)] + ([("t", "float32", mid)] if extra_out else []) + ([("z", "float32", mid)] if extra_use else [])
        host = U.model(nodes, [("x", "float32", decl)], outs)
        new = U.apply_rule(host, [br.transpose_transpose_rule])
        ops = U.ops(new)
        replay = {"family": "transpose", "rule": "TransposeTranspose", "perm1": p1, "perm2": p2, "x_shape": decl, "intermediate_is_output": extra_out,
                  "intermediate_has_second_consumer": extra_use}
        ctx.case(("transpose-transpose", n, extra_out, extra_use, sym, 0 in shp, 1 in shp))
        ynode = [nd for nd in new.graph.node if "y" in nd.output]
        if (extra_out or extra_use) and ops[:2] == ["Transpose", "Transpose"]:
            continue        # the rewriter keeps intermediates that are used elsewhere: no rewrite, nothing to compare
        if len(ynode) != 1 or ynode[0].op_type not in ("Identity", "Transpose") or ynode[0].input[0] != "x":
            ctx.tie_broken("correspondence", "transpose:TransposeTranspose", f"did not fire on {replay}: ops {ops}")
            continue
        obs = None if ynode[0].op_type == "Identity" else list(U.attr(ynode[0], "perm"))
        tt_cases.append(f"({_nl(p1)}, {_nl(p2)}, {common.copt(obs, _nl)})")
        tt_meta.append((p1, p2, obs))
        feeds = []
        for k in range(3):
            conc = [d if isinstance(d, int) else (0 if k == 2 else 2 + k) for d in decl]
            feeds.append({"x": U.int_data(conc, "float32", k)})
        U.oracle(ctx, "C05:transpose:TransposeTranspose:differs", f"Transpose{p2}(Transpose{p1}(x{decl}))", host, new, feeds, replay)

    ti_cases, ti_meta = [], []
    perms_ti = [[], [0], [0, 1], [1, 0], [0, 1, 2], [0, 2, 1], [2, 1, 0], [1, 2, 0], [0, 1, 2, 3], [0, 1, 3, 2], [3, 2, 1, 0], None, None]
    for i, p in enumerate(perms_ti):
        n = len(p) if p is not None else (1 if i % 2 else 2)
        shp = _shape_for(n, i)
        decl = list(shp)
        if n > 0 and shp[0] != 0 and i % 2 == 0:
            decl[0] = "N"
        eff = p if p is not None else list(range(n))[::-1]
        out = [decl[k] for k in eff]
        host = U.model([_tnode("x", "y", p)], [("x", "int64", decl)], [("y", "int64", out)])
        new = U.apply_rule(host, [br.no_op_transpose_rule])
        fired = U.ops(new) == ["Identity"]
        ctx.case(("transpose-identity", n, p is None, fired))
        if p is not None:
            ti_cases.append(f"({_nl(p)}, {common.cbool(fired)})")
            ti_meta.append((p, fired))
        elif fired and eff != list(range(n)):
            pass  # judged by the oracle below
        if fired:
            feeds = []
            for k in range(3):
                conc = [d if isinstance(d, int) else (0 if k == 2 else 2 + k) for d in decl]
                feeds.append({"x": U.int_data(conc, "int64", k)})
            U.oracle(ctx, "C05:transpose:TransposeIdentity:differs", f"Transpose(perm={p}) on x{decl}", host, new, feeds,
                     {"family": "transpose", "rule": "TransposeIdentity", "perm": p, "x_shape": decl})

    body = (f"Definition hc : list tt_case := {clist(helper_cases)}.\nEval vm_compute in (disagreeing tt_agrees 0 hc).\n"
            f"Definition rc : list tt_case := {clist(tt_cases)}.\nEval vm_compute in (disagreeing tt_agrees 0 rc).\n"
            f"Definition ic : list ti_case := {clist(ti_cases)}.\nEval vm_compute in (disagreeing ti_agrees 0 ic).")
    ok, vals_, raw = ctx.coq_eval(["OV.Rules.Transpose"], body, name="transpose")
    if not ok or len(vals_) != 3:
        ctx.tie_broken("correspondence", "transpose:model-evaluation", raw[-800:])
        return
    bad_h, bad_r, bad_i = (common.parse_nat_list(v) for v in vals_)
    for i in bad_h[:3]:
        ctx.tie_broken("correspondence", "transpose:_apply_transposes", f"pair {pairs[i]}: helper result differs from Transpose.composed")
    for i in bad_r[:3]:
        ctx.tie_broken("correspondence", "transpose:TransposeTranspose", f"perms {tt_meta[i][:2]}: rule emitted {tt_meta[i][2]}, model differs")
    for i in bad_i[:3]:
        ctx.tie_broken("correspondence", "transpose:TransposeIdentity", f"perm {ti_meta[i][0]}: fired={ti_meta[i][1]}, model differs")
    ctx.obligation("correspondence transpose: _apply_transposes on every enumerated pair = Transpose.composed / tt_rewrite", not bad_h)
    ctx.obligation("correspondence transpose: Identity-vs-Transpose and emitted perm of the real TransposeTranspose rule = Transpose.tt_rewrite", not bad_r)
    ctx.obligation("correspondence transpose: TransposeIdentity fires only where Transpose.ti_check holds", not bad_i)
    U.guard(ctx, "transpose:TransposeTranspose", len(tt_cases), 20)
    U.guard(ctx, "transpose:TransposeIdentity", sum(1 for _, f in ti_meta if f), 4)
    ctx.cover(transpose_helper_pairs=len(helper_cases), transpose_hosts=len(tt_cases), transpose_identity_hosts=len(perms_ti),
              transpose_model_disagreements=len(bad_h) + len(bad_r) + len(bad_i))
    ctx.sample({"family": "transpose", "case": [str(x) for x in tt_meta[len(tt_meta) // 2]]})
    ctx.assume("Transpose rules: perm attributes that are not permutations of range(rank) are outside host_ok (ONNX shape inference rejects them); "
               "a Transpose without perm attribute is not matched by either rule (observed)")
