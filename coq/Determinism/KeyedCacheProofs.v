From Coq Require Import List String Bool Arith PeanoNat.
Require Import OV.Determinism.KeyedCache.
Import ListNotations.
Local Open Scope string_scope.
Local Open Scope list_scope.

Section MemoFacts.
  Variables X K V : Type.
  Variable K_eq_dec : forall a b : K, {a = b} + {a <> b}.
  Variable k : X -> K.
  Variable f : X -> V.

  (* every entry of the table is f of some request with that key *)
  Definition table_ok (m : list (K * V)) : Prop :=
    forall key v, find K_eq_dec key m = Some v -> exists x, k x = key /\ v = f x.

  Lemma request_keeps_ok : forall m x, table_ok m -> table_ok (snd (request K_eq_dec k f m x)).
  Proof.
    intros m x Hm. unfold request. destruct (find K_eq_dec (k x) m) eqn:E; cbn; auto.
    intros key v. cbn. destruct (K_eq_dec key (k x)) as [->|Hne].
    - intro H. inversion H; subst. now exists x.
    - apply Hm.
  Qed.

  Lemma serve_keeps_ok : forall h m, table_ok m -> table_ok (serve K_eq_dec k f m h).
  Proof. induction h as [|x r IH]; intros m Hm; cbn; auto. apply IH, request_keeps_ok, Hm. Qed.

  (* <= : a key through which the computation factors makes the table invisible *)
  Theorem keyed_memo_history_independent : factors_through_key k f ->
    forall (h : list X) (x : X), answer_after K_eq_dec k f h x = f x.
  Proof.
    intros Hf h x. unfold answer_after.
    assert (Hok : table_ok (serve K_eq_dec k f [] h)) by (apply serve_keeps_ok; intros key v H; discriminate).
    unfold request. destruct (find K_eq_dec (k x) (serve K_eq_dec k f [] h)) as [v|] eqn:E; cbn; auto.
    destruct (Hok _ _ E) as (y & Hk & ->). apply Hf. exact Hk.
  Qed.

  (* => : if every answer after every history is the fresh answer, the computation factors through the key *)
  Theorem keyed_memo_history_independent_only_if :
    (forall (h : list X) (x : X), answer_after K_eq_dec k f h x = f x) -> factors_through_key k f.
  Proof.
    intros H x y Hk. specialize (H [x] y). unfold answer_after, serve, request in H. cbn in H.
    destruct (K_eq_dec (k y) (k x)) as [_|Hne]; [cbn in H; exact H | congruence].
  Qed.
End MemoFacts.

(* parameters: a key that contains every parameter the cached computation depends on *)
Theorem key_params_cover_factor : forall (V : Type) (f : env -> V) (P Q : list string),
  incl Q P -> depends_only_on f Q -> factors_through_key (project P) f.
Proof.
  intros V f P Q Hincl Hdep x y Hk. apply Hdep. intros p Hp.
  unfold project in Hk. rewrite map_ext_in_iff in Hk. apply Hk, Hincl, Hp.
Qed.

Lemma memo_ok_incl : forall m, memo_ok m = true -> incl (m_fun_params m) (m_key_params m).
Proof.
  intros m H p Hp. unfold memo_ok in H. rewrite forallb_forall in H. specialize (H p Hp).
  unfold smem in H. rewrite existsb_exists in H. destruct H as (q & Hq & E). apply String.eqb_eq in E. now subst.
Qed.

Theorem memo_site_history_independent : forall m, memo_ok m = true ->
  forall (V : Type) (f : env -> V), depends_only_on f (m_fun_params m) ->
  forall (h : list env) (x : env),
    answer_after (list_eq_dec Nat.eq_dec) (project (m_key_params m)) f h x = f x.
Proof.
  intros m Hok V f Hdep h x. apply keyed_memo_history_independent.
  eapply key_params_cover_factor; [apply memo_ok_incl; exact Hok | exact Hdep].
Qed.

(* refutation: the reference-evaluator table keyed without the opset version *)
Definition prod_eq_dec : forall a b : string * nat, {a = b} + {a <> b}.
Proof. decide equality; [apply Nat.eq_dec | apply string_dec]. Defined.

Theorem key_without_version_refuted : exists (h : list (string * nat)) (x : string * nat),
  answer_after string_dec key_without_version impl_of h x <> impl_of x.
Proof. exists [("Unsqueeze", 11)], ("Unsqueeze", 18). vm_compute. intro H. inversion H. Qed.

Theorem key_with_version_ok : forall (h : list (string * nat)) (x : string * nat),
  answer_after prod_eq_dec key_with_version impl_of h x = impl_of x.
Proof. apply keyed_memo_history_independent. intros x y H. unfold key_with_version in H. now subst. Qed.
