(* C07 property theorems, second file: the non-node parts of a model under one rewrite application -- opset imports of
   every graph object, initializers, the table of model-local functions, node and value metadata_props -- as
   onnxscript/rewriter/_rewrite_rule.py (try_rewrite, _apply_to_graph_or_function, _get_new_overload, _copy_for_function),
   onnxscript/utils/metadata_merger.py and onnx_ir.convenience.replace_nodes_and_values treat them.
   Model: OV.Rewrite.State (visit / splice / step, flags as_is = the code as it is, repaired = with the proposed patches),
   OV.Rewrite.Naming (names of value objects).  Tie: harness/c07.py replays every visit and every splice of the real
   rewriter through run_events and compares the predicted state with the observed one (check_state).
   Statements only, each closed by `exact`; Print Assumptions beneath.

   Not covered: keeping rules (remove_nodes=False) in the metadata frame statement (the model computes them, the tie
   compares them); patterns with several output nodes; NameFixPass; that the body of an extracted function computes what
   the matched nodes compute (C07_apply_one_sound treats the call as an opaque kernel); commutation of imports is proved
   as idempotence + monotonicity, the order dependence through the ValueError is shown by example. *)
From Coq Require Import List String ZArith Bool.
Require Import OV.Graph.Syntax OV.Graph.Wf OV.Rewrite.Apply OV.Rewrite.State OV.Rewrite.StateProofs.
Require Import OV.Rewrite.Naming OV.Rewrite.NamingProofs OV.Rewrite.FnConstProofs.
Import ListNotations.

(* ---- frame ------------------------------------------------------------------------------------------------------------ *)
(* a visit (rule matched, replacement built) touches the opset imports only *)
Theorem C07_visit_frame : forall fx d s s', visit fx d s = Some s' ->
  s_inits s' = s_inits s /\ s_funcs s' = s_funcs s /\ s_nmeta s' = s_nmeta s /\ s_vmeta s' = s_vmeta s /\
  add_imports fx (d_site d) (d_owner d) (d_opsets d) (s_imports s) = Some (s_imports s').
Proof. exact visit_frame. Qed.
Print Assumptions C07_visit_frame.

(* the application of a removing rule: imports untouched; initializers under other names (and of other graph objects)
   untouched; functions untouched except ONE new key that was free; metadata of every node and value that is neither
   matched nor created untouched *)
Theorem C07_splice_frame : forall used d s s' ov, splice as_is used d s = Some (s', ov) ->
  s_imports s' = s_imports s /\
  (forall k, ~ In k (map (fun nt => (d_site d, fst nt)) (d_inits d)) ->
     dget gkey_eqb k (s_inits s') = dget gkey_eqb k (s_inits s)) /\
  (d_fn d = None -> s_funcs s' = s_funcs s) /\
  (forall q, d_fn d = Some q -> exists o, ov = Some o /\ dget fkey_eqb (fq_dom q, fq_name q, o) (s_funcs s) = None /\
       forall k, k <> (fq_dom q, fq_name q, o) -> dget fkey_eqb k (s_funcs s') = dget fkey_eqb k (s_funcs s)) /\
  (d_remove d = true -> forall k, ~ In k (d_matched d) -> ~ In k (map fst (d_new d)) ->
       mget k (s_nmeta s') = mget k (s_nmeta s)) /\
  (d_remove d = true -> forall k, ~ In k (d_matched_vals d) -> ~ In k (d_new_vals d) ->
       mget k (s_vmeta s') = mget k (s_vmeta s)).
Proof. exact splice_frame. Qed.
Print Assumptions C07_splice_frame.

(* ---- the additions are the ones the replacement needs, and nothing else ------------------------------------------------ *)
(* imports: existing entries never change; a changed key is (site | model graph | owner when repaired, a used domain);
   afterwards the site and the model graph import every used domain *)
Theorem C07_imports_added : forall fx site owner ops i i', add_imports fx site owner ops i = Some i' ->
  (forall k v, dget gkey_eqb k i = Some v -> dget gkey_eqb k i' = Some v) /\
  (forall k, dget gkey_eqb k i' <> dget gkey_eqb k i ->
     (fst k = site \/ fst k = 0 \/ (fx_owner fx = true /\ fst k = owner)) /\ In (snd k) (map fst ops)) /\
  imports_cover site ops i' = true /\ imports_cover 0 ops i' = true /\
  (fx_owner fx = true -> imports_cover owner ops i' = true).
Proof. exact add_imports_spec. Qed.
Print Assumptions C07_imports_added.

(* validity of the serialized container's imports when the site is the container or the container is the model graph *)
Theorem C07_imports_valid : forall fx site owner ops i i', add_imports fx site owner ops i = Some i' ->
  owner = site \/ owner = 0 \/ fx_owner fx = true -> imports_cover owner ops i' = true.
Proof. exact add_imports_valid. Qed.
Print Assumptions C07_imports_valid.

(* finding C07:new-domain:match-inside-function-subgraph: site = an If/Loop body (2) of a model-local function (1) *)
Theorem C07_function_subgraph_imports_refuted :
  exists i', add_imports as_is 2 1 [("com.microsoft"%string, Some 1%Z)] ex_fn_sub_imports = Some i' /\
             imports_cover 1 [("com.microsoft"%string, Some 1%Z)] i' = false.
Proof. exact fn_subgraph_imports_refuted. Qed.
Print Assumptions C07_function_subgraph_imports_refuted.

Theorem C07_function_subgraph_imports_fixed : forall site owner ops i i',
  add_imports repaired site owner ops i = Some i' -> imports_cover owner ops i' = true.
Proof. exact fn_subgraph_imports_fixed. Qed.
Print Assumptions C07_function_subgraph_imports_fixed.

(* initializers: other registrations untouched; every new initializer registered under its name *)
Theorem C07_initializers_added : forall site used other new i,
  (forall k, ~ In k (map (fun nt => (site, fst nt)) new) ->
     dget gkey_eqb k (add_inits as_is site used other new i) = dget gkey_eqb k i) /\
  (NoDup (map fst new) -> forall n t, In (n, t) new ->
     dget gkey_eqb (site, n) (add_inits as_is site used other new i) = Some t).
Proof. exact add_inits_as_is_spec. Qed.
Print Assumptions C07_initializers_added.

(* findings C07:initializer-name-clash:*: a registration whose value is still used is lost *)
Theorem C07_initializer_clash_refuted :
  exists site used other new i, ~ inits_preserved used i (add_inits as_is site used other new i).
Proof. exact initializer_clash_refuted. Qed.
Print Assumptions C07_initializer_clash_refuted.

Theorem C07_initializer_clash_twice_refuted :
  exists site used other new1 new2 i,
    let i1 := add_inits as_is site used other new1 i in
    inits_preserved used i i1 /\ ~ inits_preserved used i1 (add_inits as_is site used other new2 i1).
Proof. exact initializer_clash_twice_refuted. Qed.
Print Assumptions C07_initializer_clash_twice_refuted.

(* with proposed_fixes/ready/C07_01_initializer_name_clash.diff every used initializer stays registered, for all inputs *)
Theorem C07_initializer_clash_fixed : forall site used other new i,
  inits_preserved used i (add_inits repaired site used other new i).
Proof. exact initializer_clash_fixed. Qed.
Print Assumptions C07_initializer_clash_fixed.

(* functions: _get_new_overload always returns, the key it returns is free; the new entry holds the requested body and
   imports only domains of the matched nodes -- all of them if the parent imports them *)
Theorem C07_function_added : forall site isfn i q fs ov fs', add_function site isfn i q fs = Some (ov, fs') ->
  dget fkey_eqb (fq_dom q, fq_name q, ov) fs = None /\
  (exists fd, dget fkey_eqb (fq_dom q, fq_name q, ov) fs' = Some fd /\ fd_body fd = fq_body q /\
              forall d, In d (map fst (fd_imports fd)) -> In d (fq_used q)) /\
  forall k, k <> (fq_dom q, fq_name q, ov) -> dget fkey_eqb k fs' = dget fkey_eqb k fs.
Proof. exact add_function_frame. Qed.
Print Assumptions C07_function_added.

Theorem C07_function_added_total : forall site isfn i q fs, exists r, add_function site isfn i q fs = Some r.
Proof. exact add_function_total. Qed.
Print Assumptions C07_function_added_total.

Theorem C07_function_imports_cover : forall site isfn i q fs ov fs' fd d,
  add_function site isfn i q fs = Some (ov, fs') ->
  dget fkey_eqb (fq_dom q, fq_name q, ov) fs' = Some fd ->
  In d (fq_used q) -> In d (map fst (parent_imports site isfn i)) -> In d (map fst (fd_imports fd)).
Proof. exact add_function_imports_cover. Qed.
Print Assumptions C07_function_imports_cover.

(* ---- repeated and overlapping matches in one pass ---------------------------------------------------------------------- *)
(* the same replacement visited again (a rule firing repeatedly) leaves the imports as they are *)
Theorem C07_imports_idempotent : forall site owner ops i i',
  add_imports as_is site owner ops i = Some i' -> add_imports as_is site owner ops i' = Some i'.
Proof. exact add_imports_idempotent. Qed.
Print Assumptions C07_imports_idempotent.

(* two extractions in a row never share a function identifier, and both functions are in the table *)
Theorem C07_two_extractions_distinct : forall site1 fn1 i1 q1 site2 fn2 i2 q2 fs o1 fs1 o2 fs2,
  add_function site1 fn1 i1 q1 fs = Some (o1, fs1) -> add_function site2 fn2 i2 q2 fs1 = Some (o2, fs2) ->
  (fq_dom q1, fq_name q1, o1) <> (fq_dom q2, fq_name q2, o2) /\
  dget fkey_eqb (fq_dom q1, fq_name q1, o1) fs2 <> None /\ dget fkey_eqb (fq_dom q2, fq_name q2, o2) fs2 <> None.
Proof. exact two_extractions_distinct. Qed.
Print Assumptions C07_two_extractions_distinct.

(* registrations under different names commute *)
Theorem C07_initializers_commute : forall site1 site2 n1 n2 t1 t2 (i : list (gkey * vname)) k, (site1, n1) <> (site2, n2) ->
  dget gkey_eqb k (dset gkey_eqb (site1, n1) t1 (dset gkey_eqb (site2, n2) t2 i)) =
  dget gkey_eqb k (dset gkey_eqb (site2, n2) t2 (dset gkey_eqb (site1, n1) t1 i)).
Proof. exact inits_commute. Qed.
Print Assumptions C07_initializers_commute.

(* ---- metadata merge (onnxscript/utils/metadata_merger.py with the rewriter's default merger) ------------------------------ *)
Theorem C07_merge_keeps_own_value : forall mg updates upd k v, mg k = None -> dget String.eqb k upd = Some v ->
  is_empty v = false -> dget String.eqb k (update_dict mg upd updates) = Some v.
Proof. exact update_dict_keeps_own. Qed.
Print Assumptions C07_merge_keeps_own_value.

Theorem C07_merge_invents_no_key : forall mg updates upd k, dget String.eqb k (update_dict mg upd updates) <> None ->
  dget String.eqb k upd <> None \/ In k (map fst updates).
Proof. exact update_dict_keys. Qed.
Print Assumptions C07_merge_invents_no_key.

Theorem C07_merge_ignores_empty_values : forall mg updates upd,
  forallb (fun kv => is_empty (snd kv)) updates = true -> update_dict mg upd updates = upd.
Proof. exact update_dict_empty_values. Qed.
Print Assumptions C07_merge_ignores_empty_values.

Theorem C07_merge_one_meta_per_new_node : forall mg from to_, List.length (copy_merged mg from to_) = List.length to_.
Proof. exact copy_merged_length. Qed.
Print Assumptions C07_merge_one_meta_per_new_node.

(* ---- names of value objects -------------------------------------------------------------------------------------------- *)
(* finding C07:replacement-returns-pattern-input:graph-input-renamed (no patch proposed) *)
Theorem C07_returned_input_renames_graph_input_refuted :
  exists inputs olds news vs, names_of_objects inputs (take_names olds news vs) <> names_of_objects inputs vs.
Proof. exact returned_input_renames_graph_input_refuted. Qed.
Print Assumptions C07_returned_input_renames_graph_input_refuted.

Theorem C07_created_outputs_keep_input_names : forall inputs olds news vs,
  (forall n, In n news -> ~ In n inputs) ->
  names_of_objects inputs (take_names olds news vs) = names_of_objects inputs vs.
Proof. exact created_outputs_keep_input_names. Qed.
Print Assumptions C07_created_outputs_keep_input_names.

(* finding C07:fresh-name-clash:subgraph-value-shadows-enclosing-graph-value *)
Theorem C07_local_authorities_share_names : forall c k1 k2, 0 < k1 -> 0 < k2 ->
  exists nm, In nm (local_names c k1) /\ In nm (local_names c k2).
Proof. exact local_authorities_share_names. Qed.
Print Assumptions C07_local_authorities_share_names.

Theorem C07_fresh_name_shadows_outer_refuted : wf_graphb ex_shadow_after = false.
Proof. exact fresh_name_shadows_outer_refuted. Qed.
Print Assumptions C07_fresh_name_shadows_outer_refuted.

(* with proposed_fixes/ready/C07_02_fresh_names_unique_in_model.diff: as many names as asked, new and pairwise distinct *)
Theorem C07_fresh_names_fixed : forall k used,
  List.length (fresh_seq used k) = k /\ NoDup (fresh_seq used k) /\ forall nm, In nm (fresh_seq used k) -> ~ In nm used.
Proof. exact fresh_names_fixed. Qed.
Print Assumptions C07_fresh_names_fixed.

(* the counter restarts for every model (fix bb7dec3): the names created for a model are a function of the model and the rule
   set alone, not of what the RewriteRuleSet object rewrote before ... *)
Theorem C07_names_function_of_model_fixed : forall c1 c2 used k,
  names_created true c1 used k = names_created true c2 used k.
Proof. exact names_function_of_model_fixed. Qed.
Print Assumptions C07_names_function_of_model_fixed.

(* ... which was false of the counter carried over from earlier models *)
Theorem C07_names_function_of_model_refuted :
  exists c1 c2 used k, names_created false c1 used k <> names_created false c2 used k.
Proof. exact names_function_of_model_refuted. Qed.
Print Assumptions C07_names_function_of_model_refuted.

(* hypotheses satisfiable: one application inside an If branch doing everything at once (new domain, new initializer,
   function extraction with a second overload, rule-name tag merged with an earlier one, metadata of the neighbours kept) *)
Theorem C07_step_example :
  exists s', step as_is (fun _ => true) ex_delta ex_state = Some s' /\
    dget gkey_eqb (2, "verif.fn"%string) (s_imports s') = Some 1%Z /\
    dget gkey_eqb (0, "verif.fn"%string) (s_imports s') = Some 1%Z /\
    dget gkey_eqb (2, "c0"%string) (s_inits s') = Some "%init1"%string /\
    dget gkey_eqb (0, "w"%string) (s_inits s') = Some "w"%string /\
    option_map fd_imports (dget fkey_eqb ("verif.fn", "F", "2")%string (s_funcs s')) = Some [(""%string, 18%Z)] /\
    mget "o"%string (s_nmeta s') = [(RULE_NAME_TAG, "R0, Old_a"%string); ("namespace"%string, "n/a"%string)] /\
    mget "a"%string (s_nmeta s') = [] /\ mget "z"%string (s_nmeta s') = [("namespace"%string, "n/z"%string)] /\
    mget "a"%string (s_vmeta s') = [] /\ mget "z"%string (s_vmeta s') = [("vm"%string, "of z"%string)].
Proof. exact step_example. Qed.
Print Assumptions C07_step_example.

Theorem C07_merge_example :
  copy_merged default_merger
    [[(RULE_NAME_TAG, "Old_a"); ("namespace", "n/a")]; [("namespace", ""); ("k", "v")]; [(RULE_NAME_TAG, "Prev"); ("namespace", "n/c")]]%string
    [[(RULE_NAME_TAG, "R0"%string)]]
  = [[(RULE_NAME_TAG, "R0, Old_a, Prev"); ("namespace", "n/a"); ("k", "v")]]%string /\
  copy_merged default_merger
    [[(RULE_NAME_TAG, "Old_a"); ("namespace", "n/a")]; [("namespace", "n/b")]]%string
    [[(RULE_NAME_TAG, "R0")]; [(RULE_NAME_TAG, "R0"); ("namespace", "own")]]%string
  = [[(RULE_NAME_TAG, "R0, Old_a"); ("namespace", "n/a")]; [(RULE_NAME_TAG, "R0, Old_a"); ("namespace", "own")]]%string.
Proof. exact merge_example. Qed.
Print Assumptions C07_merge_example.

(* finding C07:as_function:copied-constant:function-lacks-default-domain-import: the extracted function holds a Constant
   node (copied constant input) but its imports were filtered by the domains of the matched nodes (custom only) *)
Theorem C07_function_constant_import_refuted :
  exists ov fs fd, add_function 0 false ex_fn_const_imports ex_fn_const_req [] = Some (ov, fs) /\
                   dget fkey_eqb ("verif.fn", "Fused", ov)%string fs = Some fd /\ fn_imports_ok fd = false.
Proof. exact fn_constant_import_refuted. Qed.
Print Assumptions C07_function_constant_import_refuted.

(* with proposed_fixes/ready/C07_04_as_function_constant_default_domain_import.diff (filter by the domains of the body) *)
Theorem C07_function_constant_import_fixed : forall site isfn i q fs ov fs' fd,
  add_function site isfn i q fs = Some (ov, fs') ->
  dget fkey_eqb (fq_dom q, fq_name q, ov) fs' = Some fd ->
  fq_used q = map n_dom (fq_body q) ->
  (forall d, In d (fq_used q) -> In d (map fst (parent_imports site isfn i))) ->
  fn_imports_ok fd = true.
Proof. exact fn_constant_import_fixed. Qed.
Print Assumptions C07_function_constant_import_fixed.

(* ---- a replacement that returns an existing value, object level, both variants of the code ------------------------------ *)
(* as read (splice_names false): Identity(x) -> x with x a graph input renames the input *)
Theorem C07_returned_value_as_read_refuted :
  exists created pinned olds news vs outs fresh r,
    splice_names false created pinned true olds news vs outs fresh = Some r /\
    names_of_objects [0] (fst (fst (fst r))) <> names_of_objects [0] vs.
Proof. exact returned_value_as_read_refuted. Qed.
Print Assumptions C07_returned_value_as_read_refuted.

(* repaired (splice_names true; proposed_fixes/ready/C07_05_returned_existing_value_keeps_its_name.diff): no graph input is renamed, whatever the replacement returns *)
Theorem C07_returned_value_fixed : forall created pinned is_fwd olds news vs outs fresh r inputs,
  splice_names true created pinned is_fwd olds news vs outs fresh = Some r ->
  (forall x, In x inputs -> In x pinned /\ ~ In x created /\ x < fresh) ->
  names_of_objects inputs (fst (fst (fst r))) = names_of_objects inputs vs.
Proof. exact returned_value_fixed. Qed.
Print Assumptions C07_returned_value_fixed.

(* (the names of the graph outputs, several pattern outputs at once: C07_returned_value_fixed_output_names in Props/C07_fn.v) *)
