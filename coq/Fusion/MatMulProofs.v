(* C19 proofs: FusedMatMul rules. *)
From Coq Require Import List Field Ring Bool Arith Lia.
Require Import OV.Fusion.Field OV.Fusion.MatMul.
Import ListNotations.

Section Laws.
  Variable F : Type.
  Variable o : fops F.
  Hypothesis Fth : is_field o.
  Add Field FF : (Fth : field_theory (f0 o) (f1 o) (fadd o) (fmul o) (fsub o) (fopp o) (fdiv o) (finv o) (@eq F)).
  Notation "x + y" := (fadd o x y).
  Notation "x * y" := (fmul o x y).
  Notation "x / y" := (fdiv o x y).
  Notation mat := (mat F).

  Lemma div_def : forall p q, p / q = p * finv o q.
  Proof. exact (Fdiv_def Fth). Qed.

  Lemma sumn_ext : forall n f g, (forall k, k < n -> f k = g k) -> sumn F o n f = sumn F o n g.
  Proof. induction n; intros f g H; simpl; auto. rewrite (IHn f g), (H n); auto. Qed.

  Lemma meq_refl : forall A : mat, meq F A A.
  Proof. intros; repeat split; auto. Qed.
  Lemma omeq_refl : forall a, omeq F a a.
  Proof. intros [A|]; simpl; auto using meq_refl. Qed.

  Lemma tr_tr : forall A : mat, tr F (tr F A) = A.
  Proof. intros [r c f]; reflexivity. Qed.
  Lemma op_negb_tr : forall t (A : mat), op F (negb t) A = op F t (tr F A).
  Proof. intros [|] A; simpl; [symmetry; apply tr_tr | reflexivity]. Qed.

  (* (x y) / c = (1/c) (x y): an identity of the field, no condition on c (Python: 1 / c raises for c = 0) *)
  Theorem fused_matmul_div : forall (x y : mat) c, omeq F (div1_pattern F o x y c) (div1_rewrite F o x y c).
  Proof.
    intros x y c. unfold div1_pattern, div1_rewrite, fused; simpl.
    destruct (mm F o x y) as [M|]; simpl; auto.
    repeat split; auto. intros i j _ _. simpl. rewrite !div_def. ring.
  Qed.

  Theorem fused_matmul_div2 : forall alpha tA tB (x y : mat) c,
    omeq F (div2_pattern F o alpha tA tB x y c) (div2_rewrite F o alpha tA tB x y c).
  Proof.
    intros. unfold div2_pattern, div2_rewrite, fused.
    destruct (mm F o (op F tA x) (op F tB y)) as [M|]; simpl; auto.
    repeat split; auto. intros i j _ _. simpl. rewrite !div_def. ring.
  Qed.

  (* Transpose on an operand: transA/transB := 1 - transA/transB, also for an already fused node *)
  Theorem fused_matmul_transpose : forall alpha tA tB (x y : mat),
    omeq F (tmm1_pattern F o alpha tA tB x y) (tmm1_rewrite F o alpha tA tB x y)
    /\ omeq F (tmm2_pattern F o alpha tA tB x y) (tmm2_rewrite F o alpha tA tB x y).
  Proof.
    intros. unfold tmm1_pattern, tmm1_rewrite, tmm2_pattern, tmm2_rewrite, fused.
    rewrite !op_negb_tr. split; apply omeq_refl.
  Qed.

  (* (A B)^T = B^T A^T *)
  Lemma mm_tr : forall A B : mat, omeq F (option_map (tr F) (mm F o A B)) (mm F o (tr F B) (tr F A)).
  Proof.
    intros [ra ca fa] [rb cb fb]. unfold mm; simpl.
    rewrite (Nat.eqb_sym rb ca).
    destruct (Nat.eqb ca rb) eqn:E; simpl; auto.
    apply Nat.eqb_eq in E; subst rb.
    repeat split; auto. intros i j _ _. apply sumn_ext. intros; ring.
  Qed.

  Lemma op_tr_comm : forall t (A : mat), op F t (tr F A) = tr F (op F t A).
  Proof. intros [|] A; reflexivity. Qed.

  Lemma scale_cong : forall alpha a b, omeq F a b -> omeq F (option_map (scale F o alpha) a) (option_map (scale F o alpha) b).
  Proof.
    intros alpha [A|] [B|]; simpl; auto. intros (Hr & Hc & He). repeat split; auto.
    intros i j Hi Hj. simpl in *. rewrite He; auto.
  Qed.

  Lemma tr_scale : forall alpha (a : option mat),
    option_map (tr F) (option_map (scale F o alpha) a) = option_map (scale F o alpha) (option_map (tr F) a).
  Proof. intros alpha [A|]; reflexivity. Qed.

  (* Transpose of the output: the operands swap AND the flags swap sides *)
  Theorem matmul_transpose_sound : forall alpha tA tB (x y : mat),
    omeq F (mmt_pattern F o alpha tA tB x y) (mmt_rewrite_code F o alpha tA tB x y).
  Proof.
    intros. unfold mmt_pattern, mmt_rewrite_code, fused.
    rewrite !op_negb_tr, !op_tr_comm, tr_scale. apply scale_cong, mm_tr.
  Qed.

  (* the rewrite as it was before the fix was right exactly when the two flags are equal
     (in particular for a plain MatMul, where both are 0) *)
  Theorem matmul_transpose_old_sound_equal_flags : forall alpha t (x y : mat),
    omeq F (mmt_pattern F o alpha t t x y) (mmt_rewrite_old F o alpha t t x y).
  Proof. intros. apply matmul_transpose_sound. Qed.
End Laws.

(* ... and wrong otherwise: over the integers (only ring operations are involved), transA = 1, transB = 0,
   x : 1x2, y : 1x1 -- the pattern yields a 1x2 matrix, the rewritten node multiplies 1x1 by 2x1: an error. *)
From Coq Require Import ZArith.
Definition z_ops : fops Z := mk_fops Z 0%Z 1%Z Z.add Z.mul Z.sub Z.opp Z.div (fun x => x).
Theorem matmul_transpose_old_refuted : exists (alpha : Z) (tA tB : bool) (x y : mat Z),
  ~ omeq Z (mmt_pattern Z z_ops alpha tA tB x y) (mmt_rewrite_old Z z_ops alpha tA tB x y).
Proof.
  exists 1%Z, true, false, (mk_mat Z 1 2 (fun _ j => Z.of_nat (S j))), (mk_mat Z 1 1 (fun _ _ => 3%Z)).
  vm_compute. auto.
Qed.
(* a witness with square operands, where the rewritten node runs but returns other numbers *)
Theorem matmul_transpose_old_refuted_square : exists (x y : mat Z),
  match mmt_pattern Z z_ops 1%Z true false x y, mmt_rewrite_old Z z_ops 1%Z true false x y with
  | Some P, Some R => at_ Z P 0 1 <> at_ Z R 0 1
  | _, _ => False
  end.
Proof.
  exists (mk_mat Z 2 2 (fun i j => Z.of_nat (2 * i + j))), (mk_mat Z 2 2 (fun i j => Z.of_nat (3 * i + j + 1))).
  vm_compute. discriminate.
Qed.

(* ------------------------------------------------------------------------------------------------------------
   N-d operands: Transpose followed by FusedMatMul's own (transBatch, trans) transposition. *)

(* Transpose(Transpose(T, p), q) = Transpose(T, p o q), (p o q) k = p (q k): for tensors of every rank *)
Theorem transpose_compose : forall V (p q : nat -> nat) (T T' T'' : (nat -> nat) -> V),
  is_transpose p T T' -> is_transpose q T' T'' -> is_transpose (fun k => p (q k)) T T''.
Proof. intros V p q T T' T'' H1 H2 i. rewrite (H2 (fun k => i (p k))). apply H1. Qed.

Lemma nth_app_if : forall (l1 l2 : list nat) i d,
  nth i (l1 ++ l2) d = if i <? length l1 then nth i l1 d else nth (i - length l1) l2 d.
Proof.
  intros. destruct (i <? length l1) eqn:E.
  - apply Nat.ltb_lt in E. apply app_nth1; auto.
  - apply Nat.ltb_ge in E. apply app_nth2; auto.
Qed.
Lemma nth_seq_if : forall a n i d, nth i (seq a n) d = if i <? n then a + i else d.
Proof.
  intros. destruct (i <? n) eqn:E.
  - apply Nat.ltb_lt in E. apply seq_nth; auto.
  - apply Nat.ltb_ge in E. apply nth_overflow. rewrite seq_length; auto.
Qed.
Lemma nth_cons_if : forall (x : nat) l i d, nth i (x :: l) d = if i =? 0 then x else nth (i - 1) l d.
Proof. intros x l [|i] d; simpl; auto. rewrite Nat.sub_0_r; auto. Qed.
Lemma nth_nil_d : forall i (d : nat), nth i [] d = d.
Proof. intros [|i] d; reflexivity. Qed.

Lemma list_eqb_eq : forall a b, list_eqb a b = true -> a = b.
Proof.
  induction a as [|x a IH]; intros [|y b]; simpl; try discriminate; auto.
  intro H. apply andb_prop in H. destruct H as [H1 H2]. apply Nat.eqb_eq in H1. f_equal; auto.
Qed.

Lemma nth_compose : forall p q i, i < length q -> nth i (compose p q) 0 = nth (nth i q 0) p 0.
Proof.
  intros p q i H. unfold compose.
  rewrite (nth_indep _ 0 ((fun j => nth j p 0) 0)) by (rewrite map_length; auto).
  apply (map_nth (fun j => nth j p 0)).
Qed.

Ltac nth_norm :=
  repeat (rewrite ?nth_app_if, ?nth_seq_if, ?nth_cons_if, ?nth_nil_d, ?seq_length, ?app_length; cbn [length]).
Ltac split_ifs :=
  repeat match goal with
         | |- context [if ?c then _ else _] =>
             lazymatch c with
             | context [if _ then _ else _] => fail
             | _ => let E := fresh "E" in destruct c eqn:E;
                    [ try apply Nat.ltb_lt in E; try apply Nat.eqb_eq in E
                    | try apply Nat.ltb_ge in E; try apply Nat.eqb_neq in E ]
             end
         end.

Lemma eff_perm_length : forall tb t N, 2 <= N -> length (eff_perm tb t N) = N.
Proof.
  intros [|] [|] N H; unfold eff_perm, swap_last2; rewrite ?app_length, ?seq_length; cbn [length]; lia.
Qed.

(* The heart of _TransposeFusedMatMulBaseWithBatch: whenever `check` accepts the Transpose's perm, composing it with
   the transposition the old attributes denote IS the transposition the new attributes denote -- for every rank
   N >= 2, every rule of the three, every value of the old attributes. *)
Theorem fused_matmul_batch_transpose : forall r tb t perm,
  2 <= length perm -> batch_check r tb perm = true ->
  let '(tb', t') := batch_rewrite r tb t in
  compose perm (eff_perm tb t (length perm)) = eff_perm tb' t' (length perm).
Proof.
  intros r tb t perm HN Hc. unfold batch_check in Hc. apply andb_prop in Hc. destruct Hc as [_ Hc].
  unfold batch_check_old in Hc.
  destruct perm as [|p0 perm0] eqn:Ep; [discriminate|]. rewrite <- Ep in *. clear Ep p0 perm0.
  set (N := length perm) in *.
  destruct (expected_perm r tb N) as [e|] eqn:Ee; [|discriminate].
  apply list_eqb_eq in Hc. subst perm.
  destruct (batch_rewrite r tb t) as [tb' t'] eqn:Er.
  apply (nth_ext _ _ 0 0).
  - unfold compose. rewrite map_length, !eff_perm_length; auto.
  - intros i Hi. unfold compose in Hi. rewrite map_length, eff_perm_length in Hi by auto.
    rewrite nth_compose by (rewrite eff_perm_length; auto).
    destruct N as [|[|m]]; [lia|lia|].
    destruct r, tb, t; simpl in Ee, Er; inversion Ee; inversion Er; subst; clear Ee Er;
      unfold eff_perm, swap_last2; replace (S (S m) - 2) with m by lia; replace (S (S m) - 1) with (S m) by lia;
      nth_norm; split_ifs; try lia.
Qed.

(* the simple rule (perm swaps the last two axes): trans := 1 - trans, transBatch must be (and stays) 0 *)
Theorem fused_matmul_last2_transpose : forall t N, 2 <= N ->
  compose (swap_last2 N) (eff_perm false t N) = eff_perm false (negb t) N.
Proof.
  intros t N HN. apply (nth_ext _ _ 0 0).
  - unfold compose. rewrite map_length, !eff_perm_length; auto.
  - intros i Hi. unfold compose in Hi. rewrite map_length, eff_perm_length in Hi by auto.
    rewrite nth_compose by (rewrite eff_perm_length; auto).
    destruct N as [|[|m]]; [lia|lia|].
    destruct t; simpl negb; unfold eff_perm, swap_last2;
      replace (S (S m) - 2) with m by lia; replace (S (S m) - 1) with (S m) by lia;
      nth_norm; split_ifs; try lia.
Qed.

(* the batch rules fire only on operands of rank >= 3 (ORT's FusedMatMul rejects transBatch below that) ... *)
Theorem batch_check_rank3 : forall r tb perm, batch_check r tb perm = true -> 3 <= length perm.
Proof. intros r tb perm H. unfold batch_check in H. apply andb_prop in H. destruct H as [H _]. apply Nat.leb_le in H. exact H. Qed.

(* ... which the check before the fix did not ensure: it accepted the identity perm on rank 2 and set transBatch *)
Theorem batch_rule_rank2_old_refuted : exists perm, length perm = 2 /\ batch_check_old FlipBatch false perm = true
  /\ fst (batch_rewrite FlipBatch false false) = true.
Proof. exists [0; 1]. repeat split. Qed.

(* ---- Transpose without a perm attribute: the ONNX default reverses ALL axes --------------------------------- *)
Lemma default_perm_head : forall m, hd 0 (default_perm (S m)) = m.
Proof. intros. unfold default_perm. rewrite seq_S, rev_app_distr. reflexivity. Qed.

(* reversing all axes is "swap the last two" for rank 2 and for no other rank >= 2 *)
Theorem default_perm_is_swap_iff_rank2 : forall N, 2 <= N -> (default_perm N = swap_last2 N <-> N = 2).
Proof.
  intros N HN. split.
  - intro H. destruct N as [|[|[|m]]]; try lia.
    assert (Hh : hd 0 (default_perm (S (S (S m)))) = hd 0 (swap_last2 (S (S (S m))))) by (rewrite H; reflexivity).
    rewrite default_perm_head in Hh. unfold swap_last2 in Hh.
    replace (S (S (S m)) - 2) with (S m) in Hh by lia. simpl in Hh. discriminate.
  - intros ->. reflexivity.
Qed.

(* whenever the simple rule's check accepts, the Transpose it absorbs really swaps the last two axes, perm given or not;
   [r] is the rank of the transposed operand (= length of perm when perm is given, by the validity of the model) *)
Theorem simple_check_sound : forall perm r other ftb,
  simple_check perm (Some r) other ftb = true ->
  (match perm with Some ((_ :: _) as p) => length p = r | _ => True end) ->
  2 <= r /\ transpose_perm perm r = swap_last2 r /\ r <> 1 /\ other <> Some 1 /\ ftb <> Some true.
Proof.
  intros perm r other ftb H Hlen. unfold simple_check in H.
  apply andb_prop in H. destruct H as [H H3]. apply andb_prop in H. destruct H as [H1 H2].
  apply negb_true_iff, orb_false_iff in H1. destruct H1 as [H1a H1b].
  assert (Hr1 : r <> 1) by (intro; subst; discriminate).
  assert (Ho : other <> Some 1) by (intro; subst; discriminate).
  assert (Hf : ftb <> Some true) by (intro; subst; discriminate).
  destruct perm as [[|p0 p]|].
  - simpl in H2. apply Nat.eqb_eq in H2. subst. repeat split; auto.
  - apply andb_prop in H2. destruct H2 as [H2a H2b]. apply Nat.leb_le in H2a. apply list_eqb_eq in H2b.
    rewrite Hlen in *. repeat split; auto.
  - simpl in H2. apply Nat.eqb_eq in H2. subst. repeat split; auto.
Qed.

(* the check the seeded mutant C19-1 used (rank of the OTHER operand tested when perm is absent) is not sound:
   rank-3 operand with default perm [2,1,0] is not a swap of the last two axes *)
Example default_perm_rank3_not_swap : default_perm 3 = [2; 1; 0] /\ swap_last2 3 = [0; 2; 1].
Proof. split; reflexivity. Qed.

(* non-vacuity *)
Example batch_example : batch_check FlipBoth false [1; 2; 3; 0] = true
  /\ compose [1; 2; 3; 0] (eff_perm false true 4) = eff_perm true false 4.
Proof. split; reflexivity. Qed.
