(* Proofs about imperative module programs (ModOps.v): the decidable side condition implies the hypotheses of
   ModulesProofs.realised_names_tree, hence names = root name + state_dict keys for every program. *)
From Coq Require Import String List Bool Arith Lia.
Require Import OV.Builder.Strings OV.Builder.StringsProofs OV.Builder.Modules OV.Builder.ModulesProofs OV.Builder.ModOps.
Import ListNotations.
Local Open Scope string_scope.

Lemma namedb_eq : forall acc k nm ps cs sb,
  namedb acc (MT k nm ps cs sb) =
  (match nm with Some n => String.eqb n acc | None => false end) &&
  forallb (fun kc => namedb (child_acc k acc (fst kc)) (snd kc)) cs.
Proof.
  intros. cbn [namedb]. f_equal. induction cs as [|[key c] r IH]; [reflexivity|].
  cbn [forallb fst snd]. rewrite <- IH. destruct k; reflexivity.
Qed.

Lemma shape_okb_eq : forall k nm ps cs sb,
  shape_okb (MT k nm ps cs sb) =
  forallb (fun kc => match k with KList => shape_okb (snd kc) | _ => namedb (fst kc) (snd kc) end) cs.
Proof.
  intros. cbn [shape_okb]. induction cs as [|[key c] r IH]; [reflexivity|].
  cbn [forallb fst snd]. now rewrite <- IH.
Qed.

Lemma namedb_sound : forall t acc, namedb acc t = true -> named acc t.
Proof.
  induction t as [k nm ps cs sb IH] using mtree_ind'. intros acc H. rewrite namedb_eq in H.
  apply andb_true_iff in H as [Hn Hc]. destruct nm as [n|]; [|discriminate]. apply String.eqb_eq in Hn. subst n.
  constructor. rewrite forallb_forall in Hc. rewrite Forall_forall in *. intros kc Hin. apply IH; auto.
Qed.

Lemma shape_okb_sound : forall t, shape_okb t = true -> shape_ok t.
Proof.
  induction t as [k nm ps cs sb IH] using mtree_ind'. intro H. rewrite shape_okb_eq in H.
  rewrite forallb_forall in H. destruct k.
  - apply ShapeCall; [discriminate|]. rewrite Forall_forall. intros kc Hin. apply namedb_sound. now apply H.
  - apply ShapeList. rewrite Forall_forall in *. intros kc Hin. apply IH; auto.
  - apply ShapeCall; [discriminate|]. rewrite Forall_forall. intros kc Hin. apply namedb_sound. now apply H.
Qed.

Lemma heap_ok_hyps : forall t, heap_okb t = true -> tree_hyps cfg_fixed t.
Proof.
  intros t H. unfold heap_okb in H.
  apply andb_true_iff in H as [H Hids]. apply andb_true_iff in H as [H Hkeys]. apply andb_true_iff in H as [Hk Hs].
  unfold tree_hyps. repeat split; auto.
  - intro E. rewrite E in Hk. discriminate.
  - now apply shape_okb_sound.
Qed.

(* param_names_eq_state_dict for imperative programs: whatever sequence of operations built the object graph,
   if the graph reachable from the root satisfies the side condition then the initializer names realised by
   calling the root are the root's name + the state_dict keys, in order. *)
Theorem modops_param_names_eq_state_dict : forall ops hp root fuel t,
  run_ops empty_heap ops = Some hp -> to_tree fuel hp root false = Some t -> heap_okb t = true ->
  realised_names cfg_fixed t = map (prefix (root_name t)) (sd_keys t).
Proof. intros ops hp root fuel t _ _ H. apply realised_names_tree. now apply heap_ok_hyps. Qed.

Theorem modops_params_once : forall ops hp root fuel t,
  run_ops empty_heap ops = Some hp -> to_tree fuel hp root false = Some t -> heap_okb t = true ->
  NoDup (realised_names cfg_fixed t) /\ List.length (realised_names cfg_fixed t) = List.length (param_ids t).
Proof.
  intros ops hp root fuel t _ _ H. apply params_once_tree. now apply heap_ok_hyps.
Qed.

(* under the side condition the call does not raise either *)
Definition modops_call_defined_full : Prop := forall t, heap_okb t = true -> callable_ok t = true ->
  call_outcome t = Some (map (prefix (root_name t)) (sd_keys t)).

(* the side condition is satisfiable by a program using every operation *)
Definition ex_ops : list mop :=
  [ONew KMod (Some "model") false; ONew KList None false; ONew KMod None false; ONew KMod None false; ONew KSeq None false;
   ONew KMod None false; ONewParam None; ONewParam None; ONewParam None; ONewParam None;
   OSetParam 2 "w" 0; OSetParam 3 "w" 1; OSetParam 5 "w" 2; OSetParam 0 "bias" 3;
   OAppend 1 2;                       (* unattached list: child "0" *)
   OSetChild 0 "layers" 1;            (* attach: children renamed layers.0 *)
   OAppend 1 3;                       (* late append: layers.1 *)
   OAppend 4 5; OAppend 1 4;          (* a Sequential holding a leaf, appended late: layers.2 / 0 *)
   OSetChild 0 "layers" 1;            (* re-assignment under the same name *)
   ODelAttr 0 "bias";
   ORename 1 "layers"].

Example ex_ops_ok :
  exists hp t, run_ops empty_heap ex_ops = Some hp /\ to_tree (fuel_of (h_objs hp)) hp 0 false = Some t /\
    heap_okb t = true /\
    realised_names cfg_fixed t = ["model.bias"; "model.layers.0.w"; "model.layers.1.w"; "model.layers.2.0.w"].
Proof. vm_compute. eexists. eexists. repeat split; reflexivity. Qed.

(* outside the side condition the statement is false: a Sequential whose children are called directly; a module
   that was registered somewhere else before *)
Theorem seq_child_called_directly_refuted :
  exists hp t, run_ops empty_heap w_seq_direct = Some hp /\ to_tree (fuel_of (h_objs hp)) hp 0 false = Some t /\
    keys_okb t = true /\ nodup_natb (param_ids t) = true /\
    realised_names cfg_fixed t = ["root.0.w"; "root.1.w"] /\ sd_keys t = ["seq.0.w"; "seq.1.w"].
Proof. vm_compute. eexists. eexists. repeat split; reflexivity. Qed.

Theorem reattached_module_refuted :
  exists hp t, run_ops empty_heap w_reattached = Some hp /\ to_tree (fuel_of (h_objs hp)) hp 0 false = Some t /\
    keys_okb t = true /\ nodup_natb (param_ids t) = true /\
    realised_names cfg_fixed t = ["root.c.w"] /\ sd_keys t = ["d.w"].
Proof. vm_compute. eexists. eexists. repeat split; reflexivity. Qed.
