(* C19 proofs: the normalisation GroupQueryAttention.rewrite re-applies is exactly the matched one, for every placement pair;
   a row-wise normalisation commutes with the head-splitting Transpose. *)
From Coq Require Import List Arith Bool ZArith Lia.
Require Import OV.Fusion.Norm OV.Fusion.Attn OV.Fusion.AttnProofs OV.Fusion.GqaNorm.
Import ListNotations.

(* ---- part 1: the choice *)
(* the normalisation the SOURCE model applies to an operand placed [pl] (PBoth: two of them, not a single node) *)
Definition source_norm (N : Type) (pl : placement) (n_before n_after : N) : option N :=
  match pl with PNone => None | PBefore => Some n_before | PAfter => Some n_after | PBoth => None end.

(* for every placement of the query and every placement of the key (the full product), the rule fires iff neither operand is
   normalised twice, and then re-applies to each operand exactly the node matched on THAT operand *)
Theorem gqa_rewrite_norms_exact : forall (N : Type) plq plk (qb qa kb ka : N),
  gqa_rewrite_norms N (bind_norm N plq qb qa) (bind_norm N plk kb ka)
  = if placement_eqb plq PBoth || placement_eqb plk PBoth then None
    else Some (source_norm N plq qb qa, source_norm N plk kb ka).
Proof. intros N [] [] qb qa kb ka; reflexivity. Qed.

Corollary gqa_rewrite_norms_single : forall (N : Type) plq plk (qb qa kb ka : N), plq <> PBoth -> plk <> PBoth ->
  gqa_rewrite_norms N (bind_norm N plq qb qa) (bind_norm N plk kb ka) = Some (source_norm N plq qb qa, source_norm N plk kb ka).
Proof. intros N [] [] qb qa kb ka Hq Hk; try reflexivity; congruence. Qed.

(* choosing ONE placement for both operands loses a normalisation exactly on the mixed pairs *)
Theorem gqa_joint_choice_iff : forall (N : Type) plq plk (qb qa kb ka : N), plq <> PBoth -> plk <> PBoth ->
  (gqa_rewrite_norms_joint N (bind_norm N plq qb qa) (bind_norm N plk kb ka)
   = gqa_rewrite_norms N (bind_norm N plq qb qa) (bind_norm N plk kb ka))
  <-> ~ ((plq = PBefore /\ plk = PAfter) \/ (plq = PAfter /\ plk = PBefore)).
Proof.
  intros N [] [] qb qa kb ka Hq Hk; try congruence; cbn; split; intro H;
    try reflexivity; try (intros [[? ?]|[? ?]]; discriminate); try discriminate;
    try (exfalso; apply H; auto).
Qed.
Theorem gqa_joint_choice_refuted : exists plq plk (nq nk : nat),
  plq <> PBoth /\ plk <> PBoth /\
  gqa_rewrite_norms_joint nat (bind_norm nat plq nq nq) (bind_norm nat plk nk nk) = Some (Some nq, None) /\
  gqa_rewrite_norms nat (bind_norm nat plq nq nq) (bind_norm nat plk nk nk) = Some (Some nq, Some nk).
Proof. exists PAfter, PBefore, 1, 2. repeat split; discriminate. Qed.

(* ---- part 2: values *)
Section Laws.
  Variable A : Type.
  Variable d0 : A.

  Lemma nth_rowwise : forall f R Dh x i d, i < R -> d < Dh ->
    nth (i * Dh + d) (rowwise A d0 f R Dh x) d0 = nth d (f (tab1 A Dh (fun e => nth (i * Dh + e) x d0))) d0.
  Proof.
    intros. unfold rowwise. rewrite nth_tabulate with (n := Dh); auto; [| intros; apply length_tab1].
    apply nth_tab1; auto.
  Qed.

  (* head (b,h) of Reshape(rowwise f (Reshape x)) on the packed layout = the head's rows, each normalised *)
  Lemma head_packed_rowwise : forall f B S N Dh x b h, b < B -> h < N ->
    head_packed A d0 S N Dh (reshape A (rowwise A d0 f (B * S * N) Dh (reshape A x))) b h
    = maprows A d0 f Dh (head_packed A d0 S N Dh x b h).
  Proof.
    intros f B S N Dh x b h Hb Hh. unfold head_packed, maprows, reshape. rewrite map_map.
    apply map_ext_in. intros s Hs. apply in_seq in Hs. apply tab1_ext. intros d Hd.
    replace ((b * S + s) * (N * Dh) + (h * Dh + d)) with (((b * S + s) * N + h) * Dh + d) by ring.
    assert (Hbs : b * S + s < B * S) by nia.
    assert (((b * S + s) * N + h) < B * S * N) by (clear - Hbs Hh; nia).
    rewrite nth_rowwise by auto. f_equal. f_equal. apply tab1_ext. intros e He. f_equal. ring.
  Qed.

  (* matrix (b,h) of rowwise f on the [B,N,S,Dh] layout = the matrix's rows, each normalised *)
  Lemma mat_at_rowwise : forall f B N S Dh y b h, b < B -> h < N ->
    mat_at A d0 N S Dh (rowwise A d0 f (B * N * S) Dh y) b h = maprows A d0 f Dh (mat_at A d0 N S Dh y b h).
  Proof.
    intros f B N S Dh y b h Hb Hh. unfold mat_at, maprows. rewrite map_map.
    apply map_ext_in. intros s Hs. apply in_seq in Hs. apply tab1_ext. intros d Hd.
    assert (Hbn : b * N + h < B * N) by nia.
    assert (((b * N + h) * S + s) < B * N * S) by (clear - Hbn Hs; nia).
    rewrite nth_rowwise by auto. reflexivity.
  Qed.

  (* THE COMMUTATION: normalising the last axis after Transpose(0,2,1,3) and before it give the same head matrices, which are
     the packed operand's heads normalised row by row -- every B, S, N (= num_heads or kv_num_heads), Dh, every row function *)
  Theorem norm_commutes_with_head_split : forall f B S N Dh x b h, b < B -> h < N ->
    mat_at A d0 N S Dh (rowwise A d0 f (B * N * S) Dh (transpose0213 A d0 B S N Dh (reshape A x))) b h
    = mat_at A d0 N S Dh (transpose0213 A d0 B S N Dh (rowwise A d0 f (B * S * N) Dh (reshape A x))) b h.
  Proof.
    intros f B S N Dh x b h Hb Hh.
    transitivity (maprows A d0 f Dh (head_packed A d0 S N Dh x b h)).
    - rewrite mat_at_rowwise by auto. rewrite split_heads by auto. reflexivity.
    - rewrite <- (head_packed_rowwise f B S N Dh x b h Hb Hh). symmetry.
      exact (split_heads A d0 B S N Dh (rowwise A d0 f (B * S * N) Dh (reshape A x)) b h Hb Hh).
  Qed.

  (* what the pattern feeds into rotary / attention for head (b,h), for each single placement *)
  Theorem operand4_heads : forall pl fb fa B S N Dh x b h, b < B -> h < N -> pl <> PBoth ->
    mat_at A d0 N S Dh (operand4 A d0 pl fb fa B S N Dh x) b h
    = match source_norm _ pl fb fa with
      | None => head_packed A d0 S N Dh x b h
      | Some f => maprows A d0 f Dh (head_packed A d0 S N Dh x b h)
      end.
  Proof.
    intros pl fb fa B S N Dh x b h Hb Hh Hpl. destruct pl; try congruence; cbn [operand4 source_norm].
    - apply split_heads; auto.
    - rewrite <- norm_commutes_with_head_split by auto. rewrite mat_at_rowwise by auto. rewrite split_heads by auto. reflexivity.
    - rewrite mat_at_rowwise by auto. rewrite split_heads by auto. reflexivity.
  Qed.

  (* what GroupQueryAttention reads for head (b,h) from the operand the rewrite emits *)
  Theorem emitted3_heads : forall chosen B S N Dh x b h, b < B -> h < N ->
    head_packed A d0 S N Dh (emitted3 A d0 chosen B S N Dh x) b h
    = match chosen with
      | None => head_packed A d0 S N Dh x b h
      | Some f => maprows A d0 f Dh (head_packed A d0 S N Dh x b h)
      end.
  Proof. intros [f|] B S N Dh x b h Hb Hh; cbn [emitted3]; [apply head_packed_rowwise; auto | reflexivity]. Qed.

  (* the two together, through the rewrite's choice: for EVERY single placement the fused operator's head = the pattern's *)
  Theorem gqa_norm_operand_heads : forall pl fb fa B S N Dh x b h, b < B -> h < N -> pl <> PBoth ->
    mat_at A d0 N S Dh (operand4 A d0 pl fb fa B S N Dh x) b h
    = head_packed A d0 S N Dh (emitted3 A d0 (pick_norm _ (bind_norm _ pl fb fa)) B S N Dh x) b h.
  Proof.
    intros. rewrite operand4_heads, emitted3_heads by auto. destruct pl; try congruence; reflexivity.
  Qed.

  Variable attn : list (list A) -> list (list A) -> list (list A) -> option (list (list A)) -> list (list A).
  (* the whole rule on the query side: pattern (any single placement of the q-norm, kv heads repeated) =
     GroupQueryAttention(num_heads = Hkv*G, kv_num_heads = Hkv) on the emitted query operand *)
  Theorem gqa_qnorm_fusion : forall pl fb fa B S T Hkv G Dh q kseq vseq mask, 0 < Hkv -> 0 < G -> pl <> PBoth ->
    gqa_pattern4 A d0 attn B S T Hkv G Dh (operand4 A d0 pl fb fa B S (Hkv * G) Dh q) kseq vseq mask
    = gqa_spec A d0 attn B S T (Hkv * G) Hkv Dh (emitted3 A d0 (pick_norm _ (bind_norm _ pl fb fa)) B S (Hkv * G) Dh q) kseq vseq mask.
  Proof.
    intros. unfold gqa_pattern4, gqa_spec. rewrite merge_heads. apply pack_heads_ext. intros b h Hb Hh.
    rewrite gqa_norm_operand_heads by auto. rewrite !repeat_kv_head by auto.
    replace (Hkv * G / Hkv) with G by (rewrite Nat.mul_comm, Nat.div_mul; lia). reflexivity.
  Qed.
End Laws.

(* the joint choice at the level of values: key normalised before its Transpose, query after: the key operand the joint rewrite
   emits is the un-normalised key, its head differs from the pattern's *)
Theorem gqa_joint_choice_values_refuted : exists (f : list nat -> list nat) x,
  let mk := bind_norm _ PBefore f f in let mq := bind_norm _ PAfter f f in
  match gqa_rewrite_norms_joint _ mq mk with
  | Some (_, ck) => mat_at nat 0 1 1 1 (operand4 nat 0 PBefore f f 1 1 1 1 x) 0 0 <> head_packed nat 0 1 1 1 (emitted3 nat 0 ck 1 1 1 1 x) 0 0
  | None => False
  end.
Proof. exists (map S), [0]. vm_compute. discriminate. Qed.

Example gqa_norm_operand_computes :
  mat_at nat 0 2 1 2 (operand4 nat 0 PAfter (map S) (map (fun v => v * 10)) 1 1 2 2 [1; 2; 3; 4]) 0 1 = [[30; 40]]
  /\ head_packed nat 0 1 2 2 (emitted3 nat 0 (pick_norm _ (bind_norm _ PAfter (map S) (map (fun v => v * 10)))) 1 1 2 2 [1; 2; 3; 4]) 0 1 = [[30; 40]].
Proof. vm_compute. split; reflexivity. Qed.

(* ---- part 3: the whole rule, with rotary embedding and past *)
Section RuleLaws.
  Variable A : Type.
  Variable d0 : A.
  Variable attn : list (list A) -> list (list A) -> list (list A) -> option (list (list A)) -> list (list A).
  Variable rot : nat -> list A -> list A.

  Lemma nth_mat_at_row : forall N S Dh x b n s, s < S ->
    nth s (mat_at A d0 N S Dh x b n) [] = tab1 A Dh (fun d => nth (((b * N + n) * S + s) * Dh + d) x d0).
  Proof.
    intros. unfold mat_at.
    set (g := fun s0 => tab1 A Dh (fun d => nth (((b * N + n) * S + s0) * Dh + d) x d0)).
    rewrite (nth_indep _ [] (g 0)) by (rewrite map_length, seq_length; lia).
    rewrite map_nth, seq_nth by lia. reflexivity.
  Qed.

  Lemma mat_at_rotary4 : forall pos B N S Dh x b n, b < B -> n < N ->
    mat_at A d0 N S Dh (rotary4 A d0 rot pos B N S Dh x) b n = rot_head A d0 rot (pos b) S Dh (mat_at A d0 N S Dh x b n).
  Proof.
    intros pos B N S Dh x b n Hb Hn. unfold rot_head. unfold mat_at at 1.
    apply map_seq_ext. intros s Hs. apply tab1_ext. intros d Hd.
    unfold rotary4. rewrite nth_tab4 by auto. f_equal. f_equal.
    apply tab1_ext. intros e He. rewrite nth_mat_at_row by auto. rewrite nth_tab1 by auto. reflexivity.
  Qed.

  Lemma rot_head_ext : forall p1 p2 S Dh m, (forall s, s < S -> p1 s = p2 s) ->
    rot_head A d0 rot p1 S Dh m = rot_head A d0 rot p2 S Dh m.
  Proof. intros. unfold rot_head. apply map_seq_ext. intros s Hs. rewrite H by auto. reflexivity. Qed.

  (* positions: the rewrite passes seqlens_k = ReduceMax(position_ids, axis 1); with position_ids[b] = P, P+1, ..., P+S-1 the
     operator's position of new token s is position_ids[b][s] *)
  Lemma op_pos_consecutive : forall P S s, 0 < S -> s < S -> op_pos (seqlens_k (seq P S)) S s = nth s (seq P S) 0.
  Proof. intros. rewrite gqa_seqlens by auto. rewrite seq_nth by auto. unfold op_pos. lia. Qed.

  (* THE RULE: for every single placement of the q-norm and of the k-norm (the full product), every row function each, every
     rotation [rot], per-head attention [attn] and mask, every B, S >= 1, past length P, Hkv >= 1, G >= 1, Dh -- provided the
     position_ids rows are P, P+1, ..., P+S-1 (what the rewrite assumes; see gqa_positions_refuted) -- the attention output
     of the matched sub-graph is GroupQueryAttention's on the operands the rewrite emits, and the present key / value heads
     are the operator's *)
  Theorem gqa_rule_fusion : forall plq plk fqb fqa fkb fka (ids : nat -> list nat) B S P Hkv G Dh q k v pk pv mask,
    0 < Hkv -> 0 < G -> 0 < S -> plq <> PBoth -> plk <> PBoth ->
    (forall b, b < B -> ids b = seq P S) ->
    let pos := fun b s => nth s (ids b) 0 in
    let sk := fun b => seqlens_k (ids b) in
    let q3 := emitted3 A d0 (pick_norm _ (bind_norm _ plq fqb fqa)) B S (Hkv * G) Dh q in
    let k3 := emitted3 A d0 (pick_norm _ (bind_norm _ plk fkb fka)) B S Hkv Dh k in
    let '(out, kseq, vseq) := gqa_rule_pattern A d0 attn rot plq plk fqb fqa fkb fka pos B S P Hkv G Dh q k v pk pv mask in
    out = gqa_op_out A d0 attn rot sk B S P (Hkv * G) Hkv Dh q3 k3 v pk pv mask
    /\ (forall b n, b < B -> n < Hkv -> mat_at A d0 Hkv (P + S) Dh kseq b n = gqa_op_khead A d0 rot sk S P Hkv Dh k3 pk b n)
    /\ (forall b n, b < B -> n < Hkv -> mat_at A d0 Hkv (P + S) Dh vseq b n = gqa_op_vhead A d0 S P Hkv Dh v pv b n).
  Proof.
    intros plq plk fqb fqa fkb fka ids B S P Hkv G Dh q k v pk pv mask HHkv HG HS Hq Hk Hids pos sk q3 k3.
    unfold gqa_rule_pattern.
    assert (Hpos : forall b, b < B -> forall s, s < S -> pos b s = op_pos (sk b) S s).
    { intros b Hb s Hs. unfold pos, sk. rewrite (Hids b Hb). symmetry. apply op_pos_consecutive; auto. }
    assert (KH : forall b n, b < B -> n < Hkv ->
              mat_at A d0 Hkv (P + S) Dh
                (concat_seq A d0 B Hkv P S Dh pk (rotary4 A d0 rot pos B Hkv S Dh (operand4 A d0 plk fkb fka B S Hkv Dh k))) b n
              = gqa_op_khead A d0 rot sk S P Hkv Dh k3 pk b n).
    { intros b n Hb Hn. rewrite concat_seq_mat by auto. unfold gqa_op_khead. f_equal.
      rewrite mat_at_rotary4 by auto. rewrite gqa_norm_operand_heads by auto.
      apply rot_head_ext. intros s Hs. apply Hpos; auto. }
    assert (VH : forall b n, b < B -> n < Hkv ->
              mat_at A d0 Hkv (P + S) Dh (concat_seq A d0 B Hkv P S Dh pv (transpose0213 A d0 B S Hkv Dh (reshape A v))) b n
              = gqa_op_vhead A d0 S P Hkv Dh v pv b n).
    { intros b n Hb Hn. rewrite concat_seq_mat by auto. unfold gqa_op_vhead. f_equal. apply split_heads; auto. }
    split; [| split; assumption].
    unfold gqa_pattern4, gqa_op_out. rewrite merge_heads. apply pack_heads_ext. intros b h Hb Hh.
    assert (G <> 0) by lia.
    assert (Hhk : h / G < Hkv) by (apply Nat.div_lt_upper_bound; auto; lia).
    rewrite !repeat_kv_head by auto.
    replace (Hkv * G / Hkv) with G by (rewrite Nat.mul_comm, Nat.div_mul; lia).
    rewrite KH, VH by auto. f_equal.
    rewrite mat_at_rotary4 by auto. rewrite gqa_norm_operand_heads by auto.
    apply rot_head_ext. intros s Hs. apply Hpos; auto.
  Qed.
End RuleLaws.

(* the hypothesis on position_ids is needed and is NOT checked by the rule (position_ids is a free pattern variable): with
   position ids 0, 1 against a past of length 1 the pattern rotates the new tokens at 0, 1, the operator at 0 + ... = seqlens_k + 1
   - S + s = 0, 1 only if the ids end at P + S - 1; ids [5; 3] give the operator positions 4, 5 *)
Theorem gqa_positions_refuted : exists (ids : list nat) S s, s < S /\ length ids = S /\ op_pos (seqlens_k ids) S s <> nth s ids 0.
Proof. exists [5; 3], 2, 0. repeat split; auto. vm_compute. discriminate. Qed.
(* exactly the consecutive rows are right, among rows of length S >= 1 *)
Theorem gqa_positions_iff : forall (ids : list nat) S, 0 < S -> length ids = S ->
  (forall s, s < S -> op_pos (seqlens_k ids) S s = nth s ids 0) <-> exists P, ids = seq P S.
Proof.
  intros ids S HS HL. split.
  - intro H. exists (nth 0 ids 0).
    apply nth_ext with (d := 0) (d' := 0); [rewrite seq_length; auto|].
    intros s Hs. rewrite HL in Hs. rewrite seq_nth by auto.
    rewrite <- (H s Hs), <- (H 0 HS). unfold op_pos. lia.
  - intros [P E] s Hs. subst ids. apply op_pos_consecutive; auto.
Qed.

Theorem positions_ok_iff : forall (ids : list nat) S, 0 < S -> length ids = S ->
  positions_ok ids S = true <-> exists P, ids = seq P S.
Proof.
  intros ids S HS HL. rewrite <- (gqa_positions_iff ids S HS HL). unfold positions_ok. rewrite forallb_forall. split.
  - intros H s Hs. apply Nat.eqb_eq. apply H. apply in_seq. lia.
  - intros H s Hs. apply in_seq in Hs. apply Nat.eqb_eq. apply H. lia.
Qed.

(* the decision the correspondence evaluates: position row = P, P+1, ..., P+S-1 with P the length of the past *)
Theorem positions_match_past_iff : forall (ids : list nat) S P, 0 < S -> length ids = S ->
  positions_match_past ids S P = true <-> ids = seq P S.
Proof.
  intros ids S P HS HL. unfold positions_match_past. rewrite andb_true_iff, (positions_ok_iff ids S HS HL), Nat.eqb_eq. split.
  - intros [[P' E] HP]. subst ids. rewrite gqa_seqlens in HP by auto. f_equal. lia.
  - intro E. subst ids. split; [exists P; reflexivity|]. rewrite gqa_seqlens by auto. lia.
Qed.
