(* C11 -- the chain of Gather ops a front end emits after Slice (+ Squeeze), run on the op models, computes the
   per-axis view: every tensor-valued index acts on its own source axis.  The Gathers are applied from the last
   axis to the first; the invariant carried through the chain is that the number of an axis among the axes still
   kept (`knum`) is its source position minus the axes removed in front of it, and that a Gather at position a
   leaves everything in front of a untouched. *)
From Coq Require Import ZArith List Bool Lia Arith Permutation.
Import ListNotations.
Require Import OV.Index.NumpySpec OV.Index.OnnxSlice OV.Index.ConverterIdx OV.Index.EagerIdx OV.Index.SliceProofs
               OV.Index.ViewProofs.
Open Scope Z_scope.

(* ---- positions ---- *)
Definition knum (v : view) (a : nat) : nat := nkeeps (firstn a v).
Definition put (a : nat) (s : sel) (v : view) : view := (firstn a v ++ s :: skipn (S a) v)%list.

Lemma map_keeps_above_id : forall f v j,
  (forall k l, (j <= k)%nat -> f k l = Some (Keep l)) -> map_keeps f j v = Some v.
Proof.
  intros f. induction v as [|s v IH]; intros j H; [reflexivity|]. destruct s as [l|i]; cbn.
  - rewrite (H j l) by lia. rewrite IH by (intros; apply H; lia). reflexivity.
  - rewrite IH by assumption. reflexivity.
Qed.

Lemma gather_at : forall v j a l ix, nth_error v a = Some (Keep l) ->
  map_keeps (gather_f (j + knum v a) ix) j v = option_map (fun s => put a s v) (gather_sel l ix).
Proof.
  induction v as [|s v IH]; intros j a l ix H; [destruct a; discriminate|].
  destruct a as [|a].
  - cbn in H. injection H as ->. unfold knum, put. cbn [firstn nkeeps skipn app]. rewrite Nat.add_0_r.
    cbn [map_keeps]. unfold gather_f at 1. rewrite Nat.eqb_refl.
    rewrite map_keeps_above_id.
    + destruct (gather_sel l ix); reflexivity.
    + intros k l0 Hk. unfold gather_f. destruct (Nat.eqb k j) eqn:E; [apply Nat.eqb_eq in E; lia|reflexivity].
  - cbn [nth_error] in H. destruct s as [l0|i].
    + unfold knum, put. cbn [firstn nkeeps skipn app map_keeps].
      unfold gather_f at 1. destruct (Nat.eqb j (j + S (nkeeps (firstn a v)))) eqn:E; [apply Nat.eqb_eq in E; lia|].
      replace (j + S (nkeeps (firstn a v)))%nat with (S j + knum v a)%nat by (unfold knum; lia).
      rewrite (IH (S j) a l ix H). unfold put. destruct (gather_sel l ix); reflexivity.
    + unfold knum, put. cbn [firstn nkeeps skipn app map_keeps]. fold (knum v a).
      rewrite (IH j a l ix H). unfold put. destruct (gather_sel l ix); reflexivity.
Qed.

Lemma knum_lt : forall v a l, nth_error v a = Some (Keep l) -> (knum v a < nkeeps v)%nat.
Proof.
  induction v as [|s v IH]; intros a l H; [destruct a; discriminate|]. destruct a as [|a].
  - cbn in H. injection H as ->. unfold knum. cbn. lia.
  - cbn [nth_error] in H. specialize (IH a l H). unfold knum in *. destruct s; cbn; lia.
Qed.

Lemma run_gather_at : forall v a l ix, nth_error v a = Some (Keep l) ->
  run_op (OGather (knum v a) ix) v = option_map (fun s => put a s v) (gather_sel l ix).
Proof.
  intros v a l ix H. cbn [run_op]. assert (Nat.ltb (knum v a) (nkeeps v) = true) as -> by (apply Nat.ltb_lt; eapply knum_lt; eassumption).
  apply (gather_at v 0%nat a l ix H).
Qed.

Lemma nth_error_put_lt : forall v a s m, (m < a)%nat -> (a < length v)%nat -> nth_error (put a s v) m = nth_error v m.
Proof.
  intros. unfold put. rewrite nth_error_app1 by (rewrite firstn_length; lia).
  rewrite <- (firstn_skipn a v) at 2. rewrite nth_error_app1 by (rewrite firstn_length; lia). reflexivity.
Qed.
Lemma nth_error_put_eq : forall v a s, (a < length v)%nat -> nth_error (put a s v) a = Some s.
Proof.
  intros. unfold put. rewrite nth_error_app2 by (rewrite firstn_length; lia).
  rewrite firstn_length. replace (a - Nat.min a (length v))%nat with 0%nat by lia. reflexivity.
Qed.
Lemma nth_error_put_gt : forall v a s m, (a < m)%nat -> (a < length v)%nat -> nth_error (put a s v) m = nth_error v m.
Proof.
  intros. unfold put. rewrite nth_error_app2 by (rewrite firstn_length; lia). rewrite firstn_length.
  replace (m - Nat.min a (length v))%nat with (S (m - S a)) by lia. cbn [nth_error].
  rewrite <- (firstn_skipn (S a) v) at 2. rewrite nth_error_app2 by (rewrite firstn_length; lia).
  rewrite firstn_length. f_equal. lia.
Qed.
Lemma length_put : forall v a s, (a < length v)%nat -> length (put a s v) = length v.
Proof.
  intros. unfold put. rewrite app_length. cbn [length]. rewrite firstn_length, skipn_length. lia.
Qed.
Lemma knum_put_le : forall v a s m, (m <= a)%nat -> (a < length v)%nat -> knum (put a s v) m = knum v m.
Proof.
  intros. unfold knum, put. f_equal. rewrite firstn_app. rewrite firstn_length.
  replace (m - Nat.min a (length v))%nat with 0%nat by lia. cbn [firstn]. rewrite app_nil_r.
  rewrite firstn_firstn. f_equal. lia.
Qed.

(* ---- the chain ---- *)
Fixpoint apply_g (G : list (nat * comp)) (v : view) : option view :=
  match G with
  | [] => Some v
  | (a, c) :: G' =>
      match nth_error v a with
      | Some (Keep l) => match gather_sel l (gix c) with Some s => apply_g G' (put a s v) | None => None end
      | _ => None
      end
  end.

Fixpoint desc {A} (l : list (nat * A)) : Prop :=
  match l with [] => True | x :: t => (forall y, In y t -> (fst y < fst x)%nat) /\ desc t end.

Lemma chain_run : forall (adj : nat -> nat) G v, desc G ->
  (forall p, In p G -> exists l, nth_error v (fst p) = Some (Keep l) /\ adj (fst p) = knum v (fst p)) ->
  run_ops (map (fun p => OGather (adj (fst p)) (gix (snd p))) G) v = apply_g G v.
Proof.
  intros adj. induction G as [|[a c] G IH]; intros v Hd H; [reflexivity|].
  simpl in Hd. destruct Hd as [Hlt Hd]. destruct (H (a, c) (or_introl eq_refl)) as [l [Hn Ha]]. cbn [fst snd] in *.
  cbn [map run_ops apply_g fst snd]. rewrite Ha, (run_gather_at v a l _ Hn), Hn.
  destruct (gather_sel l (gix c)) as [s|]; [|reflexivity]. cbn [option_map].
  assert (Hlen : (a < length v)%nat) by (apply nth_error_Some; congruence).
  apply IH; [assumption|]. intros p Hp. destruct (H p (or_intror Hp)) as [l' [Hn' Ha']].
  specialize (Hlt p Hp). cbn [fst] in Hlt. exists l'. split.
  - rewrite nth_error_put_lt by assumption. assumption.
  - rewrite knum_put_le by lia. assumption.
Qed.

Lemma find_axis_none {A} : forall (G : list (nat * A)) m, (forall y, In y G -> fst y <> m) -> find_axis m G = None.
Proof.
  induction G as [|[a c] G IH]; intros m H; [reflexivity|]. cbn.
  destruct (Nat.eqb a m) eqn:E; [apply Nat.eqb_eq in E; exfalso; apply (H (a, c) (or_introl eq_refl)); assumption|].
  apply IH. intros y Hy. apply H. right. assumption.
Qed.

(* what the chain leaves at every position *)
Lemma apply_g_nth : forall G v v', desc G -> apply_g G v = Some v' ->
  length v' = length v /\
  forall m, nth_error v' m =
    match find_axis m G with
    | Some c => match nth_error v m with Some (Keep l) => gather_sel l (gix c) | _ => None end
    | None => nth_error v m
    end.
Proof.
  induction G as [|[a c] G IH]; intros v v' Hd H.
  - cbn in H. injection H as <-. split; [reflexivity|]. intros; reflexivity.
  - simpl in Hd. destruct Hd as [Hlt Hd]. cbn [apply_g] in H.
    destruct (nth_error v a) as [[l|i]|] eqn:Hn; try discriminate.
    destruct (gather_sel l (gix c)) as [s|] eqn:Hs; [|discriminate].
    assert (Hlen : (a < length v)%nat) by (apply nth_error_Some; congruence).
    destruct (IH _ _ Hd H) as [L P]. split; [rewrite L; apply length_put; assumption|].
    intros m. rewrite P. cbn [find_axis]. destruct (Nat.eqb a m) eqn:E.
    + apply Nat.eqb_eq in E. subst m. rewrite find_axis_none.
      * rewrite nth_error_put_eq by assumption. rewrite Hn. symmetry. assumption.
      * intros y Hy. specialize (Hlt y Hy). cbn in Hlt. lia.
    + apply Nat.eqb_neq in E. assert (nth_error (put a s v) m = nth_error v m) as ->.
      { destruct (Nat.lt_ge_cases m a); [apply nth_error_put_lt; assumption|apply nth_error_put_gt; [lia|assumption]]. }
      reflexivity.
Qed.

Lemma apply_g_total : forall G v, desc G ->
  (forall p, In p G -> exists l s, nth_error v (fst p) = Some (Keep l) /\ gather_sel l (gix (snd p)) = Some s) ->
  exists v', apply_g G v = Some v'.
Proof.
  induction G as [|[a c] G IH]; intros v Hd H; [eexists; reflexivity|].
  simpl in Hd. destruct Hd as [Hlt Hd]. destruct (H (a, c) (or_introl eq_refl)) as [l [s [Hn Hs]]]. cbn [fst snd] in *.
  cbn [apply_g]. rewrite Hn, Hs.
  assert (Hlen : (a < length v)%nat) by (apply nth_error_Some; congruence).
  apply IH; [assumption|]. intros p Hp. destruct (H p (or_intror Hp)) as [l' [s' [Hn' Hs']]].
  specialize (Hlt p Hp). cbn [fst] in Hlt. exists l', s'. split; [|assumption].
  rewrite nth_error_put_lt by assumption. assumption.
Qed.

(* ---- sorting ---- *)
Lemma in_insert_desc {A} : forall (x : nat * A) l y, In y (insert_desc x l) <-> y = x \/ In y l.
Proof.
  induction l as [|z l IH]; intros y.
  - simpl. split; intros H; destruct H as [H|H]; try contradiction; left; symmetry; assumption.
  - simpl insert_desc. destruct (Nat.ltb (fst x) (fst z)).
    + split; intros H.
      * destruct H as [H|H]; [right; left; assumption|]. apply IH in H. destruct H as [H|H]; [left; assumption|right; right; assumption].
      * destruct H as [H|H]; [right; apply IH; left; assumption|].
        destruct H as [H|H]; [left; assumption|right; apply IH; right; assumption].
    + split; intros H.
      * destruct H as [H|H]; [left; symmetry; assumption|right; assumption].
      * destruct H as [H|H]; [left; symmetry; assumption|right; assumption].
Qed.

Lemma in_sort_desc {A} : forall (l : list (nat * A)) y, In y (sort_desc l) <-> In y l.
Proof.
  induction l as [|x l IH]; intros y; cbn; [reflexivity|]. split.
  - intros H. apply in_insert_desc in H. destruct H as [->|H]; [left; reflexivity|right; apply IH; assumption].
  - intros [<-|H]; apply in_insert_desc; [left; reflexivity|right; apply IH; assumption].
Qed.

Lemma insert_desc_desc {A} : forall (x : nat * A) l, desc l -> (forall y, In y l -> fst y <> fst x) -> desc (insert_desc x l).
Proof.
  induction l as [|z l IH]; intros Hd Hne; cbn [insert_desc].
  - cbn. split; [intros y []|exact I].
  - simpl in Hd. destruct Hd as [Hlt Hd]. destruct (Nat.ltb (fst x) (fst z)) eqn:E.
    + apply Nat.ltb_lt in E. cbn. split.
      * intros y Hy. apply in_insert_desc in Hy. destruct Hy as [->|Hy]; [assumption|apply Hlt; assumption].
      * apply IH; [assumption|]. intros y Hy. apply Hne. right. assumption.
    + apply Nat.ltb_ge in E. cbn. split.
      * intros y [<-|Hy].
        -- pose proof (Hne z (or_introl eq_refl)). lia.
        -- specialize (Hlt y Hy). lia.
      * split; assumption.
Qed.

Lemma sort_desc_desc {A} : forall (l : list (nat * A)), NoDup (map fst l) -> desc (sort_desc l).
Proof.
  induction l as [|x l IH]; intros H.
  - exact I.
  - simpl in H. apply NoDup_cons_iff in H. destruct H as [Hnin Hnd]. simpl sort_desc. apply insert_desc_desc.
    + apply IH. exact Hnd.
    + intros y Hy E. apply (proj1 (in_sort_desc l y)) in Hy. apply Hnin. rewrite <- E. apply in_map. assumption.
Qed.

Lemma find_axis_in {A} : forall (l : list (nat * A)) m c, NoDup (map fst l) -> In (m, c) l -> find_axis m l = Some c.
Proof.
  induction l as [|[a x] l IH]; intros m c H Hin; [destruct Hin|]. simpl in H. apply NoDup_cons_iff in H. destruct H as [Hnin Hnd]. cbn.
  destruct Hin as [E|Hin].
  - injection E as -> ->. rewrite Nat.eqb_refl. reflexivity.
  - destruct (Nat.eqb a m) eqn:E; [|apply IH; assumption].
    apply Nat.eqb_eq in E. subst a. exfalso. apply Hnin. change m with (fst (m, c)). apply in_map. assumption.
Qed.

Lemma find_axis_some_in {A} : forall (l : list (nat * A)) m c, find_axis m l = Some c -> In (m, c) l.
Proof.
  induction l as [|[a x] l IH]; intros m c H; [discriminate|]. cbn in H.
  destruct (Nat.eqb a m) eqn:E; [apply Nat.eqb_eq in E; subst; injection H as ->; left; reflexivity|right; apply IH; assumption].
Qed.

Lemma NoDup_keys_sort {A} : forall (l : list (nat * A)), NoDup (map fst l) -> NoDup (map fst (sort_desc l)).
Proof.
  intros l H. assert (P : forall (x : nat * A) t, Permutation (insert_desc x t) (x :: t)).
  { induction t as [|z t IHt]; cbn [insert_desc]; [apply Permutation_refl|].
    destruct (Nat.ltb (fst x) (fst z)); [|apply Permutation_refl].
    eapply Permutation_trans; [apply perm_skip; exact IHt|apply perm_swap]. }
  assert (Q : Permutation (sort_desc l) l).
  { induction l as [|x l IHl]; cbn [sort_desc]; [apply Permutation_refl|].
    eapply Permutation_trans; [apply P|]. apply perm_skip. apply IHl. simpl in H. apply NoDup_cons_iff in H. apply H. }
  eapply Permutation_NoDup; [apply Permutation_sym; apply Permutation_map; exact Q|assumption].
Qed.

Lemma find_axis_sort {A} : forall (l : list (nat * A)) m, NoDup (map fst l) -> find_axis m (sort_desc l) = find_axis m l.
Proof.
  intros l m H. destruct (find_axis m l) as [c|] eqn:E.
  - apply find_axis_in; [apply NoDup_keys_sort; assumption|]. apply (proj2 (in_sort_desc l (m, c))). apply find_axis_some_in. assumption.
  - destruct (find_axis m (sort_desc l)) as [c|] eqn:E'; [|reflexivity].
    apply find_axis_some_in in E'. apply (proj1 (in_sort_desc l (m, c))) in E'. rewrite (find_axis_in l m c H E') in E. discriminate.
Qed.

Lemma NoDup_keys_enum {A} : forall (l : list A) j, NoDup (map fst (enum_from j l)).
Proof.
  induction l as [|x l IH]; intros j; cbn; constructor; [|apply IH].
  intro Hin. apply in_map_iff in Hin. destruct Hin as [p [E Hp]]. apply enum_from_range in Hp. lia.
Qed.

Lemma NoDup_keys_filter {A} (Q : nat * A -> bool) : forall (l : list (nat * A)), NoDup (map fst l) -> NoDup (map fst (filter Q l)).
Proof.
  induction l as [|x l IH]; intros H; cbn; [constructor|]. simpl in H. apply NoDup_cons_iff in H. destruct H as [Hnin Hnd].
  destruct (Q x); [|apply IH; assumption]. cbn. constructor; [|apply IH; assumption].
  intro Hin. apply Hnin. apply in_map_iff in Hin. destruct Hin as [p [E Hp]]. apply filter_In in Hp.
  apply in_map_iff. exists p. split; [assumption|apply Hp].
Qed.

Lemma NoDup_keys_two_filters {A} (Q1 Q2 : nat * A -> bool) : forall (l : list (nat * A)),
  (forall p, Q1 p = true -> Q2 p = false) -> NoDup (map fst l) ->
  NoDup (map fst (filter Q1 l ++ filter Q2 l)).
Proof.
  intros l Hdis. induction l as [|x l IH]; intros H; cbn; [constructor|]. simpl in H. apply NoDup_cons_iff in H. destruct H as [Hnin Hnd].
  assert (Hn : ~ In (fst x) (map fst (filter Q1 l ++ filter Q2 l))).
  { intro Hin. apply Hnin. rewrite map_app in Hin. apply in_app_or in Hin.
    destruct Hin as [Hin|Hin]; apply in_map_iff in Hin; destruct Hin as [p [E Hp]]; apply filter_In in Hp;
      apply in_map_iff; exists p; (split; [assumption|apply Hp]). }
  destruct (Q1 x) eqn:E1.
  - rewrite (Hdis x E1). cbn. constructor; [assumption|apply IH; assumption].
  - destruct (Q2 x) eqn:E2; [|apply IH; assumption].
    rewrite map_app. cbn [map]. eapply Permutation_NoDup; [apply Permutation_middle|].
    rewrite <- map_app. constructor; [assumption|apply IH; assumption].
Qed.

(* ---- views built position by position ---- *)
Fixpoint build (f : nat -> Z -> option sel) (m : nat) (shape : list Z) : option view :=
  match shape with
  | [] => Some []
  | d :: t => match f m d, build f (S m) t with Some s, Some r => Some (s :: r) | _, _ => None end
  end.

Lemma map_keeps_full_build : forall g shape k, map_keeps g k (full shape) = build (fun m d => g m (zrange d)) k shape.
Proof.
  intros g. induction shape as [|d shape IH]; intros k; [reflexivity|]. cbn. fold (full shape). rewrite IH. reflexivity.
Qed.

Lemma build_nth : forall f shape j v, build f j shape = Some v ->
  length v = length shape /\
  forall m d, nth_error shape m = Some d -> exists s, f (j + m)%nat d = Some s /\ nth_error v m = Some s.
Proof.
  intros f. induction shape as [|d0 shape IH]; intros j v H; cbn in H.
  - injection H as <-. split; [reflexivity|]. intros m d Hm. destruct m; discriminate.
  - destruct (f j d0) as [s|] eqn:Hs; [|discriminate]. destruct (build f (S j) shape) as [r|] eqn:Hr; [|discriminate].
    injection H as <-. destruct (IH _ _ Hr) as [L P]. split; [cbn; f_equal; assumption|].
    intros m d Hm. destruct m as [|m]; cbn in Hm.
    + injection Hm as <-. exists s. rewrite Nat.add_0_r. split; [assumption|reflexivity].
    + destruct (P m d Hm) as [s' [H1 H2]]. exists s'. replace (j + S m)%nat with (S j + m)%nat by lia. split; assumption.
Qed.

Lemma build_of_nth : forall f shape j v, length v = length shape ->
  (forall m d, nth_error shape m = Some d -> exists s, f (j + m)%nat d = Some s /\ nth_error v m = Some s) ->
  build f j shape = Some v.
Proof.
  intros f. induction shape as [|d0 shape IH]; intros j v L P.
  - destruct v; [reflexivity|discriminate].
  - destruct v as [|s0 v]; [discriminate|]. cbn.
    destruct (P 0%nat d0 eq_refl) as [s [H1 H2]]. rewrite Nat.add_0_r in H1. cbn in H2. injection H2 as ->.
    rewrite H1. rewrite (IH (S j) v); [reflexivity|cbn in L; lia|].
    intros m d Hm. destruct (P (S m) d Hm) as [s' [H1' H2']]. exists s'.
    replace (S j + m)%nat with (j + S m)%nat by lia. split; assumption.
Qed.

Lemma build_total : forall f shape j,
  (forall m d, nth_error shape m = Some d -> exists s, f (j + m)%nat d = Some s) -> exists v, build f j shape = Some v.
Proof.
  intros f. induction shape as [|d0 shape IH]; intros j P; [eexists; reflexivity|]. cbn.
  destruct (P 0%nat d0 eq_refl) as [s H1]. rewrite Nat.add_0_r in H1. rewrite H1.
  destruct (IH (S j)) as [r Hr].
  - intros m d Hm. destruct (P (S m) d Hm) as [s' H']. exists s'. replace (S j + m)%nat with (j + S m)%nat by lia. assumption.
  - rewrite Hr. eexists. reflexivity.
Qed.

(* ---- counting removed axes ---- *)
Fixpoint cnt_cint (Q : comp -> bool) (idx : list comp) (a : nat) : nat :=
  match a, idx with
  | S a', c :: t => ((if Q c then 1 else 0) + cnt_cint Q t a')%nat
  | _, _ => 0%nat
  end.

Lemma count_below_enum (Q : comp -> bool) : forall idx j a,
  count_below a (map fst (filter (fun p => Q (snd p)) (enum_from j idx))) = cnt_cint Q idx (a - j).
Proof.
  induction idx as [|c idx IH]; intros j a.
  - cbn. destruct (a - j)%nat; reflexivity.
  - cbn [enum_from filter snd]. destruct (a - j)%nat as [|n] eqn:E.
    + cbn [cnt_cint]. assert (Z0 : cnt_cint Q idx (a - S j) = 0%nat) by (replace (a - S j)%nat with 0%nat by lia; destruct idx; reflexivity).
      destruct (Q c); cbn [map fst]; unfold count_below in *; cbn [filter].
      * assert (Nat.ltb j a = false) as -> by (apply Nat.ltb_ge; lia). rewrite <- Z0. apply IH.
      * rewrite <- Z0. apply IH.
    + cbn [cnt_cint]. replace n with (a - S j)%nat by lia.
      destruct (Q c); cbn [map fst]; unfold count_below in *; cbn [filter].
      * assert (Nat.ltb j a = true) as -> by (apply Nat.ltb_lt; lia). cbn [length]. rewrite IH. reflexivity.
      * rewrite IH. reflexivity.
Qed.

Definition is_pickb (s : sel) : bool := match s with Pick _ => true | Keep _ => false end.

Lemma knum_count (Q : comp -> bool) : forall a v idx, (a <= length idx)%nat ->
  (forall m c, (m < a)%nat -> nth_error idx m = Some c -> exists s, nth_error v m = Some s /\ is_pickb s = Q c) ->
  (knum v a + cnt_cint Q idx a = a)%nat.
Proof.
  induction a as [|a IH]; intros v idx Hl H; [destruct idx; reflexivity|].
  destruct idx as [|c idx]; [cbn in Hl; lia|]. destruct (H 0%nat c ltac:(lia) eq_refl) as [s [Hs Hq]].
  destruct v as [|s0 v]; [discriminate|]. cbn in Hs. injection Hs as ->.
  assert (IH' : (knum v a + cnt_cint Q idx a = a)%nat).
  { apply IH; [cbn in Hl; lia|]. intros m c' Hm Hc. apply (H (S m) c'); [lia|assumption]. }
  cbn [cnt_cint]. rewrite <- Hq. unfold knum in *. destruct s; cbn [firstn nkeeps is_pickb]; lia.
Qed.

(* ---- a Gather chain after a first stage, against NumPy's per-axis view ---- *)
Definition gather_ops (adj : nat -> nat) (G : list (nat * comp)) : list op :=
  map (fun p => OGather (adj (fst p)) (gix (snd p))) G.

Definition is_advc (c : comp) : bool := is_tensor c || is_cint c.

Lemma gather_sel_zrange_adv : forall d c, 0 <= d -> is_advc c = true -> gather_sel (zrange d) (gix c) = sel_of d c.
Proof.
  intros d c Hd Hc. destruct c as [i|a b s|i|l]; try discriminate.
  - change (sel_of d (CInt i)) with (sel_of d (CT0 i)). change (gix (CInt i)) with (gix (CT0 i)). apply gather_sel_zrange; [assumption|reflexivity].
  - apply gather_sel_zrange; [assumption|reflexivity].
  - apply gather_sel_zrange; [assumption|reflexivity].
Qed.

Lemma np_index_build : forall idx shape, dims_nonneg shape -> (length idx <= length shape)%nat ->
  np_index shape idx = build (fun m d => np_pt idx m (zrange d)) 0 shape.
Proof. intros. rewrite np_index_pointwise0 by assumption. apply map_keeps_full_build. Qed.

Definition stage_ok (shape : list Z) (idx : list comp) (adj : nat -> nat) (G : list (nat * comp)) (v1 : view) : Prop :=
  forall p, In p G -> exists d,
    nth_error shape (fst p) = Some d /\ nth_error idx (fst p) = Some (snd p) /\ is_advc (snd p) = true /\
    nth_error v1 (fst p) = Some (Keep (zrange d)) /\ adj (fst p) = knum v1 (fst p).

Lemma stage_ok_chain : forall shape idx adj G v1, stage_ok shape idx adj G v1 ->
  forall p, In p G -> exists l, nth_error v1 (fst p) = Some (Keep l) /\ adj (fst p) = knum v1 (fst p).
Proof. intros shape idx adj G v1 H p Hp. destruct (H p Hp) as [d [_ [_ [_ [H1 H2]]]]]. eexists. split; eassumption. Qed.

Theorem chain_sound : forall shape idx adj G v1 v,
  dims_nonneg shape -> (length idx <= length shape)%nat -> length v1 = length shape -> desc G ->
  stage_ok shape idx adj G v1 ->
  (forall m d s, nth_error shape m = Some d -> find_axis m G = None -> nth_error v1 m = Some s ->
     np_pt idx m (zrange d) = Some s) ->
  run_ops (gather_ops adj G) v1 = Some v -> np_index shape idx = Some v.
Proof.
  intros shape idx adj G v1 v Hd Hlen L1 HG Hst Hrest Hrun.
  unfold gather_ops in Hrun. rewrite (chain_run adj G v1 HG (stage_ok_chain _ _ _ _ _ Hst)) in Hrun.
  destruct (apply_g_nth G v1 v HG Hrun) as [L P].
  rewrite np_index_build by assumption. apply build_of_nth; [congruence|].
  intros m d Hm. cbn [Nat.add].
  assert (Hmv : exists s, nth_error v m = Some s).
  { destruct (nth_error v m) as [s|] eqn:E; [eexists; reflexivity|]. apply nth_error_None in E.
    assert (m < length shape)%nat by (apply nth_error_Some; congruence). lia. }
  destruct Hmv as [s Hs]. exists s. split; [|assumption].
  rewrite P in Hs. destruct (find_axis m G) as [c|] eqn:Ef.
  - apply find_axis_some_in in Ef. destruct (Hst _ Ef) as [d' [H1 [H2 [H3 [H4 _]]]]]. cbn [fst snd] in *.
    rewrite Hm in H1. injection H1 as <-. rewrite H4 in Hs.
    rewrite gather_sel_zrange_adv in Hs by (try assumption; eapply Hd; eassumption).
    unfold np_pt. rewrite H2. rewrite zrange_length by (eapply Hd; eassumption). assumption.
  - eapply Hrest; eassumption.
Qed.

Lemma nth_error_ext' {A} : forall (l1 l2 : list A), (forall m, nth_error l1 m = nth_error l2 m) -> l1 = l2.
Proof.
  induction l1 as [|x l1 IH]; intros l2 H.
  - destruct l2 as [|y l2]; [reflexivity|]. specialize (H 0%nat). discriminate.
  - destruct l2 as [|y l2]; [specialize (H 0%nat); discriminate|].
    pose proof (H 0%nat) as H0. cbn in H0. injection H0 as ->. f_equal. apply IH. intros m. apply (H (S m)).
Qed.

Theorem chain_complete : forall shape idx adj G v1 v,
  dims_nonneg shape -> (length idx <= length shape)%nat -> length v1 = length shape -> desc G ->
  stage_ok shape idx adj G v1 ->
  (forall m d s, nth_error shape m = Some d -> find_axis m G = None -> np_pt idx m (zrange d) = Some s ->
     nth_error v1 m = Some s) ->
  np_index shape idx = Some v -> run_ops (gather_ops adj G) v1 = Some v.
Proof.
  intros shape idx adj G v1 v Hd Hlen L1 HG Hst Hrest Hnp.
  unfold gather_ops. rewrite (chain_run adj G v1 HG (stage_ok_chain _ _ _ _ _ Hst)).
  rewrite np_index_build in Hnp by assumption. destruct (build_nth _ _ _ _ Hnp) as [Lv Pv].
  assert (Hpt : forall m d, nth_error shape m = Some d -> np_pt idx m (zrange d) = nth_error v m).
  { intros m d Hm. destruct (Pv m d Hm) as [s [H1 H2]]. cbn [Nat.add] in H1. congruence. }
  destruct (apply_g_total G v1 HG) as [v' Hv'].
  { intros p Hp. destruct (Hst p Hp) as [d [H1 [H2 [H3 [H4 _]]]]]. exists (zrange d).
    destruct (Pv _ _ H1) as [s [Hs1 Hs2]]. cbn [Nat.add] in Hs1. exists s. split; [assumption|].
    rewrite gather_sel_zrange_adv by (try assumption; eapply Hd; eassumption).
    unfold np_pt in Hs1. rewrite H2 in Hs1. rewrite zrange_length in Hs1 by (eapply Hd; eassumption). assumption. }
  rewrite Hv'. f_equal. destruct (apply_g_nth G v1 v' HG Hv') as [L P].
  apply nth_error_ext'. intros m. rewrite P.
  destruct (nth_error shape m) as [d|] eqn:Hm.
  - destruct (find_axis m G) as [c|] eqn:Ef.
    + apply find_axis_some_in in Ef. destruct (Hst _ Ef) as [d' [H1 [H2 [H3 [H4 _]]]]]. cbn [fst snd] in *.
      rewrite Hm in H1. injection H1 as <-. rewrite H4.
      rewrite gather_sel_zrange_adv by (try assumption; eapply Hd; eassumption).
      rewrite <- (Hpt m d Hm). unfold np_pt. rewrite H2. rewrite zrange_length by (eapply Hd; eassumption). reflexivity.
    + destruct (Pv m d Hm) as [s [Hs1 Hs2]]. cbn [Nat.add] in Hs1. rewrite Hs2. eapply Hrest; eassumption.
  - assert (length shape <= m)%nat by (apply nth_error_None; assumption).
    assert (find_axis m G = None) as ->.
    { destruct (find_axis m G) as [c|] eqn:Ef; [|reflexivity]. apply find_axis_some_in in Ef.
      destruct (Hst _ Ef) as [d' [H1 _]]. cbn [fst] in H1. congruence. }
    assert (nth_error v1 m = None) as -> by (apply nth_error_None; lia).
    symmetry. apply nth_error_None. lia.
Qed.
