"""C05 family: _fuse_hardswish.py (fuse_hardswish_rules(): HardSwishFusion, HardSigmoidFusion, HardSwishFusionFromHardSigmoid).

Model coq/Rules/HardSwish.v (rationals), proofs HardSwishProofs.v, property theorems Props/C05_hardswish.v.
Correspondence: the rule set (commute=True) applied to generated hosts -- x of rank 0-3, the four constants as 0-d / [1] / [1,1] /
[1,1,1] tensors, exact or approximately equal values on both sides of the rtol=1e-4 window, either operand order of Add and Mul,
initializers or Constant nodes, HardSigmoid attributes present / absent / off -- fired? is compared inside Coq with
`hs_check_impl` / `hs_check_fixed` / `from_sigmoid_check` evaluated on the exact rational value of every float32 constant.
Direct oracle: host vs rewritten on onnxruntime and onnx.reference, 3 inputs containing the kinks -3, 3 and their neighbours.
"""
from __future__ import annotations

import numpy as np

from harness import c05_b_util as U
from harness.common import cbool, clist, cnat

FAM = "hardswish"
PTS = np.array([-7, -3.5, -3, -2.9999, -1.5, 0, 1, 2.9, 3, 3.0005, 10, 100], np.float32)


def _instance(rng, i):
    kind = ("swish", "sigmoid", "swish", "from_sigmoid")[i % 4]
    xr = rng.choice([0, 1, 1, 2, 3])
    inst = dict(kind=kind, xr=xr, const_kind=("init", "node")[(i // 4) % 2],
                add_swapped=rng.random() < 0.4, mul_swapped=rng.random() < 0.5)
    miss = rng.choice(["none"] * 5 + ["approx_in", "approx_out", "rank", "bias_input", "other_x", "min_nonzero"])
    if kind == "from_sigmoid":
        miss = rng.choice(["none", "none", "alpha_off", "beta_off", "alpha_absent", "beta_absent", "alpha_close", "other_x"])
    if kind == "sigmoid" and miss == "other_x":
        miss = "none"
    if miss == "rank" and xr == 3:
        xr = inst["xr"] = 2
    inst["miss"] = miss
    vals = dict(bias=3.0, cmin=0.0, cmax=6.0, div=6.0)
    if miss == "approx_in":          # inside math.isclose(rel_tol=1e-4): the rule as read fires
        k = rng.choice(["bias", "cmax", "div"])
        vals[k] = {"bias": rng.choice([3.0003, 2.9998]), "cmax": rng.choice([6.0005, 5.9996]), "div": rng.choice([6.0005, 5.9995])}[k]
    if miss == "approx_out":         # outside the window
        k = rng.choice(["bias", "cmax", "div"])
        vals[k] = {"bias": rng.choice([3.001, 2.5]), "cmax": rng.choice([6.01, 5.0]), "div": rng.choice([6.5, 3.0])}[k]
    if miss == "min_nonzero":
        vals["cmin"] = rng.choice([1e-9, 0.5, -1e-6])
    inst["vals"] = vals
    shapes = [(), (1,), (1, 1), (1, 1, 1)]
    if miss == "rank":
        r = rng.choice([s for s in shapes if len(s) > xr])
        inst["bshape"], inst["dshape"] = (r, rng.choice([s for s in shapes if len(s) <= max(xr, len(r))])) if rng.random() < 0.5 else \
            (rng.choice([s for s in shapes if len(s) <= max(xr, len(r))]), r)
    else:
        ok = [s for s in shapes if len(s) <= xr]
        inst["bshape"], inst["dshape"] = rng.choice(ok), rng.choice(ok)
    if kind == "from_sigmoid":
        a32 = float(np.float32(1 / 6))
        inst["alpha"] = {"alpha_off": 0.2, "alpha_absent": None, "alpha_close": float(np.nextafter(np.float32(1 / 6), np.float32(1)))}.get(miss, a32)
        inst["beta"] = {"beta_off": 0.6, "beta_absent": None}.get(miss, 0.5)
    return inst


def _corpus():
    """witnesses of the `_refuted` theorems of Props/C05_hardswish.v (and their neighbours), replayed on every run"""
    base = dict(const_kind="init", add_swapped=False, mul_swapped=False)
    exact = dict(bias=3.0, cmin=0.0, cmax=6.0, div=6.0)
    return [
        dict(base, kind="swish", xr=1, miss="approx_in", vals=dict(exact, bias=3.0003), bshape=(), dshape=()),
        dict(base, kind="swish", xr=1, miss="rank", vals=dict(exact), bshape=(1, 1), dshape=(1, 1)),
        dict(base, kind="sigmoid", xr=1, miss="rank", vals=dict(exact), bshape=(1, 1), dshape=()),
        dict(base, kind="swish", xr=2, miss="none", vals=dict(exact), bshape=(1, 1), dshape=(1,)),
        dict(base, kind="swish", xr=1, miss="approx_out", vals=dict(exact, bias=3.001), bshape=(), dshape=()),
    ]


def _host(inst):
    xr = inst["xr"]
    xshape = [len(PTS)] if xr == 1 else ([] if xr == 0 else [2] * (xr - 1) + [len(PTS)])
    nodes, inits, inputs = [], [], [("x", "float32", xshape)]

    def const(name, arr):
        if inst["const_kind"] == "init":
            inits.append(U.init(name, arr))
        else:
            nodes.append(U.const_node(name, arr))
        return name

    kind, miss = inst["kind"], inst["miss"]
    if miss == "other_x":
        inputs.append(("z", "float32", xshape))
    mul_x = "z" if miss == "other_x" else "x"
    orank = xr
    if kind == "from_sigmoid":
        attrs = {}
        if inst["alpha"] is not None:
            attrs["alpha"] = inst["alpha"]
        if inst["beta"] is not None:
            attrs["beta"] = inst["beta"]
        nodes.append(U.node("HardSigmoid", ["x"], ["h"], **attrs))
        nodes.append(U.node("Mul", [mul_x, "h"] if inst["mul_swapped"] else ["h", mul_x], ["y"]))
    else:
        v = inst["vals"]
        if miss == "bias_input":
            inputs.append(("bias", "float32", list(inst["bshape"])))
            b = "bias"
        else:
            b = const("bias", np.full(inst["bshape"], v["bias"], np.float32))
        lo = const("cmin", np.array(v["cmin"], np.float32))
        hi = const("cmax", np.array(v["cmax"], np.float32))
        d = const("div", np.full(inst["dshape"], v["div"], np.float32))
        nodes.append(U.node("Add", [b, "x"] if inst["add_swapped"] else ["x", b], ["t"]))
        nodes.append(U.node("Clip", ["t", lo, hi], ["c"]))
        if kind == "swish":
            nodes.append(U.node("Mul", [mul_x, "c"] if inst["mul_swapped"] else ["c", mul_x], ["m"]))
            nodes.append(U.node("Div", ["m", d], ["y"]))
        else:
            nodes.append(U.node("Div", ["c", d], ["y"]))
        orank = max(xr, len(inst["bshape"]), len(inst["dshape"]))
    nodes.sort(key=lambda nd: 0 if nd.op_type == "Constant" else 1)
    return U.model(nodes, inputs, [("y", "float32", [f"d{k}" for k in range(orank)])], inits=inits), xshape


def _feeds(inst, xshape):
    fs = []
    for k in range(3):
        pts = np.roll(PTS, k) * (1 if k < 2 else -1)
        if inst["xr"] == 0:
            x = np.array(PTS[[3, 8, 10][k]], np.float32)
        else:
            x = np.broadcast_to(pts, xshape).astype(np.float32).copy()
        f = {"x": x, "z": np.asarray(x + 1, dtype=np.float32)}
        if inst["miss"] == "bias_input":
            f["bias"] = np.full(inst["bshape"], 3.0, np.float32)
        fs.append(f)
    return fs


def _defect(inst):
    if inst["kind"] == "from_sigmoid":
        return None
    return {"approx_in": "approx", "rank": "rank"}.get(inst["miss"])


def family(ctx):
    from onnxscript.rewriter.rules.common import _fuse_hardswish as mod
    ctx.assume("hardswish: ONNX HardSigmoid = max(0, min(1, alpha*x+beta)), HardSwish = x*HardSigmoid(x; 1/6, 1/2), Clip = min(max(x,lo),hi); "
               "identities proved over Q; float rounding (e.g. x/6 vs x*(1/6)) is outside the model, oracle tolerance rtol 1e-4 / atol 1e-5")
    rng = ctx.rng
    n_inst = 140 if ctx.tier == "quick" else 1400
    rules = mod.fuse_hardswish_rules()
    cases, meta, fs_cases, fs_meta = [], [], [], []
    fired = 0
    want_op = {"swish": "HardSwish", "sigmoid": "HardSigmoid", "from_sigmoid": "HardSwish"}
    corpus = _corpus()
    for i in range(n_inst + len(corpus)):
        inst = corpus[i] if i < len(corpus) else _instance(rng, i)
        host, xshape = _host(inst)
        if not U.host_ok(host):
            ctx.tie_broken("harness", FAM, f"generated host is not checker-valid: {inst}")
            continue
        new, exc = U.apply(host, rules)
        ctx.case((inst["kind"], inst["miss"], inst["xr"], len(inst["bshape"]), len(inst["dshape"]), inst["add_swapped"], inst["mul_swapped"], inst["const_kind"]))
        if exc is not None:
            U.report(ctx, FAM, f"raises:{type(exc).__name__}", "rule set raised", {"instance": inst}, [repr(exc)[:200]])
            continue
        did = U.ops(new) == [want_op[inst["kind"]]]
        fired += did
        reasons, _ = U.oracle(host, new, _feeds(inst, xshape), exact=False)
        if reasons:
            kc = {"approx": "approximate-constant", "rank": "singleton-constant-raises-rank"}.get(_defect(inst), f"{inst['kind']}:{inst['miss']}")
            U.report(ctx, FAM, kc, f"{want_op[inst['kind']]} fusion changes the model", {"instance": inst}, reasons)
        if inst["miss"] == "other_x":
            if did:
                ctx.tie_broken("correspondence", FAM, f"fired although Mul's operand is a different value: {inst}")
            continue
        if inst["kind"] == "from_sigmoid":
            a = -1.0 if inst["alpha"] is None else float(np.float32(inst["alpha"]))
            b = -1.0 if inst["beta"] is None else float(np.float32(inst["beta"]))
            fs_cases.append(f"({U.cq(a)}, {U.cq(b)}, {cbool(did)})")
            fs_meta.append(inst)
            continue
        v = {k: float(np.float32(x)) for k, x in inst["vals"].items()}
        lit = ("{| c_bias := %s; c_min := %s; c_max := %s; c_div := %s; r_bias := %s; r_div := %s; x_rank := %s; all_const_singletons := %s |}" % (
            U.cq(v["bias"]), U.cq(v["cmin"]), U.cq(v["cmax"]), U.cq(v["div"]), cnat(len(inst["bshape"])), cnat(len(inst["dshape"])),
            cnat(inst["xr"]), cbool(inst["miss"] != "bias_input")))
        cases.append(f"({lit}, {cbool(did)})")
        meta.append(inst)
    ok, di, df, raw = U.eval_cases(ctx, ["OV.Rules.HardSwish"], "hs_case", cases, "hs_dis", prelude="From Coq Require Import QArith.\n", chunk=500)
    if not ok:
        ctx.tie_broken("correspondence", f"{FAM}:model-evaluation", raw[-800:])
        return
    nbad, variant = U.settle(ctx, FAM, "rules", meta, di, df, _defect)
    ok2, vals, raw2 = ctx.coq_eval(["OV.Rules.HardSwish"], "From Coq Require Import QArith.\n"
                                   f"Definition fcases : list fs_case := {clist(fs_cases)}.\nEval vm_compute in (fs_dis false fcases).\n"
                                   "Eval vm_compute in (fs_dis true fcases).")
    from harness import common
    if not ok2 or len(vals) < 2:
        ctx.tie_broken("correspondence", f"{FAM}:from_sigmoid:model-evaluation", raw2[-800:])
        bad_fs = []
    else:
        # two modelled variants: as read (numpy.isclose) and repaired (alpha = float32(1/6), beta = 1/2 exactly); all cases must follow one
        d_impl, d_fixed = common.parse_nat_list(vals[0]), common.parse_nat_list(vals[1])
        bad_fs = d_impl if len(d_impl) <= len(d_fixed) else d_fixed
        variant["from_sigmoid"] = "impl" if not d_impl else ("fixed" if not d_fixed else "neither")
    for j in bad_fs[:5]:
        ctx.tie_broken("correspondence", f"{FAM}:from_sigmoid", f"{fs_meta[j]}: fired? differs from HardSwish.from_sigmoid_check and from from_sigmoid_check_exact")
    ctx.sample({"family": FAM, "instance": meta[len(meta) // 2]})
    ctx.cover(hardswish_instances=n_inst, hardswish_fired=int(fired), hardswish_variant=variant, hardswish_from_sigmoid_cases=len(fs_cases),
              c05b_oracle_stats=dict(U.STATS))
    ctx.obligation("correspondence hardswish: fired? = HardSwish.hs_check_impl or hs_check_fixed / from_sigmoid_check on every instance (exact rational value of each float32 constant)",
                   nbad == 0 and not bad_fs)
