"""C05 family: _fuse_conv_affine.py (affine_conv_fusion_rule, conv_affine_fusion_rule).

Model coq/Rules/ConvAffine.v, proofs ConvAffineProofs.v (linearity over any commutative ring, padded taps, bias shape),
property theorems Props/C05_convaffine.v.
Correspondence: both rules applied to generated hosts (conv rank 1-2 spatial, groups, strides, dilations, pads / auto_pad for
ConvAffine; pads=[0,0,0,0] pinned for AffineConv; scale/offset as 0-d, [1], [1,1], [1,1,1,1] initializers or Constant nodes;
near misses: non-singleton scale, non-constant operand, pads absent / non-zero, missing bias, commuted or reordered affine);
fired?, exact fused weight and bias tensors and the bias rank compared inside Coq with ConvAffine.ca_rule.
Direct oracle: host vs rewritten on onnxruntime / onnx.reference.
"""
from __future__ import annotations

from fractions import Fraction

import numpy as np

from harness import c05_b_util as U
from harness.common import cbool, clist, cnat, copt

FAM = "convaffine"


def _instance(rng, i):
    kind = ("AffineConv", "ConvAffine")[i % 2]
    n = 2 if kind == "AffineConv" else rng.choice([1, 2, 2])
    g = rng.choice([1, 1, 2])
    inst = dict(kind=kind, n=n, group=g, M=g * rng.choice([1, 2]), cpg=rng.choice([1, 2]),
                kernel=[rng.choice([1, 2, 3]) for _ in range(n)], xs=[rng.choice([4, 5, 6]) for _ in range(n)],
                strides=rng.choice([None, [rng.choice([1, 2]) for _ in range(n)]]),
                dil=rng.choice([None, None, [rng.choice([1, 2]) for _ in range(n)]]),
                scale=rng.choice([2.0, -1.0, 0.5, 3.0]), offset=rng.choice([0.0, 1.0, -2.0, 0.5]),
                sshape=rng.choice([(), (), (1,), (1, 1), (1,) * (n + 2)]), oshape=rng.choice([(), (), (1,), (1,) * (n + 2)]),
                const_kind=("init", "node")[(i // 2) % 2])
    miss = rng.choice(["none"] * 6 + ["scale_vector", "scale_input", "w_input", "no_bias", "add_before_mul", "commuted_mul"]
                      + (["pads_absent", "pads_nonzero"] if kind == "AffineConv" else []))
    inst["miss"] = miss
    inst["xs"] = [max(x, (k - 1) * d + 1) for x, k, d in zip(inst["xs"], inst["kernel"], inst["dil"] or [1] * n)]      # the dilated kernel must fit
    if miss == "scale_vector":          # a genuine per-channel vector needs >= 2 channels
        inst["cpg"] = 2
        inst["M"] = 2 * g
    if kind == "AffineConv":
        inst["pads"] = None if miss == "pads_absent" else ([1, 0, 1, 0] if miss == "pads_nonzero" else [0, 0, 0, 0])
        inst["auto_pad"] = None
    else:
        inst["auto_pad"] = rng.choice([None, None, "SAME_UPPER", "VALID"])
        inst["pads"] = None if inst["auto_pad"] else rng.choice([None, [rng.choice([0, 1, 2]) for _ in range(2 * n)]])
        if inst["auto_pad"] in ("SAME_UPPER",):
            inst["dil"] = None          # onnxruntime has no SAME_* with dilations
    return inst


def _host(inst, rs):
    n, g = inst["n"], inst["group"]
    C = g * inst["cpg"]
    xshape = [1, C] + inst["xs"]
    W = rs.randint(-2, 3, [inst["M"], inst["cpg"]] + inst["kernel"]).astype(np.float32)
    B = rs.randint(-3, 4, [inst["M"]]).astype(np.float32)
    nodes, inits, inputs = [], [], [("x", "float32", xshape)]
    miss = inst["miss"]

    def const(name, arr, as_input=False):
        if as_input:
            inputs.append((name, "float32", list(arr.shape)))
        elif inst["const_kind"] == "init":
            inits.append(U.init(name, arr))
        else:
            nodes.append(U.const_node(name, arr))
        return name

    if miss == "scale_vector":
        shp = [1, C if inst["kind"] == "AffineConv" else inst["M"]] + [1] * n
        S = np.full(shp, inst["scale"], np.float32)
        S.reshape(-1)[0] += 1
    else:
        S = np.full(inst["sshape"], inst["scale"], np.float32)
    O = np.full(inst["oshape"], inst["offset"], np.float32)
    s_name = const("s", S, as_input=(miss == "scale_input"))
    o_name = const("o", O)
    w_name = const("w", W, as_input=(miss == "w_input"))
    cins = [w_name] + ([] if miss == "no_bias" else [const("b", B)])
    attrs = {}
    if g != 1:
        attrs["group"] = g
    if inst["strides"] is not None:
        attrs["strides"] = inst["strides"]
    if inst["dil"] is not None:
        attrs["dilations"] = inst["dil"]
    if inst["pads"] is not None:
        attrs["pads"] = inst["pads"]
    if inst["auto_pad"] is not None:
        attrs["auto_pad"] = inst["auto_pad"]

    def aff(src, dst):
        if miss == "add_before_mul":
            nodes.append(U.node("Add", [src, o_name], [dst + "_t"]))
            nodes.append(U.node("Mul", [dst + "_t", s_name], [dst]))
        else:
            nodes.append(U.node("Mul", [s_name, src] if miss == "commuted_mul" else [src, s_name], [dst + "_t"]))
            nodes.append(U.node("Add", [dst + "_t", o_name], [dst]))

    if inst["kind"] == "AffineConv":
        aff("x", "u")
        nodes.append(U.node("Conv", ["u"] + cins, ["y"], **attrs))
    else:
        nodes.append(U.node("Conv", ["x"] + cins, ["c"], **attrs))
        aff("c", "y")
    nodes.sort(key=lambda nd: 0 if nd.op_type == "Constant" else 1)
    orank = max(n + 2, S.ndim, O.ndim)
    m = U.model(nodes, inputs, [("y", "float32", [f"d{k}" for k in range(orank)])], inits=inits)
    return m, dict(W=W, B=B, S=S, xshape=xshape)


def _lit(inst, t):
    q = lambda arr: U.cql([Fraction(float(v)) for v in np.asarray(arr).reshape(-1)])
    miss = inst["miss"]
    return ("{| ck := %s; cw_shape := %s; cw := %s; cb := %s; cscale := %s; coffset := %s; scale_rank := %s; offset_rank := %s; "
            "consts_ok := %s; pads_attr_zero4 := %s |}") % (
        inst["kind"], U.czl(t["W"].shape), q(t["W"]), q(t["B"]), U.cq(inst["scale"]), U.cq(inst["offset"]),
        cnat(len(inst["sshape"])), cnat(len(inst["oshape"])),
        cbool(miss not in ("scale_vector", "scale_input", "w_input")), cbool(inst["pads"] == [0, 0, 0, 0]))


def _defect(inst):
    if inst["miss"] == "none" and inst["kind"] == "ConvAffine" and max(len(inst["sshape"]), len(inst["oshape"])) > 1:
        return "bias-rank"
    return None


def family(ctx):
    from onnxscript.rewriter.rules.common import _fuse_conv_affine as mod
    rules = [mod.affine_conv_fusion_rule, mod.conv_affine_fusion_rule]
    ctx.assume("convaffine: a Conv output element is the dot product of one output channel's weights with the input patch, taps in the "
               "padding contributing 0; float rounding of the recomputed weights/bias outside the ring identity (oracle tolerance)")
    rng = ctx.rng
    n_inst = 120 if ctx.tier == "quick" else 1200
    cases, meta = [], []
    fired = 0
    corpus = [dict(kind="ConvAffine", n=2, group=1, M=3, cpg=2, kernel=[3, 3], xs=[5, 5], strides=None, dil=None, scale=2.0, offset=3.0,
                   sshape=(1, 1, 1, 1), oshape=(), const_kind="init", miss="none", auto_pad=None, pads=None),
              dict(kind="AffineConv", n=2, group=1, M=2, cpg=2, kernel=[2, 2], xs=[5, 5], strides=None, dil=None, scale=0.5, offset=1.0,
                   sshape=(1, 1, 1, 1), oshape=(1,), const_kind="node", miss="none", auto_pad=None, pads=[0, 0, 0, 0]),
              dict(kind="AffineConv", n=2, group=1, M=2, cpg=2, kernel=[2, 2], xs=[5, 5], strides=None, dil=None, scale=0.5, offset=1.0,
                   sshape=(), oshape=(), const_kind="init", miss="pads_nonzero", auto_pad=None, pads=[1, 0, 1, 0])]
    for i in range(n_inst + len(corpus)):
        inst = corpus[i] if i < len(corpus) else _instance(rng, i)
        rs = np.random.RandomState(rng.randrange(1 << 30))
        host, t = _host(inst, rs)
        if not U.host_ok(host):
            ctx.tie_broken("harness", FAM, f"generated host is not checker-valid: {inst}")
            continue
        new, exc = U.apply(host, rules)
        ctx.case((inst["kind"], inst["miss"], len(inst["sshape"]), len(inst["oshape"]), inst["n"], inst["group"], inst["auto_pad"],
                  inst["pads"] is None, inst["const_kind"]))
        if exc is not None:
            U.report(ctx, FAM, f"raises:{type(exc).__name__}", "rule raised", {"instance": inst}, [repr(exc)[:200]])
            continue
        did = U.ops(new) == ["Conv"]
        obs = None
        if did:
            fired += 1
            nd = U.nodes_of(new, "Conv")[0]
            c = U.consts(new)
            fw, fb = c[nd.input[1]], c[nd.input[2]]
            obs = "(%s, %s, %s)" % (U.cql([float(v) for v in fw.reshape(-1)]), U.cql([float(v) for v in fb.reshape(-1)]), cnat(fb.ndim))
        feeds = []
        for k in range(3):
            f = {"x": np.random.RandomState(400 + k).randint(-3, 4, t["xshape"]).astype(np.float32)}
            if inst["miss"] == "scale_input":
                f["s"] = t["S"]
            if inst["miss"] == "w_input":
                f["w"] = t["W"]
            feeds.append(f)
        reasons, _ = U.oracle(host, new, feeds, exact=False)
        if reasons:
            kc = "singleton-rank-gt1-bias" if _defect(inst) else f"{inst['kind']}:{inst['miss']}"
            U.report(ctx, FAM, kc, f"{inst['kind']} fusion changes the model", {"instance": inst}, reasons)
        if inst["miss"] in ("no_bias", "add_before_mul", "commuted_mul"):      # pattern level: must not match
            if did:
                ctx.tie_broken("correspondence", FAM, f"fired on a host that is not an instance of the pattern: {inst}")
            continue
        cases.append(f"({_lit(inst, t)}, {copt(obs)})")
        meta.append(inst)
    ok, di, df, raw = U.eval_cases(ctx, ["OV.Rules.ConvAffine"], "ca_case", cases, "ca_dis", prelude="From Coq Require Import QArith.\n", chunk=150)
    if not ok:
        ctx.tie_broken("correspondence", f"{FAM}:model-evaluation", raw[-800:])
        return
    nbad, variant = U.settle(ctx, FAM, "rules", meta, di, df, _defect)
    ctx.sample({"family": FAM, "instance": meta[len(meta) // 2]})
    ctx.cover(convaffine_instances=n_inst, convaffine_fired=fired, convaffine_compared_in_coq=len(cases), convaffine_variant=variant,
              c05b_oracle_stats=dict(U.STATS))
    ctx.obligation("correspondence convaffine: fired?, exact fused weight/bias and bias rank = ConvAffine.ca_rule (as read or repaired) on every instance", nbad == 0)
