(* C05, collapse_slice_rule / collapse_slice2_rule (_collapse_slices.py) and SlicesSplit (_basic_rules.py): statements only. *)
From Coq Require Import ZArith List Bool.
Require Import OV.Rules.SliceCollapse OV.Rules.SliceCollapseProofs.
Import ListNotations.
Open Scope Z_scope.

(* collapse_slice_rule: whenever `_check_if_redundant_slice` accepts (step 1, start 0, end = INT64_MAX or end >= the static
   dim of the -- possibly negative -- axis), Slice is the identity on every tensor of the annotated rank whose static dims
   are as annotated; all ranks, all dims (0 and 1 included) *)
Theorem C05_collapse_slice : forall sh t ds s e a st k,
  check1 (Some ds) s e a st = true ->
  has_shape sh t = true ->
  length ds = length sh ->
  (forall i d, nth i ds None = Some d -> nth i sh 0 = d) ->
  (forall i, nth i sh 0 <= INT64_MAX) ->
  norm_axis (length sh) a = Some k ->
  along k (slice1 s e) t = t.
Proof. exact collapse_slice_sound. Qed.
Print Assumptions C05_collapse_slice.

(* collapse_slice2_rule (partial: one sliced axis; several axes are covered by the correspondence/oracle only):
   step 1 and equal (truthful) input/output dim => identity for arbitrary starts/ends *)
Theorem C05_collapse_slice2_partial : forall sh t s e k,
  has_shape sh t = true -> (k < length sh)%nat ->
  slice_len s e (nth k sh 0) = nth k sh 0 ->
  along k (slice1 s e) t = t.
Proof. exact collapse_slice2_sound_1axis. Qed.
Print Assumptions C05_collapse_slice2_partial.

(* SlicesSplit on an even last dimension *)
Theorem C05_slices_split_even : forall (A : Type) (l : list A) b0 e0 b1 e1,
  let d := Z.of_nat (length l) in
  split_check d b0 e0 b1 e1 = true -> Z.even d = true ->
  (slice1 b0 e0 l, slice1 b1 e1 l) = split2 l.
Proof. exact slices_split_sound. Qed.
Print Assumptions C05_slices_split_even.

(* the check as written also accepts odd dims, where Split(num_outputs=2) gives (ceil, floor) but the slices (floor, ceil).
   Latent on the pinned tree: the multi-output pattern never matches two distinct Slice nodes (harness: slicesplit stream) *)
Theorem C05_slices_split_odd_refuted : exists (l : list Z) b0 e0 b1 e1,
  split_check (Z.of_nat (length l)) b0 e0 b1 e1 = true /\ (slice1 b0 e0 l, slice1 b1 e1 l) <> split2 l.
Proof. exact slices_split_odd_refuted. Qed.
Print Assumptions C05_slices_split_odd_refuted.

(* collapse_slice2_rule, FULL statement (any number of sliced axes, axes not required to be distinct, arbitrary -- also
   non-constant -- axes/starts/ends): all steps 1 and the output shape equal to the input shape => identity *)
Theorem C05_collapse_slice2 : forall specs sh t,
  has_shape sh t = true -> nonneg sh ->
  (forall k s e, In (k, s, e) specs -> (k < length sh)%nat) ->
  mshape specs sh = sh ->
  mslice specs t = t.
Proof. exact collapse_slice2_sound. Qed.
Print Assumptions C05_collapse_slice2.

(* the rule-level form: `_same_shape` accepted (constant steps all 1; declared shapes equal without unknown dims) and the
   declarations are truthful under one binding of the symbol names *)
Theorem C05_collapse_slice2_rule : forall val ds os st specs sh t,
  check2 (Some ds) (Some os) (Some st) = true ->
  has_shape sh t = true -> nonneg sh ->
  (forall k s e, In (k, s, e) specs -> (k < length sh)%nat) ->
  denotes val ds sh -> denotes val os (mshape specs sh) ->
  mslice specs t = t.
Proof. exact collapse_slice2_rule_sound. Qed.
Print Assumptions C05_collapse_slice2_rule.

(* unknown dims, differently named dims, a step other than 1, non-constant steps: the side condition is false *)
Theorem C05_collapse_slice2_near_misses :
  mslice [(0%nat, 1, INT64_MAX)] (Dim [Sc 1; Sc 2; Sc 3]) <> Dim [Sc 1; Sc 2; Sc 3] /\
  check2 (Some [DUn]) (Some [DUn]) (Some [1]) = false /\ check2 (Some [DSy 0]) (Some [DSy 1]) (Some [1]) = false /\
  check2 (Some [DSt 3]) (Some [DSt 3]) (Some [2]) = false /\ check2 (Some [DSt 3]) (Some [DSt 3]) None = false.
Proof. exact collapse_slice2_unknown_dim_near_miss. Qed.
Print Assumptions C05_collapse_slice2_near_misses.
