(* C06 property theorems about constants (session 6): statements only, each closed by `exact`, Print Assumptions beneath.

   * the tolerance test `isclose a b rel abs` (Match/Pattern.v) is math.isclose over the rationals:
     abs(a-b) <= max(rel_tol * max(abs(a), abs(b)), abs_tol); its laws: symmetric, reflexive, monotone in both
     tolerances, exact with zero tolerances, sign-invariant, against 0 only the absolute tolerance counts; NOT transitive
     (C06_isclose_transitive_refuted: kept visible as `isclose_transitive_full`);
   * a LIST constant of a pattern stands for a rank-1 tensor of exactly that length whose elements agree within the
     tolerance position by position: a constant with the same elements of any other shape ([n,1], [1,n], 0-d for a
     one-element list, ...) is not an instance; a scalar constant stands for a 0-d tensor;
   * the same at the level of the declarative meaning (vlocal) and of the matcher (match_value): together with
     C06_match_sound / C06_match_iff_committed / C06_match_complete_orfree(_multi) (Props/C06.v, parametric in `const_ok`)
     this is "match iff instance" for patterns with list constants.
   Not covered: float rounding inside math.isclose (see Props/C06.v header); non-finite values; integer / bool / string
   tensors (the matcher reads them through numpy .item(), the model has rationals only). *)
From Coq Require Import List ZArith String Bool QArith Qabs.
Close Scope Q_scope.
Require Import OV.Match.Pattern OV.Match.Matcher OV.Match.Spec OV.Match.FeatureProofs OV.Match.ConstProofs.
Import ListNotations.

(* ------------------------------------------------------------------ the tolerance test *)
Theorem C06_isclose_symmetric : forall a b rel abs, isclose a b rel abs = isclose b a rel abs.
Proof. exact isclose_sym. Qed.
Print Assumptions C06_isclose_symmetric.

Theorem C06_isclose_reflexive : forall a rel abs, (0 <= rel)%Q \/ (0 <= abs)%Q -> isclose a a rel abs = true.
Proof. exact isclose_refl. Qed.
Print Assumptions C06_isclose_reflexive.

Theorem C06_isclose_equal_numbers : forall a a' rel abs,
  (a == a')%Q -> (0 <= rel)%Q \/ (0 <= abs)%Q -> isclose a a' rel abs = true.
Proof. exact isclose_eq. Qed.
Print Assumptions C06_isclose_equal_numbers.

Theorem C06_isclose_monotone : forall a b rel abs rel' abs',
  (rel <= rel')%Q -> (abs <= abs')%Q -> isclose a b rel abs = true -> isclose a b rel' abs' = true.
Proof. exact isclose_mono. Qed.
Print Assumptions C06_isclose_monotone.
Example C06_isclose_monotone_satisfiable :
  isclose (1001#1000) 1 (1#1000) 0 = true /\ isclose (1001#1000) 1 (1#100) (1#2) = true /\ isclose (1001#1000) 1 (1#10000) 0 = false.
Proof. exact isclose_mono_example. Qed.

Theorem C06_isclose_exact : forall a b, isclose a b 0 0 = true <-> (a == b)%Q.
Proof. exact isclose_exact. Qed.
Print Assumptions C06_isclose_exact.

Theorem C06_isclose_sign : forall a b rel abs, isclose (- a) (- b) rel abs = isclose a b rel abs.
Proof. exact isclose_opp. Qed.
Print Assumptions C06_isclose_sign.

Theorem C06_isclose_against_zero : forall y rel abs, (0 <= abs)%Q -> (rel < 1)%Q ->
  (isclose y 0 rel abs = true <-> (Qabs y <= abs)%Q).
Proof. exact isclose_zero. Qed.
Print Assumptions C06_isclose_against_zero.

(* "within the tolerance" is not an equivalence relation: transitivity fails (both regimes) *)
Theorem C06_isclose_transitive_refuted : ~ isclose_transitive_full.
Proof. exact isclose_transitive_refuted. Qed.
Print Assumptions C06_isclose_transitive_refuted.

Theorem C06_isclose_transitive_refuted_relative :
  exists a b c rel, (0 <= rel)%Q /\ isclose a b rel 0 = true /\ isclose b c rel 0 = true /\ isclose a c rel 0 = false.
Proof. exact isclose_transitive_refuted_rel. Qed.
Print Assumptions C06_isclose_transitive_refuted_relative.

(* ------------------------------------------------------------------ list constants *)
Theorem C06_list_constant_elementwise : forall ys ps rel abs,
  all_close ys ps rel abs = true <->
  List.length ys = List.length ps /\
  forall i, i < List.length ps -> isclose (nth i ys 0%Q) (nth i ps 0%Q) rel abs = true.
Proof. exact all_close_iff. Qed.
Print Assumptions C06_list_constant_elementwise.

Theorem C06_list_constant_is_rank1 : forall g ps rel abs x,
  const_ok g (CPVec ps rel abs) x = true ->
  exists cv sh ys, assoc Nat.eqb x (g_consts g) = Some cv /\ cval_view cv = Some (sh, ys) /\
                   List.length sh = 1 /\ sh = [List.length ps] /\ List.length ys = List.length ps.
Proof. exact const_list_rank1. Qed.
Print Assumptions C06_list_constant_is_rank1.
Example C06_list_constant_satisfiable :
  const_ok (mkHG [] [] [(0, CVec [0%Q; 0%Q]); (1, CTensor [2] [0%Q; 0%Q])] []) (CPVec [0%Q; 0%Q] (1#100000) (1#100000000)) 0 = true /\
  const_ok (mkHG [] [] [(0, CVec [0%Q; 0%Q]); (1, CTensor [2] [0%Q; 0%Q])] []) (CPVec [0%Q; 0%Q] (1#100000) (1#100000000)) 1 = true.
Proof. exact const_list_example. Qed.

Theorem C06_list_constant_other_shape_no_match : forall g ps rel abs x cv sh ys,
  assoc Nat.eqb x (g_consts g) = Some cv -> cval_view cv = Some (sh, ys) -> sh <> [List.length ps] ->
  const_ok g (CPVec ps rel abs) x = false.
Proof. exact const_list_other_shape. Qed.
Print Assumptions C06_list_constant_other_shape_no_match.
(* the shapes of seeded change C06-6: float[2,1], float[1,2] with the elements of the pattern, and 0-d for [v] *)
Example C06_list_constant_other_shape_witnesses :
  let g := mkHG [] [] [(0, CTensor [2; 1] [0%Q; 0%Q]); (1, CTensor [1; 2] [0%Q; 0%Q]); (2, CScalar 0%Q); (3, CTensor [] [0%Q])] [] in
  const_ok g (CPVec [0%Q; 0%Q] (1#100000) (1#100000000)) 0 = false /\
  const_ok g (CPVec [0%Q; 0%Q] (1#100000) (1#100000000)) 1 = false /\
  const_ok g (CPVec [0%Q] (1#100000) (1#100000000)) 2 = false /\
  const_ok g (CPVec [0%Q] (1#100000) (1#100000000)) 3 = false.
Proof. exact const_list_other_shape_example. Qed.

Theorem C06_scalar_constant_other_shape_no_match : forall g q rel abs x cv sh ys,
  assoc Nat.eqb x (g_consts g) = Some cv -> cval_view cv = Some (sh, ys) -> sh <> [] ->
  const_ok g (CPScalar q rel abs) x = false.
Proof. exact const_scalar_other_shape. Qed.
Print Assumptions C06_scalar_constant_other_shape_no_match.

Theorem C06_constant_encodings_agree : forall g g' c x cv cv',
  assoc Nat.eqb x (g_consts g) = Some cv -> assoc Nat.eqb x (g_consts g') = Some cv' ->
  cval_view cv = cval_view cv' -> const_ok g c x = const_ok g' c x.
Proof. exact const_ok_encoding. Qed.
Print Assumptions C06_constant_encodings_agree.

(* ------------------------------------------------------------------ meaning and matcher *)
Theorem C06_list_constant_instance_iff : forall g s k ps rel abs v,
  vlocal g s (PConst k (CPVec ps rel abs)) v = true <->
  exists x cv ys, v = Some x /\ key_is s (KObj k) v = true /\ assoc Nat.eqb x (g_consts g) = Some cv /\
                  cval_view cv = Some ([List.length ps], ys) /\ all_close ys ps rel abs = true.
Proof. exact list_const_vlocal_iff. Qed.
Print Assumptions C06_list_constant_instance_iff.

Theorem C06_constant_instance_iff : forall g s k c v,
  vlocal g s (PConst k c) v = true <->
  exists x, v = Some x /\ key_is s (KObj k) v = true /\ const_ok g c x = true.
Proof. exact const_vlocal_iff. Qed.
Print Assumptions C06_constant_instance_iff.

Theorem C06_matcher_constant_iff : forall fl g tbl rec k c v st st1,
  match_value fl g tbl rec (PConst k c) v st = Ok st1 <->
  exists x, v = Some x /\ bind_key (KObj k) v st = Some st1 /\ const_ok g c x = true.
Proof. exact match_value_const_iff. Qed.
Print Assumptions C06_matcher_constant_iff.
